//! Positive examples for rules whose expected count on surrealkv is zero: the analyses must FIND
//! these on every thorough run, otherwise a silent pass on the real crate would mean nothing.
#![allow(dead_code, unused)]
use std::sync::{Mutex, RwLock};

pub struct Two {
	a: Mutex<u32>,
	b: RwLock<u32>,
}

async fn tick() {}

impl Two {
	/// an .await while a blocking lock is held
	pub async fn await_under_lock(&self) -> u32 {
		let g = self.a.lock().unwrap();
		tick().await;
		*g
	}

	/// lock order a -> b
	pub fn ab(&self) -> u32 {
		let g = self.a.lock().unwrap();
		let h = self.b.read().unwrap();
		*g + *h
	}

	/// lock order b -> a (inversion with `ab`)
	pub fn ba(&self) -> u32 {
		let h = self.b.write().unwrap();
		let g = self.a.lock().unwrap();
		*g + *h
	}

	/// released before the await: must NOT be reported
	pub async fn release_then_await(&self) -> u32 {
		let v = {
			let g = self.a.lock().unwrap();
			*g
		};
		tick().await;
		v
	}
}

#[derive(Debug)]
pub struct E;
fn fallible(x: u32) -> Result<u32, E> {
	if x > 3 {
		Err(E)
	} else {
		Ok(x)
	}
}
fn infallible(x: u32) -> Result<u32, E> {
	Ok(x)
}

/// dropped errors in three idioms + one propagated + one dropped-but-infallible
pub fn dropping(x: u32) -> Result<u32, E> {
	let _ = fallible(x);
	let a = fallible(x).ok();
	if let Ok(v) = fallible(x) {
		return Ok(v);
	}
	let _ = infallible(x);
	let b = fallible(x)?;
	Ok(b + a.unwrap_or(0))
}

/// comparison shapes: `visible <=> seq <= horizon` written three ways
pub fn vis1(seq: u64, horizon: u64) -> bool {
	seq <= horizon
}
pub fn vis2(seq: u64, horizon: u64) -> bool {
	!(seq > horizon)
}
pub fn vis3(seq: u64, horizon: u64) -> bool {
	match seq.cmp(&horizon) {
		std::cmp::Ordering::Greater => false,
		_ => true,
	}
}
pub fn vis_wrong(seq: u64, horizon: u64) -> bool {
	seq < horizon
}

/// private helpers inside a module are spliced into their callers (skvlint/inline.py): the rules must see
/// `fsync` inside `commit` although it is called through `seal`, and tabulate `vis4` through `le`.
pub mod store {
	pub struct Log {
		n: u32,
	}
	fn fsync(_n: u32) -> Result<(), super::E> {
		Ok(())
	}
	fn ack(_n: u32) {}
	impl Log {
		pub fn commit(&mut self, x: u32) -> Result<(), super::E> {
			self.n += x;
			self.seal()?;
			ack(self.n);
			Ok(())
		}
		/// no durability point at all: must be reported
		pub fn commit_unsynced(&mut self, x: u32) -> Result<(), super::E> {
			self.n += x;
			self.note();
			ack(self.n);
			Ok(())
		}
		fn seal(&mut self) -> Result<(), super::E> {
			if self.n == 0 {
				return Err(super::E);
			}
			fsync(self.n)?;
			Ok(())
		}
		fn note(&mut self) {
			self.n += 0;
		}
	}
	fn le(a: u64, b: u64) -> bool {
		a <= b
	}
	pub fn vis4(seq: u64, horizon: u64) -> bool {
		le(seq, horizon)
	}
}
