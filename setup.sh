#!/bin/bash
# builds the fact-extraction driver (offline, nightly toolchain with rustc-dev) and warms the dependency cache
set -euo pipefail
cd "$(dirname "$0")"
export CARGO_NET_OFFLINE=true
( cd driver && cargo +nightly build --offline 2>&1 | tail -3 )
mkdir -p .cache
# warm: compile /repo's dependencies once with the driver as wrapper
./bin/extract.sh /repo .cache/warm.json .cache/target && rm -f .cache/warm.json .cache/warm.json.log
echo "setup ok"
