#!/bin/bash
# reconfirm_seed.sh <seed-id> ...: re-confirm stored seeded changes against /repo's current HEAD in a scratch worktree
# (demo passes on pristine, fails with the patch, full suite passes with the patch). Worktree removed afterwards.
set -u
WT=${RECONF_WT:-/tmp/reconf_wt}; mkdir -p /tmp/seedlogs
git -C /repo worktree remove --force $WT 2>/dev/null
git -C /repo worktree add -q --detach $WT HEAD || exit 2
export CARGO_NET_OFFLINE=true CARGO_TARGET_DIR=$WT/target
cd $WT
for ID in "$@"; do
  D=/verif/seeded/$ID; LOG=/tmp/seedlogs/re_$ID.log; : > $LOG
  git reset -q --hard; git clean -fdq src
  git apply --check $D/patch.diff 2>>$LOG || { echo "$ID patch does not apply"; continue; }
  git apply $D/demo.diff 2>>$LOG || { echo "$ID demo does not apply"; continue; }
  timeout 600 cargo test --offline --lib seeded_demo >>$LOG 2>&1; R1=$?
  git apply $D/patch.diff
  timeout 180 cargo test --offline --lib seeded_demo >>$LOG 2>&1; R2=$?   # 124 = the demo hangs with the patch (also a failure)
  cargo test --offline --lib -- --skip seeded_demo >>$LOG 2>&1; R3=$?
  [ $R3 -ne 0 ] && { cargo test --offline --lib -- --skip seeded_demo >>$LOG 2>&1; R3=$?; }
  echo "$ID demo_pristine_exit=$R1 demo_patched_exit=$R2 suite_patched_exit=$R3 :: $(grep -E '^test result' $LOG | tail -1)"
done
cd /; git -C /repo worktree remove --force $WT
