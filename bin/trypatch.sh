#!/bin/bash
# trypatch.sh <patch> <dir>: scratch copy of /repo's tree with one patch applied (for ./check Cxx --repo <dir> --no-evidence)
set -e
P=$1; D=$2
rm -rf "$D"; mkdir -p "$D"
for n in src Cargo.toml Cargo.lock benches build.rs; do [ -e /repo/$n ] && cp -r /repo/$n "$D/"; done
cd "$D" && (git apply --unsafe-paths --directory="$D" "$P" 2>/dev/null || patch -p1 -s -f -i "$P")
echo "applied $(basename $P) in $D"
