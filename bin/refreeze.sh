#!/bin/bash
# refreeze.sh: re-freeze the baseline (functions/closures of the confirmed tree) and prove that every check still passes
# with the new baseline (freezing turns helpers that used to be spliced into units, which can change what a rule sees).
cd /verif
python3 -m skvlint.inline --freeze || exit 1
rc=0
for P in $(python3 -c "import json;print(' '.join(c['property_id'] for c in json.load(open('MANIFEST.json'))['checks']))"); do
  ./check $P > /tmp/refreeze_$P.log 2>&1 || { echo "$P FAILS after refreeze:"; grep -E "^  !! " /tmp/refreeze_$P.log | cut -c1-200; rc=1; }
done
if [ $rc -eq 0 ]; then echo "refreeze: all checks pass"; else echo "refreeze: FAILED -- do not commit"; fi
exit $rc
