#!/bin/bash
# confirm_seed5.sh <Cxx> [HEAD]: like confirm_seed.sh for the round-5 worktrees /tmp/s5_Cxx, first moving the
# worktree to /repo's current HEAD so that the confirmation is against today's tree.
set -u
ID=$1; WT=/tmp/s5_$ID; OUT=$WT/OUT; mkdir -p /tmp/seedlogs; LOG=/tmp/seedlogs/s5_$ID.log
HEAD=$(git -C /repo rev-parse HEAD)
export CARGO_NET_OFFLINE=true CARGO_TARGET_DIR=$WT/target
cd $WT || exit 2
: > $LOG
git reset -q --hard; git clean -fdq src; git checkout -q --detach $HEAD || exit 2
P=$OUT/patch.diff; [ -f $OUT/patch.rebased.diff ] && P=$OUT/patch.rebased.diff
git apply --check $P 2>>$LOG || { echo "$ID patch does not apply" | tee -a $LOG; exit 1; }
git apply $OUT/demo.diff 2>>$LOG || { echo "$ID demo does not apply" | tee -a $LOG; exit 1; }
echo "== demo on pristine" >>$LOG
cargo test --offline --lib seeded_demo >>$LOG 2>&1; R1=$?
git apply $P
echo "== demo with patch" >>$LOG
cargo test --offline --lib seeded_demo >>$LOG 2>&1; R2=$?
echo "== suite with patch (demo skipped)" >>$LOG
cargo test --offline --lib -- --skip seeded_demo >>$LOG 2>&1; R3=$?
SUITE=$(grep -E "^test result" $LOG | tail -1)
if [ $R3 -ne 0 ]; then
  echo "== suite rerun" >>$LOG
  cargo test --offline --lib -- --skip seeded_demo >>$LOG 2>&1; R3=$?
  SUITE=$(grep -E "^test result" $LOG | tail -1)
fi
echo "$ID demo_pristine_exit=$R1 demo_patched_exit=$R2 suite_patched_exit=$R3 :: $SUITE" | tee -a $LOG
git reset -q --hard; git clean -fdq src
[ $R1 -eq 0 ] && [ $R2 -ne 0 ] && [ $R3 -eq 0 ]
