#!/bin/bash
# benignrun.sh [files...]: apply each behaviour-preserving patch to /repo, run every claimed check, report any
# violation that the unchanged tree does not have (= false alarm), undo the patch.
cd /verif
FILES="$@"; [ -z "$FILES" ] && FILES=$(ls benign/*.diff)
CLAIMED=$(python3 -c "import json;print(' '.join(c['property_id'] for c in json.load(open('MANIFEST.json'))['checks']))")
mkdir -p .cache/benignruns
git -C /repo diff --quiet || { echo "/repo has local changes; refusing" >&2; exit 2; }
for P in $CLAIMED; do ./check $P --no-evidence 2>/dev/null | grep -E "^  !! |^KNOWN-FINDING" | sed -E 's/^  !! ([^ ]+) .*/\1/; s/^KNOWN-FINDING: property=[A-Z0-9]+ ([^ ]+) .*/\1/' | sort -u > .cache/benignruns/base_$P.txt; done
for F in $FILES; do
  git -C /repo apply /verif/$F 2>/dev/null || { echo "$F: does not apply"; continue; }
  HIT=""
  for P in $CLAIMED; do
    ./check $P --no-evidence > .cache/benignruns/out.log 2>&1; RC=$?
    grep -E "^  !! |^KNOWN-FINDING" .cache/benignruns/out.log | sed -E 's/^  !! ([^ ]+) .*/\1/; s/^KNOWN-FINDING: property=[A-Z0-9]+ ([^ ]+) .*/\1/' | sort -u > .cache/benignruns/cur.keys
    NEW=$(comm -13 .cache/benignruns/base_$P.txt .cache/benignruns/cur.keys | tr '\n' ' ')
    [ -n "$NEW" ] && HIT="$HIT [$P: $NEW]"
    [ $RC -gt 1 ] && HIT="$HIT [$P: exit $RC]"
  done
  git -C /repo checkout -- .
  echo "$F => ${HIT:-silent}"
done
