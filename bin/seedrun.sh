#!/bin/bash
# seedrun.sh [Cxx ...]: for each seeded change apply it to /repo, run every claimed check, record which
# rules raise NEW violations compared with the unchanged tree, and undo the change.
cd /verif
IDS="$@"; [ -z "$IDS" ] && IDS=$(ls seeded)
CLAIMED=$(python3 -c "import json;print(' '.join(c['property_id'] for c in json.load(open('MANIFEST.json'))['checks']))")
mkdir -p .cache/seedruns
# baseline keys
git -C /repo diff --quiet || { echo "/repo has local changes; refusing" >&2; exit 2; }
for P in $CLAIMED; do ./check $P --no-evidence 2>/dev/null | grep -E "^  !! |^KNOWN-FINDING" | sed -E 's/^  !! ([^ ]+) .*/\1/; s/^KNOWN-FINDING: property=[A-Z0-9]+ ([^ ]+) .*/\1/' | sort -u > .cache/seedruns/base_$P.txt; done
for S in $IDS; do
  git -C /repo apply /verif/seeded/$S/patch.diff || { echo "$S: patch does not apply"; continue; }
  HIT=""
  for P in $CLAIMED; do
    ./check $P --no-evidence > .cache/seedruns/${S}_$P.log 2>&1
    grep -E "^  !! " .cache/seedruns/${S}_$P.log | sed -E 's/^  !! ([^ ]+) .*/\1/' | sort -u > .cache/seedruns/${S}_$P.keys
    NEW=$(comm -13 .cache/seedruns/base_$P.txt .cache/seedruns/${S}_$P.keys | tr '\n' ' ')
    [ -n "$NEW" ] && HIT="$HIT [$P: $NEW]"
  done
  git -C /repo checkout -- .
  echo "$S => ${HIT:-MISSED}"
done
