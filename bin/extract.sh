#!/bin/bash
# usage: extract.sh <repo-dir> <out-facts.json> [target-dir]
# Runs the skv-facts driver over <repo-dir>'s lib crate. Dependencies are cached in the
# target dir; the leaf crate's fingerprints are removed first so cargo cannot skip the wrapper.
set -euo pipefail
REPO="$1"; OUT="$2"; TGT="${3:-/verif/.cache/target}"
DRV=/verif/driver/target/debug/skv-facts
[ -x "$DRV" ] || { echo "driver not built: run setup" >&2; exit 2; }
mkdir -p "$TGT" "$(dirname "$OUT")"
rm -f "$OUT"
CR="${SKV_FACTS_CRATE:-surrealkv}"
rm -rf "$TGT"/debug/.fingerprint/${CR}-* "$TGT"/debug/deps/lib${CR}-* "$TGT"/debug/deps/${CR}-* 2>/dev/null || true
SYSROOT=$(rustc +nightly --print sysroot)
cd "$REPO"
LD_LIBRARY_PATH="$SYSROOT/lib" CARGO_NET_OFFLINE=true \
RUSTFLAGS="-Zmir-opt-level=0 -Awarnings ${SKV_EXTRA_RUSTFLAGS:-}" \
RUSTC_WORKSPACE_WRAPPER="$DRV" SKV_FACTS_OUT="$OUT" CARGO_TARGET_DIR="$TGT" \
cargo +nightly check --offline --lib -q 2>"$OUT.log" || { cat "$OUT.log" >&2; echo "extract: cargo check failed" >&2; exit 3; }
[ -s "$OUT" ] || { cat "$OUT.log" >&2; echo "extract: no facts written" >&2; exit 4; }
