#!/usr/bin/env python3
"""corpusrun.py [--seeds] [--benign] [-j N] [names...]
Applies every seeded change (must raise a NEW violation) and every behaviour-preserving refactor (must raise none) to a
scratch copy of /repo's current tree (outside /repo and /verif, removed afterwards) and runs ALL properties' rules on it in
one process.  N workers, each with its own cargo target dir under /verif/.cache (dependencies are built once per worker).
/repo itself is never touched."""
import glob
import json
import os
import shutil
import subprocess
import sys
import tempfile
from concurrent.futures import ProcessPoolExecutor

VERIF = os.path.dirname(os.path.dirname(os.path.abspath(__file__)))
sys.path.insert(0, VERIF)
REPO = "/repo"
PROPS = ["C%02d" % i for i in range(1, 20)]


def keys_for(repo, worker):
    os.environ["SKV_TARGET_DIR"] = os.path.join(VERIF, ".cache", "target-w%d" % worker)
    from skvlint.runner import get_facts, run_property
    f, _ = get_facts(repo, verbose=False)
    res = {}
    for p in PROPS:
        _, ctxs = run_property(p, "quick", f, {})
        res[p] = sorted({v.key for cx in ctxs for v in cx.violations})
    return res


def work(args):
    kind, name, patch, worker = args
    tmp = tempfile.mkdtemp(prefix="skv-corpus-")
    try:
        for n in ("src", "Cargo.toml", "Cargo.lock", "benches", "build.rs"):
            sp = os.path.join(REPO, n)
            if os.path.isdir(sp):
                shutil.copytree(sp, os.path.join(tmp, n))
            elif os.path.exists(sp):
                shutil.copy(sp, os.path.join(tmp, n))
        if patch:
            r = subprocess.run(["git", "apply", "--unsafe-paths", "--directory=" + tmp, patch], cwd="/", stdout=subprocess.PIPE, stderr=subprocess.STDOUT, text=True)
            if r.returncode != 0:
                r = subprocess.run(["patch", "-p1", "-s", "-f", "-i", patch], cwd=tmp, stdout=subprocess.PIPE, stderr=subprocess.STDOUT, text=True)
                if r.returncode != 0:
                    return kind, name, "does not apply", {}
        try:
            return kind, name, "ok", keys_for(tmp, worker)
        except SystemExit as e:
            return kind, name, "extraction failed: %s" % e, {}
    finally:
        shutil.rmtree(tmp, ignore_errors=True)


def main():
    a = sys.argv[1:]
    j = 8
    if "-j" in a:
        j = int(a[a.index("-j") + 1])
        del a[a.index("-j"):a.index("-j") + 2]
    do_seeds = "--seeds" in a or "--benign" not in a
    do_benign = "--benign" in a or "--seeds" not in a
    names = [x for x in a if not x.startswith("--")]
    jobs = []
    if do_seeds:
        for d in sorted(glob.glob(os.path.join(VERIF, "seeded", "*"))):
            n = os.path.basename(d)
            if names and n not in names:
                continue
            jobs.append(("seed", n, os.path.join(d, "patch.diff")))
    if do_seeds:
        # my own one-line mutants that guard a rule no agent-made seed exercises (no demo; must raise a new violation)
        for pth in sorted(glob.glob(os.path.join(VERIF, "mutants", "*.diff"))):
            n = os.path.basename(pth)
            if names and n not in names and n[:-5] not in names:
                continue
            jobs.append(("seed", n, pth))
    if do_benign:
        for pth in sorted(glob.glob(os.path.join(VERIF, "benign", "*.diff"))):
            n = os.path.basename(pth)
            if names and n not in names and n[:-5] not in names:
                continue
            jobs.append(("benign", n, pth))
    base = work(("base", "base", None, 0))[3]
    # the unchanged tree itself must be clean: only listed known findings may appear
    known = {k["key"] for k in json.load(open(os.path.join(VERIF, "known_findings.json")))["findings"] if k.get("status") == "known"}
    dirty = {p: [k for k in ks if k not in known] for p, ks in base.items()}
    dirty = {p: ks for p, ks in dirty.items() if ks}
    if dirty:
        print("BASE TREE NOT CLEAN: %s" % dirty)
        return 2
    jobs = [(k, n, p, 1 + i % j) for i, (k, n, p) in enumerate(jobs)]
    bad = 0
    with ProcessPoolExecutor(max_workers=j) as ex:
        for kind, name, status, res in ex.map(work, jobs):
            if status != "ok":
                print("%-6s %-12s %s" % (kind, name, status))
                bad += 1
                continue
            new = {p: sorted(set(ks) - set(base.get(p, []))) for p, ks in res.items()}
            new = {p: ks for p, ks in new.items() if ks}
            if kind == "seed":
                if new:
                    print("seed   %-12s caught: %s" % (name, "; ".join("%s: %s" % (p, " ".join(ks[:3])) for p, ks in sorted(new.items()))))
                else:
                    print("seed   %-12s MISSED" % name)
                    bad += 1
            else:
                if new:
                    print("benign %-12s FALSE ALARM: %s" % (name, "; ".join("%s: %s" % (p, " ".join(ks[:3])) for p, ks in sorted(new.items()))))
                    bad += 1
                else:
                    print("benign %-12s silent" % name)
            sys.stdout.flush()
    print("corpus: %d job(s), %d problem(s)" % (len(jobs), bad))
    return 1 if bad else 0


if __name__ == "__main__":
    sys.exit(main())
