// skv-facts: rustc_private driver that dumps MIR-level facts of the `surrealkv` lib crate
// as one JSON file (single write), for the Python rule engine in /verif/skvlint.
//
// Invoked as RUSTC_WORKSPACE_WRAPPER: argv = [self, "rustc", <rustc args...>].
// Facts are taken from `tcx.mir_built` inside `after_expansion` (later MIR stages are
// already stolen for coroutine bodies by the time `after_analysis` runs).
#![feature(rustc_private)]
#![feature(box_patterns)]

extern crate rustc_abi;
extern crate rustc_driver;
extern crate rustc_hir;
extern crate rustc_interface;
extern crate rustc_middle;
extern crate rustc_span;

use std::fmt::Write as _;

use rustc_driver::{run_compiler, Callbacks, Compilation};
use rustc_hir::def::DefKind;
use rustc_hir::def_id::{DefId, LocalDefId, LOCAL_CRATE};
use rustc_middle::mir::{
	self, AggregateKind, BasicBlock, Body, Const, Operand, Place, ProjectionElem, Rvalue,
	StatementKind, TerminatorKind, UnwindAction,
};
use rustc_middle::ty::print::with_no_trimmed_paths;
use rustc_middle::ty::{self, Instance, Ty, TyCtxt, TypingEnv};
use rustc_span::Span;

struct Plain;
impl Callbacks for Plain {}

struct Extract {
	out: String,
}

fn esc(s: &str) -> String {
	let mut o = String::with_capacity(s.len() + 2);
	o.push('"');
	for c in s.chars() {
		match c {
			'"' => o.push_str("\\\""),
			'\\' => o.push_str("\\\\"),
			'\n' => o.push_str("\\n"),
			'\r' => o.push_str("\\r"),
			'\t' => o.push_str("\\t"),
			c if (c as u32) < 0x20 => {
				let _ = write!(o, "\\u{:04x}", c as u32);
			}
			c => o.push(c),
		}
	}
	o.push('"');
	o
}

fn join(v: &[String]) -> String {
	let mut o = String::from("[");
	for (i, s) in v.iter().enumerate() {
		if i > 0 {
			o.push(',');
		}
		o.push_str(s);
	}
	o.push(']');
	o
}

struct Cx<'tcx> {
	tcx: TyCtxt<'tcx>,
}

impl<'tcx> Cx<'tcx> {
	fn path(&self, d: DefId) -> String {
		with_no_trimmed_paths!(self.tcx.def_path_str(d))
	}
	fn ty(&self, t: Ty<'tcx>) -> String {
		with_no_trimmed_paths!(format!("{}", t))
	}
	fn loc(&self, sp: Span) -> (String, usize) {
		let sm = self.tcx.sess.source_map();
		let sp = sp.source_callsite();
		let lo = sm.lookup_char_pos(sp.lo());
		let name = with_no_trimmed_paths!(format!("{}", lo.file.name.prefer_local_unconditionally()));
		(name, lo.line)
	}
	fn line(&self, sp: Span) -> usize {
		self.loc(sp).1
	}

	fn place(&self, body: &Body<'tcx>, p: Place<'tcx>) -> String {
		let mut v = vec![format!("{}", p.local.as_usize())];
		for (base, elem) in p.iter_projections() {
			match elem {
				ProjectionElem::Deref => v.push("\"*\"".into()),
				ProjectionElem::Field(f, _) => {
					let bt = base.ty(&body.local_decls, self.tcx);
					let mut name = String::new();
					let mut owner = String::new();
					if let ty::Adt(adt, _) = bt.ty.kind() {
						let vi = bt.variant_index.unwrap_or(rustc_abi::FIRST_VARIANT);
						if adt.is_enum() || adt.is_struct() || adt.is_union() {
							if let Some(var) = adt.variants().get(vi) {
								if let Some(fd) = var.fields.get(f) {
									name = fd.name.to_string();
								}
							}
							owner = self.path(adt.did());
						}
					}
					v.push(format!("[\"f\",{},{},{}]", f.as_usize(), esc(&name), esc(&owner)));
				}
				ProjectionElem::Index(l) => v.push(format!("[\"i\",{}]", l.as_usize())),
				ProjectionElem::ConstantIndex { offset, from_end, .. } => {
					v.push(format!("[\"ci\",{},{}]", offset, from_end))
				}
				ProjectionElem::Subslice { .. } => v.push("\"sub\"".into()),
				ProjectionElem::Downcast(name, vi) => {
					let n = name.map(|s| s.to_string()).unwrap_or_default();
					v.push(format!("[\"v\",{},{}]", esc(&n), vi.as_usize()))
				}
				ProjectionElem::OpaqueCast(_) => v.push("\"oc\"".into()),
				ProjectionElem::UnwrapUnsafeBinder(_) => v.push("\"ub\"".into()),
			}
		}
		join(&v)
	}

	/// local `Drop` impls that dropping a value of type `t` may run (ownership walk)
	fn drop_impls(&self, t: Ty<'tcx>, seen: &mut Vec<Ty<'tcx>>, out: &mut Vec<String>, depth: usize) {
		if depth > 8 || seen.contains(&t) {
			return;
		}
		seen.push(t);
		let tcx = self.tcx;
		match t.kind() {
			ty::Adt(adt, args) => {
				if let Some(d) = tcx.adt_destructor(adt.did()) {
					if d.did.is_local() {
						let p = self.path(d.did);
						if !out.contains(&p) {
							out.push(p);
						}
					}
				}
				if adt.did().is_local() {
					for var in adt.variants().iter() {
						for f in var.fields.iter() {
							let ft = f.ty(tcx, args);
							self.drop_impls(ft, seen, out, depth + 1);
						}
					}
				} else if !adt.is_manually_drop() {
					for a in args.iter() {
						if let Some(at) = a.as_type() {
							self.drop_impls(at, seen, out, depth + 1);
						}
					}
				}
			}
			ty::Tuple(ts) => {
				for e in ts.iter() {
					self.drop_impls(e, seen, out, depth + 1);
				}
			}
			ty::Array(e, _) | ty::Slice(e) => self.drop_impls(*e, seen, out, depth + 1),
			ty::Closure(_, args) => {
				for e in args.as_closure().upvar_tys().iter() {
					self.drop_impls(e, seen, out, depth + 1);
				}
			}
			_ => {}
		}
	}

	fn callee(&self, owner: LocalDefId, d: DefId, args: ty::GenericArgsRef<'tcx>) -> String {
		let tcx = self.tcx;
		let mut o = String::from("{");
		let _ = write!(o, "\"p\":{}", esc(&self.path(d)));
		let wa = with_no_trimmed_paths!(tcx.def_path_str_with_args(d, args));
		let _ = write!(o, ",\"a\":{}", esc(&wa));
		let _ = write!(o, ",\"local\":{}", d.is_local());
		let mut trait_did = None;
		if let Some(ai) = tcx.opt_associated_item(d) {
			if let Some(tr) = ai.trait_container(tcx) {
				trait_did = Some(tr);
				let _ = write!(o, ",\"trait\":{}", esc(&self.path(tr)));
				if !args.is_empty() {
					if let Some(st) = args.get(0).and_then(|a| a.as_type()) {
						let _ = write!(o, ",\"self\":{}", esc(&self.ty(st)));
						if let ty::Dynamic(..) = st.kind() {
							o.push_str(",\"dyn\":true");
						}
					}
				}
			} else if let Some(imp) = ai.impl_container(tcx) {
				let st = tcx.type_of(imp).instantiate_identity().skip_norm_wip();
				let _ = write!(o, ",\"self\":{}", esc(&self.ty(st)));
			}
		}
		// resolution
		let env = TypingEnv::post_analysis(tcx, owner.to_def_id());
		let resolved = std::panic::catch_unwind(std::panic::AssertUnwindSafe(|| {
			Instance::try_resolve(tcx, env, d, args)
		}));
		match resolved {
			Ok(Ok(Some(inst))) => {
				let rd = inst.def_id();
				if rd != d {
					let _ = write!(o, ",\"r\":{}", esc(&self.path(rd)));
					let _ = write!(o, ",\"rlocal\":{}", rd.is_local());
				}
				let kind = match inst.def {
					ty::InstanceKind::Item(_) => "item",
					ty::InstanceKind::Virtual(..) => "virtual",
					ty::InstanceKind::Intrinsic(_) => "intrinsic",
					ty::InstanceKind::ClosureOnceShim { .. } => "closure_once",
					ty::InstanceKind::FnPtrShim(..) => "fnptr",
					ty::InstanceKind::DropGlue(..) => "dropglue",
					ty::InstanceKind::CloneShim(..) => "cloneshim",
					_ => "other",
				};
				let _ = write!(o, ",\"rk\":{}", esc(kind));
			}
			Ok(Ok(None)) => {
				if trait_did.is_some() {
					o.push_str(",\"unres\":true");
				}
			}
			_ => {
				o.push_str(",\"unres\":true");
			}
		}
		o.push('}');
		o
	}

	fn operand(&self, owner: LocalDefId, body: &Body<'tcx>, op: &Operand<'tcx>) -> String {
		match op {
			Operand::Copy(p) => format!("[\"c\",{}]", self.place(body, *p)),
			Operand::Move(p) => format!("[\"m\",{}]", self.place(body, *p)),
			Operand::Constant(box c) => {
				let t = c.const_.ty();
				let mut o = String::from("[\"k\",{");
				let _ = write!(o, "\"ty\":{}", esc(&self.ty(t)));
				match t.kind() {
					ty::FnDef(d, args) => {
						let _ = write!(o, ",\"fn\":{}", self.callee(owner, *d, args));
					}
					_ => {}
				}
				match c.const_ {
					Const::Val(..) | Const::Ty(..) => {
						if let Const::Val(val, _) = c.const_ {
							if matches!(t.kind(), ty::Ref(_, inner, _) if inner.is_str()) {
								if let Some(bytes) = val.try_get_slice_bytes_for_diagnostics(self.tcx) {
									if bytes.len() <= 64 {
										if let Ok(st) = std::str::from_utf8(bytes) {
											let _ = write!(o, ",\"s\":{}", esc(st));
										}
									}
								}
							}
						}
						let env = TypingEnv::post_analysis(self.tcx, owner.to_def_id());
						if t.is_integral() || t.is_bool() || t.is_char() {
							if let Some(si) = c.const_.try_eval_scalar_int(self.tcx, env) {
								let bits = si.to_bits_unchecked();
								let v: i128 = if t.is_signed() {
									si.to_int(si.size())
								} else {
									bits as i128
								};
								let _ = write!(o, ",\"v\":{}", esc(&v.to_string()));
							}
						}
					}
					Const::Unevaluated(u, _) => {
						let _ = write!(o, ",\"cdef\":{}", esc(&self.path(u.def)));
						if u.promoted.is_some() {
							o.push_str(",\"promoted\":true");
						}
					}
				}
				o.push_str("}]");
				o
			}
			#[allow(unreachable_patterns)]
			_ => "[\"rt\"]".to_string(),
		}
	}

	fn rvalue(&self, owner: LocalDefId, body: &Body<'tcx>, rv: &Rvalue<'tcx>) -> String {
		match rv {
			Rvalue::Use(op, ..) => format!("[\"use\",{}]", self.operand(owner, body, op)),
			Rvalue::Repeat(op, _) => format!("[\"repeat\",{}]", self.operand(owner, body, op)),
			Rvalue::Ref(_, bk, p) => {
				let m = matches!(bk, mir::BorrowKind::Mut { .. });
				format!("[\"ref\",{},{}]", m, self.place(body, *p))
			}
			Rvalue::ThreadLocalRef(d) => format!("[\"tls\",{}]", esc(&self.path(*d))),
			Rvalue::RawPtr(_, p) => format!("[\"ptr\",{}]", self.place(body, *p)),
			Rvalue::Cast(k, op, t) => format!(
				"[\"cast\",{},{},{}]",
				esc(&format!("{:?}", k)),
				self.operand(owner, body, op),
				esc(&self.ty(*t))
			),
			Rvalue::BinaryOp(op, box (a, b)) => format!(
				"[\"bin\",{},{},{}]",
				esc(&format!("{:?}", op)),
				self.operand(owner, body, a),
				self.operand(owner, body, b)
			),
			Rvalue::UnaryOp(op, a) => {
				format!("[\"un\",{},{}]", esc(&format!("{:?}", op)), self.operand(owner, body, a))
			}
			Rvalue::Discriminant(p) => format!("[\"discr\",{}]", self.place(body, *p)),
			Rvalue::Aggregate(box k, ops) => {
				let opsj: Vec<String> = ops.iter().map(|o| self.operand(owner, body, o)).collect();
				let (kind, extra) = match k {
					AggregateKind::Array(_) => ("array", String::from("null")),
					AggregateKind::Tuple => ("tuple", String::from("null")),
					AggregateKind::Adt(d, vi, _, _, active) => {
						let adt = self.tcx.adt_def(*d);
						let var = adt.variant(*vi);
						let names: Vec<String> = match active {
							Some(f) => vec![esc(&var.fields[*f].name.to_string())],
							None => var.fields.iter().map(|f| esc(&f.name.to_string())).collect(),
						};
						(
							"adt",
							format!(
								"{{\"adt\":{},\"variant\":{},\"vi\":{},\"fields\":{}}}",
								esc(&self.path(*d)),
								esc(&var.name.to_string()),
								vi.as_usize(),
								join(&names)
							),
						)
					}
					AggregateKind::Closure(d, _) => ("closure", format!("{{\"def\":{}}}", esc(&self.path(*d)))),
					AggregateKind::Coroutine(d, _) => {
						("coroutine", format!("{{\"def\":{}}}", esc(&self.path(*d))))
					}
					AggregateKind::CoroutineClosure(d, _) => {
						("coroutine_closure", format!("{{\"def\":{}}}", esc(&self.path(*d))))
					}
					AggregateKind::RawPtr(..) => ("rawptr", String::from("null")),
				};
				format!("[\"agg\",{},{},{}]", esc(kind), join(&opsj), extra)
			}
			Rvalue::CopyForDeref(p) => format!("[\"cfd\",{}]", self.place(body, *p)),
			Rvalue::WrapUnsafeBinder(op, _) => format!("[\"use\",{}]", self.operand(owner, body, op)),
			#[allow(unreachable_patterns)]
			_ => "[\"other\"]".to_string(),
		}
	}

	fn bb(b: BasicBlock) -> usize {
		b.as_usize()
	}
	fn unwind(u: &UnwindAction) -> String {
		match u {
			UnwindAction::Cleanup(b) => format!("{}", b.as_usize()),
			_ => "null".into(),
		}
	}

	fn body(&self, def: LocalDefId, body: &Body<'tcx>) -> String {
		let tcx = self.tcx;
		let did = def.to_def_id();
		let kind = tcx.def_kind(did);
		let mut o = String::from("{");
		let _ = write!(o, "\"id\":{}", esc(&self.path(did)));
		let kstr = match kind {
			DefKind::Fn => "fn",
			DefKind::AssocFn => "method",
			DefKind::Closure => {
				if tcx.is_coroutine(did) {
					"coroutine"
				} else {
					"closure"
				}
			}
			DefKind::Const { .. } | DefKind::AssocConst { .. } | DefKind::AnonConst | DefKind::InlineConst => "const",
			DefKind::Static { .. } => "static",
			_ => "other",
		};
		let _ = write!(o, ",\"kind\":{}", esc(kstr));
		if matches!(kind, DefKind::Closure | DefKind::InlineConst | DefKind::AnonConst) {
			let parent = tcx.typeck_root_def_id(did);
			let _ = write!(o, ",\"root\":{}", esc(&self.path(parent)));
			let p = tcx.parent(did);
			let _ = write!(o, ",\"parent\":{}", esc(&self.path(p)));
		}
		if matches!(kind, DefKind::Fn | DefKind::AssocFn) {
			let vis = tcx.visibility(did);
			let _ = write!(o, ",\"pub\":{}", vis.is_public());
			if let ty::Visibility::Restricted(r) = vis {
				let pm = tcx.parent_module_from_def_id(def).to_def_id();
				let _ = write!(o, ",\"priv\":{}", r == pm && !pm.is_crate_root());
			}
			let _ = write!(o, ",\"async\":{}", tcx.asyncness(did).is_async());
			if let Some(ai) = tcx.opt_associated_item(did) {
				if let Some(imp) = ai.impl_container(tcx) {
					let st = tcx.type_of(imp).instantiate_identity().skip_norm_wip();
					let _ = write!(o, ",\"self_ty\":{}", esc(&self.ty(st)));
					if let Some(tr) = tcx.impl_opt_trait_ref(imp) {
						let tr = tr.instantiate_identity().skip_norm_wip();
						let _ = write!(o, ",\"impl_trait\":{}", esc(&self.path(tr.def_id)));
					}
				}
				if let Some(tr) = ai.trait_container(tcx) {
					let _ = write!(o, ",\"in_trait\":{}", esc(&self.path(tr)));
				}
				let _ = write!(o, ",\"name\":{}", esc(&ai.name().to_string()));
			} else {
				let _ = write!(o, ",\"name\":{}", esc(&tcx.item_name(did).to_string()));
			}
		}
		let (file, line) = self.loc(body.span);
		let _ = write!(o, ",\"file\":{},\"line\":{}", esc(&file), line);
		let _ = write!(o, ",\"argc\":{}", body.arg_count);
		// locals
		let mut names: Vec<Option<String>> = vec![None; body.local_decls.len()];
		for vdi in &body.var_debug_info {
			if let mir::VarDebugInfoContents::Place(p) = vdi.value {
				if p.projection.is_empty() {
					names[p.local.as_usize()] = Some(vdi.name.to_string());
				}
			}
		}
		let mut locals = Vec::new();
		for (l, decl) in body.local_decls.iter_enumerated() {
			let n = match &names[l.as_usize()] {
				Some(n) => esc(n),
				None => "null".into(),
			};
			locals.push(format!("[{},{}]", esc(&self.ty(decl.ty)), n));
		}
		let _ = write!(o, ",\"locals\":{}", join(&locals));
		// upvar names for closures (debug info with projections off _1)
		let mut upv = Vec::new();
		for vdi in &body.var_debug_info {
			if let mir::VarDebugInfoContents::Place(p) = vdi.value {
				if !p.projection.is_empty() && p.local.as_usize() == 1 {
					upv.push(format!("[{},{}]", esc(&vdi.name.to_string()), self.place(body, p)));
				}
			}
		}
		if !upv.is_empty() {
			let _ = write!(o, ",\"upvars\":{}", join(&upv));
		}
		// blocks
		let mut blocks = Vec::new();
		for (_bb, data) in body.basic_blocks.iter_enumerated() {
			let mut stmts = Vec::new();
			for st in &data.statements {
				match &st.kind {
					StatementKind::Assign(box (p, rv)) => {
						stmts.push(format!(
							"[\"=\",{},{},{}]",
							self.place(body, *p),
							self.rvalue(def, body, rv),
							self.line(st.source_info.span)
						));
					}
					StatementKind::SetDiscriminant { place, variant_index } => {
						stmts.push(format!(
							"[\"setdiscr\",{},{}]",
							self.place(body, **place),
							variant_index.as_usize()
						));
					}
					StatementKind::StorageDead(l) => {
						stmts.push(format!("[\"dead\",{}]", l.as_usize()));
					}
					_ => {}
				}
			}
			let term = data.terminator();
			let tline = self.line(term.source_info.span);
			let exp = term.source_info.span.from_expansion();
			let t = match &term.kind {
				TerminatorKind::Goto { target } => format!("[\"goto\",{}]", Self::bb(*target)),
				TerminatorKind::SwitchInt { discr, targets } => {
					let mut ts = Vec::new();
					for (v, b) in targets.iter() {
						ts.push(format!("[{},{}]", esc(&v.to_string()), Self::bb(b)));
					}
					format!(
						"[\"switch\",{},{},{}]",
						self.operand(def, body, discr),
						join(&ts),
						Self::bb(targets.otherwise())
					)
				}
				TerminatorKind::UnwindResume => "[\"resume\"]".into(),
				TerminatorKind::UnwindTerminate(_) => "[\"terminate\"]".into(),
				TerminatorKind::Return => "[\"ret\"]".into(),
				TerminatorKind::Unreachable => "[\"unreachable\"]".into(),
				TerminatorKind::Drop { place, target, unwind, .. } => {
					let t = place.ty(&body.local_decls, tcx).ty;
					let mut di = Vec::new();
					self.drop_impls(t, &mut Vec::new(), &mut di, 0);
					let di: Vec<String> = di.iter().map(|s| esc(s)).collect();
					format!(
						"[\"drop\",{},{},{},{},{}]",
						self.place(body, *place),
						esc(&self.ty(t)),
						Self::bb(*target),
						Self::unwind(unwind),
						join(&di)
					)
				}
				TerminatorKind::Call { func, args, destination, target, unwind, .. } => {
					let f = match func {
						Operand::Constant(box c) => match c.const_.ty().kind() {
							ty::FnDef(d, ga) => self.callee(def, *d, ga),
							_ => format!("{{\"ind\":{}}}", self.operand(def, body, func)),
						},
						_ => format!("{{\"ind\":{}}}", self.operand(def, body, func)),
					};
					let a: Vec<String> = args.iter().map(|a| self.operand(def, body, &a.node)).collect();
					let tg = match target {
						Some(b) => format!("{}", Self::bb(*b)),
						None => "null".into(),
					};
					let dt = destination.ty(&body.local_decls, tcx).ty;
					format!(
						"[\"call\",{},{},{},{},{},{}]",
						f,
						join(&a),
						self.place(body, *destination),
						tg,
						Self::unwind(unwind),
						esc(&self.ty(dt))
					)
				}
				TerminatorKind::TailCall { .. } => "[\"tailcall\"]".into(),
				TerminatorKind::Assert { cond, expected, target, msg, .. } => {
					let m = format!("{:?}", msg);
					let mk = m.split(|c: char| !c.is_alphanumeric()).next().unwrap_or("").to_string();
					format!(
						"[\"assert\",{},{},{},{}]",
						self.operand(def, body, cond),
						expected,
						Self::bb(*target),
						esc(&mk)
					)
				}
				TerminatorKind::Yield { value, resume, drop, .. } => {
					let d = match drop {
						Some(b) => format!("{}", Self::bb(*b)),
						None => "null".into(),
					};
					format!(
						"[\"yield\",{},{},{}]",
						self.operand(def, body, value),
						Self::bb(*resume),
						d
					)
				}
				TerminatorKind::CoroutineDrop => "[\"codrop\"]".into(),
				TerminatorKind::FalseEdge { real_target, imaginary_target } => {
					format!("[\"falseedge\",{},{}]", Self::bb(*real_target), Self::bb(*imaginary_target))
				}
				TerminatorKind::FalseUnwind { real_target, .. } => {
					format!("[\"falseunwind\",{}]", Self::bb(*real_target))
				}
				TerminatorKind::InlineAsm { .. } => "[\"asm\"]".into(),
			};
			blocks.push(format!(
				"{{\"c\":{},\"s\":{},\"t\":{},\"l\":{},\"x\":{}}}",
				data.is_cleanup,
				join(&stmts),
				t,
				tline,
				exp
			));
		}
		let _ = write!(o, ",\"blocks\":{}", join(&blocks));
		o.push('}');
		o
	}

	fn tables(&self) -> String {
		let tcx = self.tcx;
		let mut o = String::new();
		// ADTs
		let mut adts = Vec::new();
		let mut consts = Vec::new();
		let mut fns = Vec::new();
		for id in tcx.hir_crate_items(()).definitions() {
			let did = id.to_def_id();
			match tcx.def_kind(did) {
				DefKind::Struct | DefKind::Enum | DefKind::Union => {
					let adt = tcx.adt_def(did);
					let mut vars = Vec::new();
					for (vi, var) in adt.variants().iter_enumerated() {
						let mut fields = Vec::new();
						for f in var.fields.iter() {
							let ft = tcx.type_of(f.did).instantiate_identity().skip_norm_wip();
							fields.push(format!(
								"[{},{},{}]",
								esc(&f.name.to_string()),
								esc(&self.ty(ft)),
								f.vis.is_public()
							));
						}
						let dv = if adt.is_enum() {
							let d = adt.discriminant_for_variant(tcx, vi);
							esc(&d.val.to_string())
						} else {
							"null".into()
						};
						vars.push(format!(
							"{{\"name\":{},\"discr\":{},\"fields\":{}}}",
							esc(&var.name.to_string()),
							dv,
							join(&fields)
						));
					}
					let (file, line) = self.loc(tcx.def_span(did));
					adts.push(format!(
						"{{\"path\":{},\"kind\":{},\"pub\":{},\"file\":{},\"line\":{},\"variants\":{}}}",
						esc(&self.path(did)),
						esc(if adt.is_enum() {
							"enum"
						} else if adt.is_struct() {
							"struct"
						} else {
							"union"
						}),
						tcx.visibility(did).is_public(),
						esc(&file),
						line,
						join(&vars)
					));
				}
				DefKind::Const { .. } | DefKind::AssocConst { .. } => {
					let t = tcx.type_of(did).instantiate_identity().skip_norm_wip();
					let mut val = String::from("null");
					if (t.is_integral() || t.is_bool()) && tcx.generics_of(did).is_empty() {
						let env = TypingEnv::post_analysis(tcx, did);
						let r = std::panic::catch_unwind(std::panic::AssertUnwindSafe(|| {
							tcx.const_eval_poly(did)
						}));
						if let Ok(Ok(cv)) = r {
							if let Some(si) = cv.try_to_scalar_int() {
								let v: i128 = if t.is_signed() {
									si.to_int(si.size())
								} else {
									si.to_bits_unchecked() as i128
								};
								val = esc(&v.to_string());
							}
						}
						let _ = env;
					}
					consts.push(format!(
						"{{\"path\":{},\"ty\":{},\"v\":{}}}",
						esc(&self.path(did)),
						esc(&self.ty(t)),
						val
					));
				}
				DefKind::Fn | DefKind::AssocFn => {
					// signature table (also for trait method declarations without body)
					let sig = tcx.fn_sig(did).instantiate_identity().skip_norm_wip().skip_binder();
					let ins: Vec<String> = sig.inputs().iter().map(|t| esc(&self.ty(*t))).collect();
					let (file, line) = self.loc(tcx.def_span(did));
					fns.push(format!(
						"{{\"path\":{},\"pub\":{},\"inputs\":{},\"output\":{},\"file\":{},\"line\":{}}}",
						esc(&self.path(did)),
						tcx.visibility(did).is_public(),
						join(&ins),
						esc(&self.ty(sig.output())),
						esc(&file),
						line
					));
				}
				_ => {}
			}
		}
		let _ = write!(o, "\"adts\":{}", join(&adts));
		let _ = write!(o, ",\"consts\":{}", join(&consts));
		let _ = write!(o, ",\"fns\":{}", join(&fns));
		// trait impls
		let mut impls = Vec::new();
		for (tr, imps) in tcx.all_local_trait_impls(()).iter() {
			for imp in imps {
				let impd = imp.to_def_id();
				let st = tcx.type_of(impd).instantiate_identity().skip_norm_wip();
				let mut items = Vec::new();
				for ai in tcx.associated_items(impd).in_definition_order() {
					if let Some(trait_item) = ai.trait_item_def_id() {
						items.push(format!("[{},{}]", esc(&self.path(trait_item)), esc(&self.path(ai.def_id))));
					}
				}
				items.sort();
				impls.push(format!(
					"{{\"trait\":{},\"self\":{},\"items\":{}}}",
					esc(&self.path(*tr)),
					esc(&self.ty(st)),
					join(&items)
				));
			}
		}
		impls.sort();
		let _ = write!(o, ",\"impls\":{}", join(&impls));
		o
	}
}

impl Callbacks for Extract {
	fn after_expansion<'tcx>(
		&mut self,
		_c: &rustc_interface::interface::Compiler,
		tcx: TyCtxt<'tcx>,
	) -> Compilation {
		let cx = Cx { tcx };
		let mut bodies = Vec::new();
		let mut skipped = Vec::new();
		let owners: Vec<LocalDefId> = tcx.hir_body_owners().collect();
		// pass 0: clone every function-like body before any other query can steal it
		// (revealing an `impl Trait` return type borrow-checks its defining fn, which
		// steals that fn's mir_built; such bodies are taken from mir_promoted instead).
		let mut cloned: Vec<(LocalDefId, Body<'tcx>, &'static str)> = Vec::new();
		for &def in &owners {
			let kind = tcx.def_kind(def.to_def_id());
			if !matches!(kind, DefKind::Fn | DefKind::AssocFn | DefKind::Closure) {
				continue;
			}
			let steal = tcx.mir_built(def);
			if !steal.is_stolen() {
				cloned.push((def, steal.borrow().clone(), "built"));
				continue;
			}
			let (p, _) = tcx.mir_promoted(def);
			if !p.is_stolen() {
				cloned.push((def, p.borrow().clone(), "promoted"));
			} else {
				skipped.push(esc(&cx.path(def.to_def_id())));
			}
		}
		let mut n_promoted = 0usize;
		for (def, b, stage) in &cloned {
			if *stage == "promoted" {
				n_promoted += 1;
			}
			bodies.push(cx.body(*def, b));
		}
		let tables = cx.tables();
		let crate_name = tcx.crate_name(LOCAL_CRATE).to_string();
		let mut out = String::new();
		let _ = write!(
			out,
			"{{\"crate\":{},\"n_promoted\":{},\"n_owners\":{},\"skipped\":{},\"bodies\":{},{}}}",
			esc(&crate_name),
			n_promoted,
			owners.len(),
			join(&skipped),
			join(&bodies),
			tables
		);
		std::fs::write(&self.out, out).expect("write facts");
		Compilation::Continue
	}
}

fn main() {
	let mut args: Vec<String> = std::env::args().collect();
	// RUSTC_WORKSPACE_WRAPPER: argv[1] is the path of the real rustc
	if args.len() > 1 && (args[1].ends_with("rustc") || args[1].contains("/rustc")) {
		args.remove(1);
	}
	let mut crate_name = String::new();
	let mut is_test = false;
	let mut i = 0;
	while i < args.len() {
		if args[i] == "--crate-name" && i + 1 < args.len() {
			crate_name = args[i + 1].clone();
		}
		if args[i] == "--test" {
			is_test = true;
		}
		i += 1;
	}
	let want = std::env::var("SKV_FACTS_CRATE").unwrap_or_else(|_| "surrealkv".into());
	let out = std::env::var("SKV_FACTS_OUT").ok();
	let _ = is_test;
	if crate_name == want && out.is_some() {
		let mut cb = Extract { out: out.unwrap() };
		run_compiler(&args, &mut cb);
	} else {
		let mut cb = Plain;
		run_compiler(&args, &mut cb);
	}
}
