		1,
		"Only one file should be selected when there are no shared boundaries"
	);
	assert!(selected.contains(&1), "File 1 should be the only selected file");
}

#[test]
fn triage_d3_bottom_delete_with_snapshot() {
	let env = TestEnv::new();
	let key_bytes = b"test-key".to_vec();
	let tombstone = InternalKey::new(key_bytes.clone(), 100, InternalKeyKind::Delete, 0);
	let tombstone_table = env.create_test_table(100, vec![(tombstone, vec![])]).unwrap();
	let value_key = InternalKey::new(key_bytes, 50, InternalKeyKind::Set, 0);
	let value_table =
		env.create_test_table(101, vec![(value_key, create_inline_value(b"old-value"))]).unwrap();
	let iterators: Vec<_> = vec![
		Box::new(tombstone_table.iter(None).unwrap()) as Box<dyn LSMIterator>,
		Box::new(value_table.iter(None).unwrap()) as Box<dyn LSMIterator>,
	];
	let mut it = CompactionIterator::new(
		iterators,
		create_comparator(),
		true,
		false,
		0,
		Arc::new(MockLogicalClock::new()),
		vec![60],
	);
	let out: Vec<_> = it.by_ref().map(|r| r.unwrap()).collect();
	println!("D3 out = {:?}", out.iter().map(|(k, _)| (k.seq_num(), k.kind())).collect::<Vec<_>>());
	assert!(out.iter().any(|(k, _)| k.seq_num() == 50), "D3: snapshot 60 needs seq 50");
}
