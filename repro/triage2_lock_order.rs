use std::sync::atomic::{AtomicBool, AtomicU64, Ordering};
use std::sync::Arc;

use tempdir::TempDir;

use crate::{LSMIterator, Options, Tree};

// D19: lock-order inversion collect_iter_state (active -> immutable -> manifest) vs
// flush_immutable_to_sst (manifest.write -> immutable.write)
#[test]
fn d19_lock_order_deadlock() {
	let rt = tokio::runtime::Builder::new_multi_thread().worker_threads(4).enable_all().build().unwrap();
	let d = TempDir::new("triage").unwrap();
	let opts = Arc::new(Options {
		path: d.path().to_path_buf(),
		level0_max_files: 1000,
		l0_stall_threshold: 2000,
		..Default::default()
	});
	let tree = rt.block_on(async { Tree::new(Arc::clone(&opts)).unwrap() });
	let stop = Arc::new(AtomicBool::new(false));
	let progress_r = Arc::new(AtomicU64::new(0));
	let progress_w = Arc::new(AtomicU64::new(0));
	let mut hs = vec![];
	for _ in 0..3 {
		let tree = tree.clone();
		let stop = Arc::clone(&stop);
		let p = Arc::clone(&progress_r);
		hs.push(std::thread::spawn(move || {
			while !stop.load(Ordering::Relaxed) {
				let tx = tree.begin().unwrap();
				let mut it = tx.range(&b"a"[..], &b"z"[..]).unwrap();
				let _ = it.seek_first();
				p.fetch_add(1, Ordering::Relaxed);
			}
		}));
	}
	{
		let tree = tree.clone();
		let stop = Arc::clone(&stop);
		let p = Arc::clone(&progress_w);
		let h = rt.handle().clone();
		hs.push(std::thread::spawn(move || {
			let _g = h.enter();
			let mut i = 0u64;
			while !stop.load(Ordering::Relaxed) {
				h.block_on(async {
					let mut tx = tree.begin().unwrap();
					tx.set(format!("k{}", i % 50).as_bytes(), b"v").unwrap();
					tx.commit().await.unwrap();
				});
				tree.flush().unwrap();
				i += 1;
				p.fetch_add(1, Ordering::Relaxed);
			}
		}));
	}
	let mut last = (0, 0);
	let mut stuck = 0;
	for s in 0..40 {
		std::thread::sleep(std::time::Duration::from_millis(500));
		let cur = (progress_r.load(Ordering::Relaxed), progress_w.load(Ordering::Relaxed));
		if cur == last {
			stuck += 1;
		} else {
			stuck = 0;
		}
		println!("D19 t={}ms readers={} writer={} stuck={}", s * 500, cur.0, cur.1, stuck);
		last = cur;
		if stuck >= 6 {
			println!("D19 DEADLOCK: no progress for 3s");
			std::process::exit(3);
		}
	}
	stop.store(true, Ordering::Relaxed);
	for h in hs {
		h.join().unwrap();
	}
	println!("D19 no deadlock in 20s");
}
