#!/bin/bash
# D22 demonstration (power-loss model): run the history of repro/triage.rs::d22_compaction_output_history under strace and
# show that the compaction's output table is written, never fsynced, the manifest is fsynced+renamed, inputs unlinked.
# usage (in a scratch worktree with triage.rs registered): repro/d22_strace.sh <test-binary>
strace -f -y -e trace=openat,fsync,fdatasync,rename,unlink -o /tmp/d22.strace "$1" d22_ --test-threads=1 >/dev/null 2>&1
awk '/D22-MARK before/{p=1} p' /tmp/d22.strace | grep -E "sstables/.*O_CREAT|fsync|rename|unlink.*sst" | sed -E 's#/tmp/[A-Za-z0-9_.]+/#DB/#g' | cut -c1-160
# observed on 5e7180f (before the fix):
#   openat(DB/sstables/00000000000000000005.sst, O_WRONLY|O_CREAT|O_TRUNC)   <- compaction output, 17 write()s, NO fsync
#   fsync(DB/manifest/.tmp_...)  rename(.tmp_... -> 00000000000000000000.manifest)  fsync(manifest)
#   unlink(DB/sstables/00000000000000000004.sst) ... 0001.sst                  <- the only synced copies are gone
# observed after the fix: fsync(DB/sstables/00000000000000000005.sst) precedes the manifest write.
