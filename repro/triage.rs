//! Triage repros (scratch copy only)
use std::path::PathBuf;
use std::sync::Arc;

use tempdir::TempDir;

use crate::compaction::leveled::Strategy;
use crate::oracle::CommitOracle;
use crate::{LSMIterator, Options, Tree};

fn td() -> TempDir {
	TempDir::new("triage").unwrap()
}

fn mk_opts(path: PathBuf, f: impl FnOnce(&mut Options)) -> Arc<Options> {
	let mut o = Options {
		path,
		..Default::default()
	};
	f(&mut o);
	Arc::new(o)
}

async fn put(tree: &Tree, k: &[u8], v: &[u8]) {
	let mut tx = tree.begin().unwrap();
	tx.set(k, v).unwrap();
	tx.commit().await.unwrap();
}

async fn del(tree: &Tree, k: &[u8]) {
	let mut tx = tree.begin().unwrap();
	tx.delete(k).unwrap();
	tx.commit().await.unwrap();
}

// D1: range cursor creation unregisters the snapshot
#[tokio::test(flavor = "multi_thread")]
async fn d1_range_unregisters_snapshot() {
	let d = td();
	let opts = mk_opts(d.path().to_path_buf(), |o| o.level_count = 2);
	let tree = Tree::new(Arc::clone(&opts)).unwrap();
	put(&tree, b"k", b"v1").await;
	tree.flush().unwrap();
	let r = tree.begin().unwrap();
	let before = tree.core.snapshot_tracker.get_all_snapshots();
	{
		let mut it = r.range(&b"a"[..], &b"z"[..]).unwrap();
		it.seek_first().unwrap();
	}
	let after = tree.core.snapshot_tracker.get_all_snapshots();
	println!("D1 tracker before={:?} after={:?}", before, after);
	// overwrite + compaction
	for i in 0..4 {
		put(&tree, b"k", format!("v2-{i}").as_bytes()).await;
		tree.flush().unwrap();
	}
	tree.compact(Arc::new(Strategy::default())).unwrap();
	let got = r.get(b"k").unwrap();
	println!("D1 reader sees {:?}", got.as_ref().map(|v| String::from_utf8_lossy(v).to_string()));
	assert_eq!(got, Some(b"v1".to_vec()), "D1: reader lost its snapshot version");
}

// D2: two readers sharing a start seq
#[tokio::test(flavor = "multi_thread")]
async fn d2_shared_start_seq() {
	let d = td();
	let opts = mk_opts(d.path().to_path_buf(), |o| o.level_count = 2);
	let tree = Tree::new(Arc::clone(&opts)).unwrap();
	put(&tree, b"k", b"v1").await;
	tree.flush().unwrap();
	let r1 = tree.begin().unwrap();
	let r2 = tree.begin().unwrap();
	drop(r1);
	let after = tree.core.snapshot_tracker.get_all_snapshots();
	println!("D2 tracker after dropping r1 = {:?} (r2 start={})", after, r2.start_seq_num);
	for i in 0..4 {
		put(&tree, b"k", format!("v2-{i}").as_bytes()).await;
		tree.flush().unwrap();
	}
	tree.compact(Arc::new(Strategy::default())).unwrap();
	let got = r2.get(b"k").unwrap();
	assert_eq!(got, Some(b"v1".to_vec()), "D2: reader r2 lost its snapshot version");
}

// D3: hard delete compacted to bottom level while older reader open
#[tokio::test(flavor = "multi_thread")]
async fn d3_delete_at_bottom_with_reader() {
	let d = td();
	let opts = mk_opts(d.path().to_path_buf(), |o| o.level_count = 2);
	let tree = Tree::new(Arc::clone(&opts)).unwrap();
	put(&tree, b"k", b"v1").await;
	tree.flush().unwrap();
	let r = tree.begin().unwrap();
	del(&tree, b"k").await;
	tree.flush().unwrap();
	put(&tree, b"x1", b"1").await;
	tree.flush().unwrap();
	put(&tree, b"x2", b"1").await;
	tree.flush().unwrap();
	println!("D3 tracker = {:?}", tree.core.snapshot_tracker.get_all_snapshots());
	tree.compact(Arc::new(Strategy::default())).unwrap();
	let got = r.get(b"k").unwrap();
	assert_eq!(got, Some(b"v1".to_vec()), "D3: reader lost version below tombstone");
}

// D8: oracle rollback forgets earlier committed stamp
#[test]
fn d8_oracle_rollback_loses_stamp() {
	let o = CommitOracle::new();
	let k = b"k".to_vec();
	o.publish([k.as_slice()], 10, 1, 0); // T1 commits K at 10
	assert!(o.check([k.as_slice()], 10).is_ok()); // T2 (start 10) passes
	o.publish([k.as_slice()], 20, 1, 0); // T2 publishes at 20
	o.rollback([k.as_slice()], 20); // T2 apply/WAL failed
	let r = o.check([k.as_slice()], 5); // T3 started before T1 committed
	assert!(r.is_err(), "D8: T3(start=5) passes check although T1 committed K at 10");
}

// D9: last_sequence mismatch after bottom-level tombstone compaction
#[tokio::test(flavor = "multi_thread")]
async fn d9_reopen_after_tombstone_compaction() {
	let d = td();
	let opts = mk_opts(d.path().to_path_buf(), |o| o.level_count = 2);
	{
		let tree = Tree::new(Arc::clone(&opts)).unwrap();
		put(&tree, b"a", b"1").await;
		tree.flush().unwrap();
		put(&tree, b"b", b"1").await;
		tree.flush().unwrap();
		put(&tree, b"c", b"1").await;
		tree.flush().unwrap();
		del(&tree, b"a").await;
		tree.flush().unwrap();
		tree.compact(Arc::new(Strategy::default())).unwrap();
		tree.close().await.unwrap();
	}
	let r = Tree::new(Arc::clone(&opts));
	assert!(r.is_ok(), "D9: reopen failed: {:?}", r.err());
}

// D10: L1 tables ordered by key but validated by seq order
#[tokio::test(flavor = "multi_thread")]
async fn d10_reopen_multi_l1_tables() {
	let d = td();
	let opts = mk_opts(d.path().to_path_buf(), |o| o.level_count = 3);
	{
		let tree = Tree::new(Arc::clone(&opts)).unwrap();
		for i in 0..4 {
			put(&tree, format!("a{i}").as_bytes(), b"1").await;
			tree.flush().unwrap();
		}
		tree.compact(Arc::new(Strategy::default())).unwrap();
		for i in 0..4 {
			put(&tree, format!("z{i}").as_bytes(), b"1").await;
			tree.flush().unwrap();
		}
		tree.compact(Arc::new(Strategy::default())).unwrap();
		for i in 0..4 {
			put(&tree, format!("a{i}").as_bytes(), b"2").await;
			tree.flush().unwrap();
		}
		tree.compact(Arc::new(Strategy::default())).unwrap();
		{
			let m = tree.core.level_manifest.read().unwrap();
			for (li, l) in m.levels.get_levels().iter().enumerate() {
				for t in &l.tables {
					println!(
						"D10 L{} table {} seq {:?}-{:?} keys {:?}..{:?}",
						li,
						t.id,
						t.meta.smallest_seq_num,
						t.meta.largest_seq_num,
						t.meta.smallest_point.as_ref().map(|k| String::from_utf8_lossy(&k.user_key).to_string()),
						t.meta.largest_point.as_ref().map(|k| String::from_utf8_lossy(&k.user_key).to_string())
					);
				}
			}
		}
		tree.close().await.unwrap();
	}
	let r = Tree::new(Arc::clone(&opts));
	assert!(r.is_ok(), "D10: reopen failed: {:?}", r.err());
}

// D11: direction change with exhausted snapshot iterator
#[tokio::test(flavor = "multi_thread")]
async fn d11_cursor_direction_change() {
	let d = td();
	let opts = mk_opts(d.path().to_path_buf(), |_| {});
	let tree = Tree::new(Arc::clone(&opts)).unwrap();
	put(&tree, b"d", b"snap").await;
	let mut tx = tree.begin().unwrap();
	tx.set(b"a", b"ws").unwrap();
	tx.set(b"b", b"ws").unwrap();
	tx.set(b"c", b"ws").unwrap();
	let mut it = tx.range(&b"a"[..], &b"z"[..]).unwrap();
	assert!(it.seek_last().unwrap());
	assert_eq!(it.key().user_key(), b"d");
	assert!(it.prev().unwrap());
	assert_eq!(it.key().user_key(), b"c");
	assert!(it.prev().unwrap());
	assert_eq!(it.key().user_key(), b"b");
	let ok = it.next().unwrap();
	let k = if ok {
		it.key().user_key().to_vec()
	} else {
		vec![]
	};
	println!("D11 after next: valid={} key={:?}", ok, String::from_utf8_lossy(&k));
	assert_eq!(k, b"c".to_vec(), "D11: expected c after b.next()");
	let ok = it.next().unwrap();
	assert!(ok);
	assert_eq!(it.key().user_key(), b"d", "D11: expected d");
}

// D11b: mirrored
#[tokio::test(flavor = "multi_thread")]
async fn d11b_cursor_direction_change_mirror() {
	let d = td();
	let opts = mk_opts(d.path().to_path_buf(), |_| {});
	let tree = Tree::new(Arc::clone(&opts)).unwrap();
	put(&tree, b"a", b"snap").await;
	let mut tx = tree.begin().unwrap();
	tx.set(b"b", b"ws").unwrap();
	tx.set(b"c", b"ws").unwrap();
	let mut it = tx.range(&b"a"[..], &b"z"[..]).unwrap();
	assert!(it.seek_first().unwrap());
	assert_eq!(it.key().user_key(), b"a");
	assert!(it.next().unwrap());
	assert_eq!(it.key().user_key(), b"b");
	let ok = it.prev().unwrap();
	let k = if ok {
		it.key().user_key().to_vec()
	} else {
		vec![]
	};
	assert_eq!(k, b"a".to_vec(), "D11b: expected a after b.prev()");
}

// D12: inverted bounds
#[tokio::test(flavor = "multi_thread")]
async fn d12_inverted_bounds() {
	let d = td();
	let opts = mk_opts(d.path().to_path_buf(), |_| {});
	let tree = Tree::new(Arc::clone(&opts)).unwrap();
	put(&tree, b"k", b"v").await;
	let mut tx = tree.begin().unwrap();
	tx.set(b"m", b"ws").unwrap();
	let r = std::panic::catch_unwind(std::panic::AssertUnwindSafe(|| {
		let it = tx.range(&b"z"[..], &b"a"[..]);
		match it {
			Ok(mut it) => {
				let _ = it.seek_first();
				it.valid()
			}
			Err(_) => false,
		}
	}));
	assert!(r.is_ok(), "D12: range(z,a) panicked");
}

// D13: compaction drops old hard-delete marker but keeps older versions
#[tokio::test(flavor = "multi_thread")]
async fn d13_hard_delete_resurrects_history() {
	let d = td();
	let opts = Arc::new(
		Options::new()
			.with_path(d.path().to_path_buf())
			.with_versioning(true, 0)
			.with_level_count(3),
	);
	let tree = Tree::new(Arc::clone(&opts)).unwrap();
	let hist = |tree: &Tree| {
		let tx = tree.begin().unwrap();
		let mut it = tx.history(&b"a"[..], &b"z"[..]).unwrap();
		it.seek_first().unwrap();
		let mut out = vec![];
		while it.valid() {
			out.push((it.key().user_key().to_vec(), it.key().timestamp()));
			it.next().unwrap();
		}
		out
	};
	{
		let mut tx = tree.begin().unwrap();
		tx.set_at(b"k", b"v10", 10).unwrap();
		tx.commit().await.unwrap();
	}
	tree.flush().unwrap();
	del(&tree, b"k").await;
	tree.flush().unwrap();
	{
		let mut tx = tree.begin().unwrap();
		tx.set_at(b"k", b"v30", 30).unwrap();
		tx.commit().await.unwrap();
	}
	tree.flush().unwrap();
	put(&tree, b"x", b"1").await;
	tree.flush().unwrap();
	let before = hist(&tree);
	let get_before = tree.begin().unwrap().get_at(b"k", 15).unwrap();
	tree.compact(Arc::new(Strategy::default())).unwrap();
	let after = hist(&tree);
	let get_after = tree.begin().unwrap().get_at(b"k", 15).unwrap();
	println!("D13 before={:?} after={:?} get_at15 before={:?} after={:?}", before, after, get_before, get_after);
	assert_eq!(before, after, "D13: history changed by compaction");
	assert_eq!(get_before, get_after, "D13: get_at changed by compaction");
}

// D18: refused open truncates LOCK
#[tokio::test(flavor = "multi_thread")]
async fn d18_refused_open_touches_lock() {
	let d = td();
	let opts = mk_opts(d.path().to_path_buf(), |_| {});
	let _tree = Tree::new(Arc::clone(&opts)).unwrap();
	let before = std::fs::read(d.path().join("LOCK")).unwrap();
	let r = Tree::new(Arc::clone(&opts));
	assert!(r.is_err());
	let after = std::fs::read(d.path().join("LOCK")).unwrap();
	println!("D18 LOCK before={:?} after={:?}", before, after);
	assert_eq!(before, after, "D18: refused open modified LOCK file");
}

// D5: ArenaFull rotation inside apply: batch in WAL N, memtable N+1
#[tokio::test(flavor = "multi_thread")]
async fn d5_rotation_in_apply_loses_commit() {
	let d = td();
	let opts = mk_opts(d.path().to_path_buf(), |o| {
		o.max_memtable_size = 64 * 1024;
		o.flush_on_close = false;
		o.level0_max_files = 100;
		o.l0_stall_threshold = 200;
	});
	let mut rotated_key: Option<Vec<u8>> = None;
	let mut all_keys = vec![];
	{
		let tree = Tree::new(Arc::clone(&opts)).unwrap();
		let val = vec![7u8; 1000];
		for i in 0..200u32 {
			let k = format!("key{i:05}").into_bytes();
			let wal_before = tree.core.wal.read().get_active_log_number();
			put(&tree, &k, &val).await;
			let wal_after = tree.core.wal.read().get_active_log_number();
			all_keys.push(k.clone());
			if wal_after != wal_before && rotated_key.is_none() {
				rotated_key = Some(k.clone());
				println!("D5 rotation during commit of {:?}: wal {} -> {}", String::from_utf8_lossy(&k), wal_before, wal_after);
				break;
			}
		}
		// wait for background flush of the rotated memtable
		for _ in 0..200 {
			if tree.core.immutable_count() == 0 {
				break;
			}
			tokio::time::sleep(std::time::Duration::from_millis(20)).await;
		}
		tokio::time::sleep(std::time::Duration::from_millis(200)).await;
		println!("D5 log_number={} wal segs={:?}", tree.core.level_manifest.read().unwrap().get_log_number(), crate::wal::list_segment_ids(&opts.wal_dir(), Some("wal")));
		tree.close().await.unwrap();
	}
	let tree = Tree::new(Arc::clone(&opts)).unwrap();
	let tx = tree.begin().unwrap();
	let mut missing = vec![];
	for k in &all_keys {
		if tx.get(k.as_slice()).unwrap().is_none() {
			missing.push(String::from_utf8_lossy(k).to_string());
		}
	}
	println!("D5 rotated_key={:?} missing after reopen={:?}", rotated_key.map(|k| String::from_utf8_lossy(&k).to_string()), missing);
	assert!(missing.is_empty(), "D5: acknowledged commits missing after clean close+reopen");
}

fn last_wal(opts: &Options) -> std::path::PathBuf {
	let ids = crate::wal::list_segment_ids(&opts.wal_dir(), Some("wal")).unwrap();
	opts.wal_dir().join(format!("{:020}.wal", ids.last().unwrap()))
}

async fn d67(garbage: &[u8], tag: &str) -> (Option<Vec<u8>>, Option<Vec<u8>>) {
	let d = td();
	let opts = mk_opts(d.path().to_path_buf(), |o| {
		o.flush_on_close = false;
	});
	{
		let tree = Tree::new(Arc::clone(&opts)).unwrap();
		put(&tree, b"k1", b"v1").await;
		tree.close().await.unwrap();
	}
	{
		use std::io::Write;
		let p = last_wal(&opts);
		let mut f = std::fs::OpenOptions::new().append(true).open(&p).unwrap();
		f.write_all(garbage).unwrap();
		f.sync_all().unwrap();
		println!("{tag} torn tail appended to {:?} len now {}", p, std::fs::metadata(&p).unwrap().len());
	}
	{
		let tree = Tree::new(Arc::clone(&opts)).unwrap();
		put(&tree, b"k2", b"v2").await; // acknowledged in the recovered session
		tree.flush_wal(true).unwrap();
		tree.close().await.unwrap();
	}
	let tree = Tree::new(Arc::clone(&opts)).unwrap();
	let tx = tree.begin().unwrap();
	(tx.get(b"k1").unwrap(), tx.get(b"k2").unwrap())
}

// D6: torn record (full header, bad body) -> repair renames file under open writer
#[tokio::test(flavor = "multi_thread")]
async fn d6_commit_after_repair_lost() {
	let mut g = vec![0xde, 0xad, 0xbe, 0xef, 0x00, 0x10, 0x01];
	g.extend_from_slice(&[1, 2, 3, 4, 5]); // claims 16 bytes payload, only 5 present
	let (k1, k2) = d67(&g, "D6").await;
	println!("D6 k1={:?} k2={:?}", k1, k2);
	assert_eq!(k1, Some(b"v1".to_vec()));
	assert_eq!(k2, Some(b"v2".to_vec()), "D6: commit acknowledged after repaired recovery is lost");
}

// D7: partial header (3 bytes) at tail treated as EOF; appends go after garbage
#[tokio::test(flavor = "multi_thread")]
async fn d7_commit_after_partial_header_lost() {
	let (k1, k2) = d67(&[0xde, 0xad, 0xbe], "D7").await;
	println!("D7 k1={:?} k2={:?}", k1, k2);
	assert_eq!(k1, Some(b"v1".to_vec()));
	assert_eq!(k2, Some(b"v2".to_vec()), "D7: commit acknowledged after torn-tail recovery is lost");
}

// D15: restore with vlog: post-restore commits durable across reopen?
#[tokio::test(flavor = "multi_thread")]
async fn d15_restore_vlog_state() {
	let d = td();
	let ck = td();
	let opts = mk_opts(d.path().to_path_buf(), |o| {
		o.enable_vlog = true;
		o.vlog_value_threshold = 16;
	});
	let big = |c: u8| vec![c; 300];
	{
		let tree = Tree::new(Arc::clone(&opts)).unwrap();
		put(&tree, b"k1", &big(b'1')).await;
		tree.flush().unwrap();
		tree.create_checkpoint(ck.path()).unwrap();
		put(&tree, b"k2", &big(b'2')).await;
		tree.flush().unwrap();
		// warm caches on the discarded timeline
		assert_eq!(tree.begin().unwrap().get(b"k2").unwrap(), Some(big(b'2')));
		tree.restore_from_checkpoint(ck.path()).unwrap();
		assert_eq!(tree.begin().unwrap().get(b"k1").unwrap(), Some(big(b'1')));
		assert_eq!(tree.begin().unwrap().get(b"k2").unwrap(), None);
		put(&tree, b"k3", &big(b'3')).await;
		tree.flush().unwrap();
		let in_proc = tree.begin().unwrap().get(b"k3");
		println!("D15 in-process k3 = {:?}", in_proc.as_ref().map(|o| o.as_ref().map(|v| v[0] as char)));
		tree.close().await.unwrap();
	}
	let tree = Tree::new(Arc::clone(&opts)).unwrap();
	let r1 = tree.begin().unwrap().get(b"k1");
	let r3 = tree.begin().unwrap().get(b"k3");
	println!("D15 after reopen k1={:?} k3={:?}", r1.as_ref().map(|o| o.as_ref().map(|v| (v[0] as char, v.len()))), r3.as_ref().map(|o| o.as_ref().map(|v| (v[0] as char, v.len()))));
	assert_eq!(r3.unwrap(), Some(big(b'3')), "D15: post-restore commit unreadable after reopen");
}

// D17a: bit flip inside the filter block hides a present key
#[tokio::test(flavor = "multi_thread")]
async fn d17a_filter_block_corruption() {
	let d = td();
	let opts = mk_opts(d.path().to_path_buf(), |_| {});
	let (foff, fsize, id);
	{
		let tree = Tree::new(Arc::clone(&opts)).unwrap();
		put(&tree, b"hello", b"world").await;
		tree.flush().unwrap();
		let m = tree.core.level_manifest.read().unwrap();
		let t = &m.levels.get_levels()[0].tables[0];
		id = t.id;
		fsize = t.meta.properties.filter_size;
		foff = 0u64;
		let _ = foff;
		println!("D17a table {} size {} filter_size {}", id, t.file_size, fsize);
		drop(m);
		tree.close().await.unwrap();
	}
	// data block is first; filter block follows it. Locate filter by scanning: flip every byte
	// position one at a time is costly; instead zero the filter region: it starts right after
	// data block (+5 trailer). We find it by brute force: try offsets until get() changes.
	let p = opts.sstable_file_path(id);
	let orig = std::fs::read(&p).unwrap();
	let mut hidden = 0;
	let mut errs = 0;
	let mut wrong = 0;
	for off in 0..orig.len() {
		let mut b = orig.clone();
		b[off] ^= 0xff;
		std::fs::write(&p, &b).unwrap();
		let r = std::panic::catch_unwind(std::panic::AssertUnwindSafe(|| Tree::new(Arc::clone(&opts))));
		match r {
			Err(_) => {
				println!("D17 PANIC at offset {off}");
				wrong += 1;
			}
			Ok(Err(_)) => errs += 1,
			Ok(Ok(tree)) => {
				let g = tree.begin().unwrap().get(b"hello");
				match g {
					Ok(Some(v)) if v == b"world" => {}
					Ok(None) => {
						hidden += 1;
						println!("D17a offset {off}: get(hello) -> None (silent)");
					}
					Ok(Some(_)) => {
						wrong += 1;
						println!("D17a offset {off}: wrong value");
					}
					Err(_) => errs += 1,
				}
				tree.close().await.unwrap();
			}
		}
	}
	std::fs::write(&p, &orig).unwrap();
	println!("D17a file len {} errs {} hidden {} wrong/panic {}", orig.len(), errs, hidden, wrong);
	assert_eq!(hidden + wrong, 0, "D17a: corruption served silently");
}

// D12b: unbounded upper with non-empty write-set
#[tokio::test(flavor = "multi_thread")]
async fn d12b_unbounded_upper() {
	let d = td();
	let opts = mk_opts(d.path().to_path_buf(), |_| {});
	let tree = Tree::new(Arc::clone(&opts)).unwrap();
	put(&tree, b"k", b"v").await;
	let mut tx = tree.begin().unwrap();
	tx.set(b"m", b"ws").unwrap();
	let r = std::panic::catch_unwind(std::panic::AssertUnwindSafe(|| {
		let mut ro = crate::ReadOptions::new();
		ro.set_iterate_lower_bound(Some(b"a".to_vec()));
		let mut it = tx.range_with_options(&ro).unwrap();
		let mut out = vec![];
		it.seek_first().unwrap();
		while it.valid() {
			out.push(it.key().user_key().to_vec());
			it.next().unwrap();
		}
		out
	}));
	println!("D12b result = {:?}", r.as_ref().map(|v| v.iter().map(|k| String::from_utf8_lossy(k).to_string()).collect::<Vec<_>>()).map_err(|_| "panic"));
	let r2 = std::panic::catch_unwind(std::panic::AssertUnwindSafe(|| {
		let ro = crate::ReadOptions::new();
		let mut it = tx.range_with_options(&ro).unwrap();
		let mut out = vec![];
		it.seek_first().unwrap();
		while it.valid() {
			out.push(it.key().user_key().to_vec());
			it.next().unwrap();
		}
		out
	}));
	println!("D12b both-unbounded result = {:?}", r2.as_ref().map(|v| v.iter().map(|k| String::from_utf8_lossy(k).to_string()).collect::<Vec<_>>()).map_err(|_| "panic"));
	assert!(r.is_ok());
}

// D16: a commit that fails in apply (value larger than the memtable arena) leaves its record in the WAL
#[tokio::test(flavor = "multi_thread")]
async fn d16_failed_commit_poisons_store_and_reopen() {
	let d = td();
	let opts = mk_opts(d.path().to_path_buf(), |o| {
		o.max_memtable_size = 64 * 1024;
	});
	let tree = Tree::new(Arc::clone(&opts)).unwrap();
	put(&tree, b"before", b"1").await;
	// oversized transaction: must fail and leave no trace
	let big = vec![7u8; 1024 * 1024];
	let mut tx = tree.begin().unwrap();
	tx.set(b"small-in-failed-txn", b"x").unwrap();
	tx.set(b"big", &big).unwrap();
	let r = tx.commit().await;
	assert!(r.is_err(), "oversized commit unexpectedly succeeded");
	// (a) none of the failed transaction's writes is visible
	{
		let rtx = tree.begin().unwrap();
		assert_eq!(rtx.get(b"small-in-failed-txn").unwrap(), None, "D16a: write of a failed commit is visible");
	}
	// (b) the store keeps accepting transactions
	let mut tx2 = tree.begin().unwrap();
	tx2.set(b"after", b"2").unwrap();
	let r2 = tx2.commit().await;
	assert!(r2.is_ok(), "D16b: store stops accepting commits after a failed one: {:?}", r2);
	drop(tree);
	// (c) crash + reopen: acknowledged commits are recovered, the failed one is not
	let tree2 = Tree::new(Arc::clone(&opts));
	assert!(tree2.is_ok(), "D16c: reopen fails after a failed commit: {:?}", tree2.err());
	let tree2 = tree2.unwrap();
	let rtx = tree2.begin().unwrap();
	assert_eq!(rtx.get(b"after").unwrap().as_deref(), Some(&b"2"[..]));
	assert_eq!(rtx.get(b"big").unwrap(), None, "D16c: failed commit resurrected by recovery");
}

// D20: with versioning on and unlimited retention, an open reader makes compaction drop history
#[tokio::test(flavor = "multi_thread")]
async fn d20_history_lost_when_reader_open_during_compaction() {
	let d = td();
	let opts = mk_opts(d.path().to_path_buf(), |o| {
		o.enable_versioning = true;
		o.enable_vlog = true;
		o.vlog_value_threshold = 0;
		o.versioned_history_retention_ns = 0;
		o.level_count = 3;
		o.level0_max_files = 1;
	});
	let tree = Tree::new(Arc::clone(&opts)).unwrap();
	put(&tree, b"zz-other", b"0").await;
	// a long-running reader that sees neither version of k
	let reader = tree.begin_with_mode(crate::Mode::ReadOnly).unwrap();
	// write-only transactions: they register no snapshot of their own (see D2)
	for v in [&b"v1"[..], &b"v2"[..]] {
		let mut tx = tree.begin_with_mode(crate::Mode::WriteOnly).unwrap();
		tx.set(b"k", v).unwrap();
		tx.commit().await.unwrap();
	}
	let count_versions = |tree: &Tree| {
		let tx = tree.begin_with_mode(crate::Mode::ReadOnly).unwrap();
		let mut it = tx.history(b"k", b"l").unwrap();
		let mut n = 0;
		let mut ok = it.seek_first().unwrap();
		while ok {
			n += 1;
			ok = it.next().unwrap();
		}
		n
	};
	assert_eq!(count_versions(&tree), 2);
	tree.flush().unwrap();
	assert_eq!(count_versions(&tree), 2, "after flush");
	tree.compact(Arc::new(Strategy::from_options(Arc::clone(&opts)))).unwrap();
	{
		let m = tree.core.inner.level_manifest.read().unwrap();
		let counts: Vec<usize> = m.levels.get_levels().iter().map(|l| l.tables.len()).collect();
		println!("D20 level table counts after compaction: {:?}", counts);
		assert_eq!(counts[0], 0, "compaction did not run");
	}
	let n = count_versions(&tree);
	drop(reader);
	assert_eq!(n, 2, "D20: a version inside unlimited retention was dropped by compaction while a reader was open");
}

// D17b: a damaged size field in the (unchecksummed) footer must give an error, not abort/panic
#[tokio::test(flavor = "multi_thread")]
async fn d17b_footer_handle_size_is_bounded() {
	use std::io::{Read, Seek, SeekFrom, Write};
	let d = td();
	let opts = mk_opts(d.path().to_path_buf(), |_| {});
	{
		let tree = Tree::new(Arc::clone(&opts)).unwrap();
		put(&tree, b"k", b"v").await;
		tree.flush().unwrap();
		tree.close().await.unwrap();
	}
	let sst = std::fs::read_dir(opts.sstable_dir()).unwrap().next().unwrap().unwrap().path();
	let mut f = std::fs::OpenOptions::new().read(true).write(true).open(&sst).unwrap();
	let len = f.metadata().unwrap().len();
	let flen = 50u64; // TABLE_FULL_FOOTER_LENGTH = 42 + 8
	f.seek(SeekFrom::Start(len - flen)).unwrap();
	let mut buf = vec![0u8; flen as usize];
	f.read_exact(&mut buf).unwrap();
	// re-encode the footer with a meta-index handle whose size field is ~2^56, keeping the index handle
	fn rd(b: &[u8], p: &mut usize) -> u64 {
		let (mut v, mut sh) = (0u64, 0);
		loop {
			let x = b[*p];
			*p += 1;
			v |= ((x & 0x7f) as u64) << sh;
			if x & 0x80 == 0 {
				return v;
			}
			sh += 7;
		}
	}
	fn wr(out: &mut Vec<u8>, mut v: u64) {
		while v >= 0x80 {
			out.push((v as u8 & 0x7f) | 0x80);
			v >>= 7;
		}
		out.push(v as u8);
	}
	let mut p = 2usize;
	let (mo, _ms, io, is) = (rd(&buf, &mut p), rd(&buf, &mut p), rd(&buf, &mut p), rd(&buf, &mut p));
	let mut enc = vec![buf[0], buf[1]];
	wr(&mut enc, mo);
	wr(&mut enc, 1u64 << 56);
	wr(&mut enc, io);
	wr(&mut enc, is);
	assert!(enc.len() <= 42);
	for b in buf.iter_mut().take(42) {
		*b = 0;
	}
	buf[..enc.len()].copy_from_slice(&enc);
	f.seek(SeekFrom::Start(len - flen)).unwrap();
	f.write_all(&buf).unwrap();
	f.sync_all().unwrap();
	drop(f);
	let o2 = Arc::clone(&opts);
	let r = std::panic::catch_unwind(std::panic::AssertUnwindSafe(move || Tree::new(o2).map(|_| ())));
	assert!(r.is_ok(), "D17b: opening a table with a damaged footer size panicked");
	assert!(r.unwrap().is_err(), "D17b: damaged footer accepted");
}

// D15b: restore re-issues table ids but keeps the block cache of the discarded timeline
#[tokio::test(flavor = "multi_thread")]
async fn d15b_restore_block_cache_stale() {
	let d = td();
	let ck = td();
	let opts = mk_opts(d.path().to_path_buf(), |_| {});
	let tree = Tree::new(Arc::clone(&opts)).unwrap();
	put(&tree, b"a", b"1").await;
	tree.flush().unwrap();
	tree.create_checkpoint(ck.path()).unwrap();
	// discarded timeline: a table with the next id, read once so that its blocks are cached
	put(&tree, b"m-discarded", b"old-timeline").await;
	tree.flush().unwrap();
	assert_eq!(tree.begin().unwrap().get(b"m-discarded").unwrap().as_deref(), Some(&b"old-timeline"[..]));
	tree.restore_from_checkpoint(ck.path()).unwrap();
	assert_eq!(tree.begin().unwrap().get(b"m-discarded").unwrap(), None);
	// new timeline: the next flush re-uses the table id of the discarded table
	put(&tree, b"m-new", b"new-timeline").await;
	tree.flush().unwrap();
	let got_new = tree.begin().unwrap().get(b"m-new").unwrap();
	let got_old = tree.begin().unwrap().get(b"m-discarded").unwrap();
	assert_eq!(got_old, None, "D15b: data of the discarded timeline served from the block cache after restore");
	assert_eq!(got_new.as_deref(), Some(&b"new-timeline"[..]), "D15b: post-restore commit unreadable (stale cached block)");
}

// D15c: restore keeps the B+tree version index of the discarded timeline
#[tokio::test(flavor = "multi_thread")]
async fn d15c_restore_version_index_stale() {
	let d = td();
	let ck = td();
	let opts = mk_opts(d.path().to_path_buf(), |o| {
		o.enable_versioning = true;
		o.enable_versioned_index = true;
		o.enable_vlog = true;
		o.vlog_value_threshold = 0;
	});
	let tree = Tree::new(Arc::clone(&opts)).unwrap();
	put(&tree, b"k", b"v1").await;
	tree.flush().unwrap();
	tree.create_checkpoint(ck.path()).unwrap();
	put(&tree, b"k", b"v2-discarded").await;
	tree.flush().unwrap();
	tree.restore_from_checkpoint(ck.path()).unwrap();
	// the new timeline re-uses the sequence numbers of the discarded one
	put(&tree, b"k", b"v2-new").await;
	tree.flush().unwrap();
	let tx = tree.begin().unwrap();
	let mut it = tx.history(b"k", b"l").unwrap();
	let mut n = 0;
	let mut ok = it.seek_first().unwrap();
	while ok {
		n += 1;
		ok = it.next().unwrap();
	}
	assert_eq!(n, 2, "D15c: history after restore still lists versions of the discarded timeline");
}


// D15a: restore keeps the in-memory value-log writer / handles of the discarded timeline (block cache disabled)
#[tokio::test(flavor = "multi_thread")]
async fn d15a_restore_vlog_state_without_cache() {
	let d = td();
	let ck = td();
	let mut o = Options {
		path: d.path().to_path_buf(),
		..Default::default()
	};
	o.enable_vlog = true;
	o.vlog_value_threshold = 16;
	let o = o.with_block_cache_capacity(0);
	let opts = Arc::new(o);
	let big = |c: u8| vec![c; 300];
	{
		let tree = Tree::new(Arc::clone(&opts)).unwrap();
		put(&tree, b"k1", &big(b'1')).await;
		tree.flush().unwrap();
		tree.create_checkpoint(ck.path()).unwrap();
		put(&tree, b"k2", &big(b'2')).await;
		tree.flush().unwrap();
		tree.restore_from_checkpoint(ck.path()).unwrap();
		put(&tree, b"k3", &big(b'3')).await;
		tree.flush().unwrap();
		tree.close().await.unwrap();
	}
	let tree = Tree::new(Arc::clone(&opts)).unwrap();
	let r3 = tree.begin().unwrap().get(b"k3");
	assert_eq!(r3.ok().flatten(), Some(big(b'3')), "D15a: value written after a restore is unreadable after reopen");
}

// D16w: a transient WAL append failure (hook) must not endanger later acknowledged commits
#[cfg(surrealkv_verif)]
#[tokio::test(flavor = "multi_thread")]
async fn d16w_transient_wal_append_failure() {
	use std::sync::atomic::Ordering;
	let d = td();
	let opts = mk_opts(d.path().to_path_buf(), |o| {
		o.flush_on_close = false;
	});
	{
		let tree = Tree::new(Arc::clone(&opts)).unwrap();
		put(&tree, b"k1", b"v1").await;
		// the next record: header append succeeds (0), payload append fails (1)
		crate::wal::verif_hooks::FAIL_WAL_APPEND_IN.store(1, Ordering::SeqCst);
		let mut tx = tree.begin().unwrap();
		tx.set(b"k2", b"v2").unwrap();
		let r = tx.commit().await;
		assert!(r.is_err(), "the injected failure did not surface: {:?}", r);
		crate::wal::verif_hooks::FAIL_WAL_APPEND_IN.store(-1, Ordering::SeqCst);
		// the store keeps accepting commits (no sticky error): this one is acknowledged
		let mut tx = tree.begin().unwrap();
		tx.set(b"k3", b"v3").unwrap();
		let r3 = tx.commit().await;
		println!("D16w commit after the failed one: {:?}", r3);
		if r3.is_err() {
			// a sticky error is an acceptable outcome (property C15 allows it): the store refuses further commits
			// until it is reopened; the reopen below must then show k1 and nothing of the failed commit
			let _ = tokio::time::timeout(std::time::Duration::from_secs(10), tree.close()).await;
			let tree = Tree::new(Arc::clone(&opts)).expect("D16w: reopen fails after the sticky WAL error");
			let tx = tree.begin().unwrap();
			assert_eq!(tx.get(b"k1").unwrap().as_deref(), Some(&b"v1"[..]));
			assert_eq!(tx.get(b"k2").unwrap(), None, "D16w: the failed commit is visible after recovery");
			drop(tx);
			put(&tree, b"k4", b"v4").await; // and the store works again
			return;
		}
		tree.close().await.unwrap();
	}
	let tree = Tree::new(Arc::clone(&opts));
	assert!(tree.is_ok(), "D16w: reopen fails after a transient WAL failure: {:?}", tree.err());
	let tree = tree.unwrap();
	let tx = tree.begin().unwrap();
	assert_eq!(tx.get(b"k1").unwrap().as_deref(), Some(&b"v1"[..]));
	assert_eq!(tx.get(b"k2").unwrap(), None, "D16w: the failed commit is visible after recovery");
	assert_eq!(tx.get(b"k3").unwrap().as_deref(), Some(&b"v3"[..]), "D16w: a commit acknowledged after the failed one is lost by recovery");
}

// D16x: the sticky gate is read before write_mutex; committers that passed it while another commit's WAL write was
// failing append behind the torn record and are acknowledged, recovery cuts the log at the torn record
#[cfg(surrealkv_verif)]
#[tokio::test(flavor = "multi_thread", worker_threads = 8)]
async fn d16x_commits_racing_a_failed_wal_write_are_lost() {
	use std::sync::atomic::Ordering;
	for round in 0..20 {
		let d = td();
		let opts = mk_opts(d.path().to_path_buf(), |o| {
			o.flush_on_close = false;
		});
		let mut acked: Vec<Vec<u8>> = Vec::new();
		{
			let tree = Arc::new(Tree::new(Arc::clone(&opts)).unwrap());
			put(&tree, b"k0", b"v").await;
			// header of some record succeeds, its payload fails (torn record), once
			crate::wal::verif_hooks::FAIL_WAL_APPEND_IN.store(41, Ordering::SeqCst);
			let mut hs = Vec::new();
			for t in 0..8u32 {
				let tree = Arc::clone(&tree);
				hs.push(tokio::spawn(async move {
					let mut mine = Vec::new();
					for i in 0..40u32 {
						let k = format!("t{t}_{i:03}").into_bytes();
						let mut tx = tree.begin().unwrap();
						tx.set(&k, b"v").unwrap();
						match tx.commit().await {
							Ok(()) => mine.push(k),
							Err(_) => break,
						}
					}
					mine
				}));
			}
			for h in hs {
				acked.extend(h.await.unwrap());
			}
			crate::wal::verif_hooks::FAIL_WAL_APPEND_IN.store(-1, Ordering::SeqCst);
			let _ = tokio::time::timeout(std::time::Duration::from_secs(10), tree.close()).await;
		}
		let tree = Tree::new(Arc::clone(&opts)).expect("reopen");
		let tx = tree.begin().unwrap();
		for k in &acked {
			assert!(
				tx.get(k).unwrap().is_some(),
				"D16x round {round}: acknowledged commit {:?} is lost by recovery ({} acked)",
				String::from_utf8_lossy(k),
				acked.len()
			);
		}
		drop(tx);
		tree.close().await.unwrap();
	}
}

// D21: the WAL reader acts on a SetCompressionType record without checking its CRC:
// one flipped bit in a data record's type byte (Full=1 -> SetCompressionType=9) makes a commit vanish silently
#[tokio::test(flavor = "multi_thread")]
async fn d21_wal_type_byte_flip_is_not_detected() {
	let d = td();
	let opts = mk_opts(d.path().to_path_buf(), |o| {
		o.flush_on_close = false;
		o.wal_recovery_mode = crate::WalRecoveryMode::AbsoluteConsistency;
	});
	{
		let tree = Tree::new(Arc::clone(&opts)).unwrap();
		put(&tree, b"k1", b"v1").await;
		put(&tree, b"k2", b"v2").await;
		tree.close().await.unwrap();
	}
	let wal = last_wal(&opts);
	let mut bytes = std::fs::read(&wal).unwrap();
	// walk the physical records (7-byte header: crc(4) len(2) type(1)) and flip the type of the last one
	let mut off = 0usize;
	let mut last = None;
	while off + 7 <= bytes.len() {
		let len = u16::from_be_bytes([bytes[off + 4], bytes[off + 5]]) as usize;
		if bytes[off + 6] == 0 {
			break;
		}
		last = Some(off);
		off += 7 + len;
	}
	let last = last.unwrap();
	assert_eq!(bytes[last + 6], 1, "expected a Full record");
	bytes[last + 6] = 9;
	std::fs::write(&wal, &bytes).unwrap();
	let r = Tree::new(Arc::clone(&opts));
	match r {
		Err(_) => {} // detected: fine
		Ok(tree) => {
			let tx = tree.begin().unwrap();
			assert_eq!(tx.get(b"k1").unwrap().as_deref(), Some(&b"v1"[..]));
			assert_eq!(tx.get(b"k2").unwrap().as_deref(), Some(&b"v2"[..]), "D21: damaged commit log opened without error (absolute consistency) but a committed key is gone");
		}
	}
}

// D22: the output table of a compaction is never fsynced before the manifest references it and the inputs are
// unlinked.  Observed from outside with strace (repro/d22_strace.sh): this test only produces the history.
#[tokio::test(flavor = "multi_thread")]
async fn d22_compaction_output_history() {
	let d = td();
	let opts = mk_opts(d.path().to_path_buf(), |o| o.level_count = 3);
	let tree = Tree::new(Arc::clone(&opts)).unwrap();
	for i in 0..4 {
		put(&tree, format!("k{i}").as_bytes(), b"acknowledged-and-flushed").await;
		tree.flush().unwrap();
	}
	eprintln!("D22-MARK before compaction");
	tree.compact(Arc::new(Strategy::default())).unwrap();
	eprintln!("D22-MARK after compaction");
	tree.close().await.unwrap();
}

// D23: Tree is Clone, and dropping ANY clone closes the shared core and releases the directory lock while the
// other handle is still alive: a second instance can open the directory next to it.
#[tokio::test(flavor = "multi_thread")]
async fn d23_dropping_a_clone_releases_the_directory_lock() {
	let d = td();
	let opts = mk_opts(d.path().to_path_buf(), |_| {});
	let t1 = Tree::new(Arc::clone(&opts)).unwrap();
	put(&t1, b"k", b"v").await;
	let t2 = t1.clone();
	drop(t2); // spawns core.close() on the runtime
	tokio::time::sleep(std::time::Duration::from_millis(500)).await;
	// t1 is still alive and was never closed or dropped by its owner
	let second = Tree::new(Arc::clone(&opts));
	assert!(second.is_err(), "D23: a second instance opened the directory while the first handle is still alive");
	// and the surviving handle still works
	put(&t1, b"k2", b"v2").await;
}

// D24: an open that fails after the lock was taken (here: corrupt WAL, AbsoluteConsistency) leaks the directory lock:
// background tasks spawned by Core::new keep Arc<CoreInner> (and with it the LockFile) alive forever.
#[tokio::test(flavor = "multi_thread")]
async fn d24_failed_open_leaks_the_directory_lock() {
	let d = td();
	let opts = mk_opts(d.path().to_path_buf(), |o| o.flush_on_close = false);
	{
		let t = Tree::new(Arc::clone(&opts)).unwrap();
		put(&t, b"k", b"v").await;
		put(&t, b"k2", b"v2").await;
		t.close().await.unwrap();
	}
	// damage the middle of the only WAL segment
	let wal_dir = d.path().join("wal");
	let seg = std::fs::read_dir(&wal_dir).unwrap().filter_map(|e| e.ok()).map(|e| e.path()).find(|p| p.extension().map(|x| x == "wal").unwrap_or(false));
	let seg = seg.expect("a WAL segment");
	let mut bytes = std::fs::read(&seg).unwrap();
	assert!(bytes.len() >= 16);
	let mid = bytes.len() / 2;
	bytes[mid] ^= 0xff;
	std::fs::write(&seg, &bytes).unwrap();
	let mut strict = (*opts).clone();
	strict.wal_recovery_mode = crate::WalRecoveryMode::AbsoluteConsistency;
	let r1 = Tree::new(Arc::new(strict));
	assert!(r1.is_err(), "precondition: the strict open must fail on the damaged segment");
	drop(r1);
	tokio::time::sleep(std::time::Duration::from_millis(300)).await;
	// no store is open on the directory now: a tolerant open must be able to take the lock
	let r2 = Tree::new(Arc::clone(&opts));
	assert!(r2.is_ok(), "D24: directory still locked after a FAILED open: {:?}", r2.err());
}

// D25: redistribute_leaf_from_left/right replace a separator key in the parent but keep the OLD separator's overflow
// pointer: with keys long enough to need overflow in internal nodes, the parent is persisted with the new key's on-page
// prefix + the old key's overflow tail.  Everything works from the node cache; after close + reopen lookups go wrong.
#[test]
fn d25_bptree_separator_overflow_is_stale_after_redistribution() {
	use crate::bplustree::tree::BPlusTree;
	use crate::BytewiseComparator;
	let dir = td();
	let path = dir.path().join("idx.bpt");
	// 1406-byte keys that differ only in the last 6 bytes: separators need an overflow page in internal nodes
	let key = |i: usize| {
		let mut k = vec![b'k'; 1400];
		k.extend_from_slice(format!("{i:06}").as_bytes());
		k
	};
	let n = 200usize;
	let mut live = std::collections::BTreeSet::new();
	{
		let mut t = BPlusTree::disk(&path, Arc::new(BytewiseComparator::default())).unwrap();
		for i in 0..n {
			t.insert(key(i), format!("v{i}").as_bytes()).unwrap();
			live.insert(i);
		}
		// interleaved deletes force underflows -> redistributions between sibling leaves
		for i in (0..n).filter(|i| i % 3 != 0) {
			t.delete(&key(i)).unwrap();
			live.remove(&i);
		}
		for &i in &live {
			assert!(t.get(&key(i)).unwrap().is_some(), "precondition: key {i} readable before reopen");
		}
		t.flush().unwrap();
		t.close().unwrap();
	}
	let t = BPlusTree::disk(&path, Arc::new(BytewiseComparator::default())).unwrap();
	let missing: Vec<usize> = live.iter().copied().filter(|&i| t.get(&key(i)).unwrap().is_none()).collect();
	assert!(missing.is_empty(), "D25: {} of {} surviving keys are not found after reopen: {:?}", missing.len(), live.len(), &missing[..missing.len().min(8)]);
}

// D26: SkiplistIterator::last() uses is_valid() as the guard of its "step back over nodes >= upper" loop; is_valid() is
// false for the cached `upper_node`, so once a forward run has cached that node, seek_last() on the same cursor stops on
// it and reports an empty range.
#[tokio::test(flavor = "multi_thread")]
async fn d26_seek_last_after_forward_run_off_the_end() {
	let d = td();
	let opts = mk_opts(d.path().to_path_buf(), |_| {});
	let tree = Tree::new(Arc::clone(&opts)).unwrap();
	put(&tree, b"a", b"1").await;
	put(&tree, b"b", b"2").await;
	put(&tree, b"z", b"26").await; // at/after the exclusive upper bound `m`
	let tx = tree.begin().unwrap();
	let mut it = tx.range(b"a", b"m").unwrap();
	assert!(it.seek_first().unwrap());
	assert_eq!(it.key().user_key(), b"a");
	assert!(it.next().unwrap());
	assert_eq!(it.key().user_key(), b"b");
	assert!(!it.next().unwrap(), "ran off the end");
	// only seek operations from here on (C09's quantifier)
	assert!(it.seek_last().unwrap(), "D26: seek_last() after running off the end reports an empty range");
	assert_eq!(it.key().user_key(), b"b");
}

// D27: Transaction::commit takes the write-set before the store commit; when that fails (here: write conflict) the
// transaction stays open with an EMPTY write-set: a second commit() reports Ok(()) although nothing was written, and reads
// no longer see the transaction's own pending writes.
#[tokio::test(flavor = "multi_thread")]
async fn d27_second_commit_after_failed_commit_reports_success() {
	let d = td();
	let opts = mk_opts(d.path().to_path_buf(), |_| {});
	let tree = Tree::new(Arc::clone(&opts)).unwrap();
	put(&tree, b"k", b"v0").await;
	let mut loser = tree.begin().unwrap();
	loser.set(b"k", b"from-loser").unwrap();
	put(&tree, b"k", b"from-winner").await; // commits after `loser` began
	let first = loser.commit().await;
	assert!(first.is_err(), "precondition: write-write conflict");
	let second = loser.commit().await;
	assert!(second.is_err(), "D27: second commit() of a transaction whose commit failed returned Ok(()) -- nothing was written");
	assert_eq!(tree.begin().unwrap().get(b"k").unwrap().as_deref(), Some(&b"from-winner"[..]));
}

fn d29_copy_dir(src: &std::path::Path, dst: &std::path::Path) {
	std::fs::create_dir_all(dst).unwrap();
	for e in std::fs::read_dir(src).unwrap() {
		let e = e.unwrap();
		let p = e.path();
		let q = dst.join(e.file_name());
		if p.is_dir() {
			d29_copy_dir(&p, &q);
		} else if e.file_name() != "LOCK" {
			std::fs::copy(&p, &q).unwrap();
		}
	}
}

// D29: when one WAL segment does not fit one recovery memtable (smaller max_memtable_size at reopen, or skiplist height
// randomness at the capacity limit), replay_wal splits it into two memtables that both carry the segment's id.  Recovery
// flushes the first with log_number = segment + 1 while the second half lives only in memory and the writer keeps appending
// to the same segment: after the next crash that segment is skipped -- acknowledged commits are lost.
#[tokio::test(flavor = "multi_thread")]
async fn d29_split_segment_recovery_loses_the_second_half() {
	let d = td();
	let big = mk_opts(d.path().to_path_buf(), |o| { o.max_memtable_size = 1 << 20; o.flush_on_close = false; });
	let val = vec![b'x'; 1024];
	let n = 600usize; // ~600 KiB in ONE segment, no rotation with a 1 MiB memtable
	{
		let t = Tree::new(Arc::clone(&big)).unwrap();
		for i in 0..n {
			put(&t, format!("key-{i:05}").as_bytes(), &val).await;
		}
		t.flush_wal(true).unwrap();
		// crash image 1
		let img1 = td();
		d29_copy_dir(d.path(), img1.path());
		drop(t);
		// generation 2: reopen the image with a smaller (valid) memtable size -> the segment is split during replay
		let small = mk_opts(img1.path().to_path_buf(), |o| { o.max_memtable_size = 256 << 10; o.flush_on_close = false; });
		let t2 = Tree::new(Arc::clone(&small)).unwrap();
		for i in 0..n {
			assert!(t2.begin().unwrap().get(format!("key-{i:05}").as_bytes()).unwrap().is_some(), "precondition: generation 2 sees key {i}");
		}
		put(&t2, b"after-recovery", b"acknowledged").await;
		t2.flush_wal(true).unwrap();
		// crash image 2 (process crash model: all completed writes kept)
		let img2 = td();
		d29_copy_dir(img1.path(), img2.path());
		drop(t2);
		let again = mk_opts(img2.path().to_path_buf(), |o| { o.max_memtable_size = 256 << 10; o.flush_on_close = false; });
		let t3 = Tree::new(Arc::clone(&again)).unwrap();
		let lost: Vec<usize> = (0..n).filter(|i| t3.begin().unwrap().get(format!("key-{i:05}").as_bytes()).unwrap().is_none()).collect();
		let late = t3.begin().unwrap().get(b"after-recovery").unwrap();
		assert!(lost.is_empty() && late.is_some(), "D29: after the second crash {} of {} recovered commits are gone (first: {:?}); commit made after recovery present: {}",
			lost.len(), n, lost.first(), late.is_some());
	}
}

// D28: with a timestamp window the history cursor skips versions ABOVE the window before it records hard-delete /
// replace barriers: versions that a later hard delete erased are listed by a windowed history scan, and are no longer
// listed once compaction has physically dropped them (the answer depends on compaction).
#[tokio::test(flavor = "multi_thread")]
async fn d28_windowed_history_ignores_barrier_above_the_window() {
	use crate::transaction::{HistoryOptions, WriteOptions};
	let d = td();
	let opts = mk_opts(d.path().to_path_buf(), |o| { o.enable_versioning = true; o.enable_vlog = true; o.vlog_value_threshold = 0; });
	let tree = Tree::new(Arc::clone(&opts)).unwrap();
	{
		let mut tx = tree.begin().unwrap();
		tx.set_at(b"k", b"v10", 10).unwrap();
		tx.commit().await.unwrap();
	}
	{
		let mut tx = tree.begin().unwrap();
		tx.delete_with_options(b"k", &WriteOptions::default().with_timestamp(Some(30))).unwrap(); // hard delete @30
		tx.commit().await.unwrap();
	}
	let tx = tree.begin().unwrap();
	// unfiltered history and the point-in-time read agree: k is erased
	let mut all = tx.history(b"k", b"l").unwrap();
	assert!(!all.seek_first().unwrap(), "precondition: the unfiltered history lists nothing for the erased key");
	assert_eq!(tx.get_at(b"k", 20).unwrap(), None, "precondition: get_at sees the erased key as absent");
	let ho = HistoryOptions { include_tombstones: false, ts_range: Some((5, 20)), limit: None };
	let mut win = tx.history_with_options(b"k", b"l", &ho).unwrap();
	let listed = win.seek_first().unwrap();
	assert!(!listed, "D28: history(ts 5..20) lists a version that the hard delete at ts 30 erased");
}

// D30: a commit whose apply (or WAL write) fails returns at once and gives its semaphore permit back, but its queue slot
// is only freed when publish() can dequeue it, i.e. after every EARLIER batch has been applied.  While one earlier commit
// is slow in apply, seven failing commits leave seven occupied slots behind; the next commit is admitted by the semaphore
// and panics in enqueue ("commit queue overflow - should not be reached").
mod d30 {
	use std::sync::atomic::{AtomicBool, AtomicU64, Ordering};
	use std::sync::Arc;

	use crate::batch::Batch;
	use crate::commit::{CommitEnv, CommitPipeline};
	use crate::error::{Error, Result};
	use crate::InternalKeyKind;

	struct StallProvider;
	impl crate::stall::WriteStallCountProvider for StallProvider {
		fn get_stall_counts(&self) -> crate::stall::StallCounts {
			crate::stall::StallCounts { immutable_memtables: 0, l0_files: 0 }
		}
	}

	struct Env {
		release_slow: AtomicBool,
		slow_started: AtomicBool,
	}
	impl CommitEnv for Env {
		fn write(&self, batch: &Batch, seq_num: u64, _sync: bool) -> Result<Batch> {
			let mut nb = Batch::new(seq_num);
			for e in batch.entries() {
				nb.add_record(e.kind, e.key.clone(), e.value.clone(), e.timestamp)?;
			}
			Ok(nb)
		}
		fn apply(&self, batch: &Batch) -> Result<()> {
			let slow = batch.entries().iter().any(|e| e.key.starts_with(b"slow"));
			if slow {
				self.slow_started.store(true, Ordering::SeqCst);
				while !self.release_slow.load(Ordering::SeqCst) {
					std::thread::sleep(std::time::Duration::from_millis(5));
				}
				Ok(())
			} else {
				Err(Error::CommitFail("injected apply failure".into()))
			}
		}
		fn check_background_error(&self) -> Result<()> {
			Ok(())
		}
		fn oldest_active_start_seq(&self) -> u64 {
			0
		}
	}

	fn one(key: &str) -> Batch {
		let mut b = Batch::new(0);
		b.add_record(InternalKeyKind::Set, key.as_bytes().to_vec(), Some(b"v".to_vec()), 0).unwrap();
		b
	}

	#[tokio::test(flavor = "multi_thread", worker_threads = 4)]
	async fn d30_failed_commits_behind_a_slow_one_overflow_the_queue() {
		let env = Arc::new(Env { release_slow: AtomicBool::new(false), slow_started: AtomicBool::new(false) });
		let provider: Arc<dyn crate::stall::WriteStallCountProvider> = Arc::new(StallProvider);
		let stall = Arc::new(crate::stall::WriteStallController::new(provider, crate::stall::StallThresholds { memtable_limit: 2, l0_file_limit: 12 }));
		let p = Arc::new(CommitPipeline::new(Arc::clone(&env) as Arc<dyn CommitEnv>, Arc::new(AtomicU64::new(0)), stall));
		let p1 = Arc::clone(&p);
		let slow = tokio::spawn(async move { p1.commit(one("slow"), false, 0).await });
		while !env.slow_started.load(Ordering::SeqCst) {
			tokio::time::sleep(std::time::Duration::from_millis(5)).await;
		}
		// the slow commit holds 1 of 8 permits and slot 0; every commit below fails in apply and must simply return Err
		let p2 = Arc::clone(&p);
		let failing = tokio::spawn(async move {
			for i in 0..12 {
				let r = p2.commit(one(&format!("k{i}")), false, 0).await;
				assert!(r.is_err());
			}
		});
		// the slow apply finishes a little later (with the repaired pipeline the failing commits wait for their slot to be
		// dequeued behind it, so it must not be held until they are done)
		let env2 = Arc::clone(&env);
		tokio::spawn(async move {
			tokio::time::sleep(std::time::Duration::from_millis(300)).await;
			env2.release_slow.store(true, Ordering::SeqCst);
		});
		let res = tokio::time::timeout(std::time::Duration::from_secs(20), failing).await.expect("D30: commits did not return");
		let _ = slow.await;
		assert!(res.is_ok(), "D30: a failing commit behind a slow one panicked instead of returning an error: {:?}", res.err());
	}
}

// D31: lost wake-up in the memtable flush task.  wake_up_memtable() skips the notify while `memtable_running` is set; the
// task checks has_pending_immutables() and only LATER clears `memtable_running`.  Rotations that fall into that window
// leave immutable memtables queued with no wake-up pending; with two of them the write stall never ends.
mod d31 {
	use std::sync::atomic::{AtomicBool, AtomicUsize, Ordering};
	use std::sync::Arc;
	use std::time::Duration;

	use crate::compaction::CompactionStrategy;
	use crate::error::{BackgroundErrorHandler, Result};
	use crate::lsm::CompactionOperations;
	use crate::task::TaskManager;
	use crate::Options;

	struct StallProvider;
	impl crate::stall::WriteStallCountProvider for StallProvider {
		fn get_stall_counts(&self) -> crate::stall::StallCounts {
			crate::stall::StallCounts { immutable_memtables: 0, l0_files: 0 }
		}
	}

	struct Core {
		flushes: AtomicUsize,
		pending: AtomicUsize,
		in_check: AtomicBool,
		release_check: AtomicBool,
		eh: Arc<BackgroundErrorHandler>,
	}
	impl CompactionOperations for Core {
		fn compact_memtable(&self) -> Result<()> {
			self.flushes.fetch_add(1, Ordering::SeqCst);
			let _ = self.pending.fetch_update(Ordering::SeqCst, Ordering::SeqCst, |p| Some(p.saturating_sub(1)));
			Ok(())
		}
		fn compact(&self, _s: Arc<dyn CompactionStrategy>) -> Result<()> {
			Ok(())
		}
		fn error_handler(&self) -> Arc<BackgroundErrorHandler> {
			Arc::clone(&self.eh)
		}
		fn has_pending_immutables(&self) -> bool {
			// what the real implementation returns at this instant ...
			let answer = self.pending.load(Ordering::SeqCst) > 0;
			// ... and the schedule point: the test thread rotates twice right after this check
			self.in_check.store(true, Ordering::SeqCst);
			while !self.release_check.load(Ordering::SeqCst) {
				std::thread::sleep(Duration::from_millis(2));
			}
			answer
		}
	}

	#[tokio::test(flavor = "multi_thread", worker_threads = 4)]
	async fn d31_rotations_between_pending_check_and_running_clear_are_never_flushed() {
		let core = Arc::new(Core {
			flushes: AtomicUsize::new(0),
			pending: AtomicUsize::new(1),
			in_check: AtomicBool::new(false),
			release_check: AtomicBool::new(false),
			eh: Arc::new(BackgroundErrorHandler::new()),
		});
		let provider: Arc<dyn crate::stall::WriteStallCountProvider> = Arc::new(StallProvider);
		let stall = Arc::new(crate::stall::WriteStallController::new(provider, crate::stall::StallThresholds { memtable_limit: 2, l0_file_limit: 12 }));
		let tm = TaskManager::new(Arc::clone(&core) as Arc<dyn CompactionOperations>, Arc::new(Options::default()), stall);
		tm.wake_up_memtable(); // first rotation: one immutable pending
		while !core.in_check.load(Ordering::SeqCst) {
			tokio::time::sleep(Duration::from_millis(2)).await;
		}
		// the task has flushed it and evaluated has_pending_immutables() == false, but has not cleared `running` yet.
		// Two more rotations happen now (this is what rotate_memtable + wake_up_memtable do):
		core.pending.fetch_add(2, Ordering::SeqCst);
		tm.wake_up_memtable();
		tm.wake_up_memtable();
		core.release_check.store(true, Ordering::SeqCst);
		// nothing else will ever wake the task: stalled writers wait for a flush
		tokio::time::sleep(Duration::from_millis(800)).await;
		let left = core.pending.load(Ordering::SeqCst);
		tm.stop().await;
		assert_eq!(left, 0, "D31: {left} immutable memtable(s) stay queued with no wake-up pending (flushes run: {})", core.flushes.load(Ordering::SeqCst));
	}
}

// D32: restore hard-links the checkpoint's WAL segment into the live directory; the store then appends to that inode, i.e.
// it writes into the checkpoint.  Restoring the same checkpoint a second time brings back commits made after the first
// restore.
#[tokio::test(flavor = "multi_thread")]
async fn d32_restore_hard_links_the_wal_into_the_checkpoint() {
	let d = td();
	let ck = td();
	let opts = mk_opts(d.path().to_path_buf(), |_| {});
	let tree = Tree::new(Arc::clone(&opts)).unwrap();
	put(&tree, b"a", b"1").await;
	tree.create_checkpoint(ck.path()).unwrap();
	{
		// the checkpoint is inspected once by opening it as a store (read only use), then closed
		let ck_opts = mk_opts(ck.path().to_path_buf(), |_| {});
		let ck_tree = Tree::new(ck_opts).unwrap();
		assert_eq!(ck_tree.begin().unwrap().get(b"a").unwrap().as_deref(), Some(&b"1"[..]));
		ck_tree.close().await.unwrap();
	}
	let wal_bytes_before: u64 = std::fs::read_dir(ck.path().join("wal")).map(|rd| rd.filter_map(|e| e.ok()).map(|e| e.metadata().unwrap().len()).sum()).unwrap_or(0);
	tree.restore_from_checkpoint(ck.path()).unwrap();
	put(&tree, b"after-restore", b"x").await;
	tree.flush_wal(true).unwrap();
	let wal_bytes_after: u64 = std::fs::read_dir(ck.path().join("wal")).map(|rd| rd.filter_map(|e| e.ok()).map(|e| e.metadata().unwrap().len()).sum()).unwrap_or(0);
	assert_eq!(wal_bytes_before, wal_bytes_after, "D32: a commit made after the restore was written into the CHECKPOINT's wal directory");
	tree.restore_from_checkpoint(ck.path()).unwrap();
	assert_eq!(tree.begin().unwrap().get(b"after-restore").unwrap(), None, "D32: second restore of the same checkpoint brings back a post-restore commit");
}

// D33: checkpointing twice into the same directory.  The second run finds every table already hard-linked there:
// fs::hard_link fails with EEXIST and the fallback fs::copy(src, dst) opens dst -- a link to the SAME inode as src -- with
// O_TRUNC.  The live table is truncated to zero bytes.
#[tokio::test(flavor = "multi_thread")]
async fn d33_second_checkpoint_into_the_same_directory_truncates_live_tables() {
	let d = td();
	let ck = td();
	let opts = mk_opts(d.path().to_path_buf(), |o| o.flush_on_close = false);
	{
		let tree = Tree::new(Arc::clone(&opts)).unwrap();
		for i in 0..50 {
			put(&tree, format!("key-{i:03}").as_bytes(), b"value").await;
		}
		tree.create_checkpoint(ck.path()).unwrap();
		let sizes = |p: &std::path::Path| -> Vec<u64> {
			let mut v: Vec<u64> = std::fs::read_dir(p.join("sstables")).unwrap().filter_map(|e| e.ok()).map(|e| e.metadata().unwrap().len()).collect();
			v.sort();
			v
		};
		let before = sizes(d.path());
		tree.create_checkpoint(ck.path()).unwrap(); // periodic checkpoint into the same place
		let after = sizes(d.path());
		assert_eq!(before, after, "D33: the second checkpoint changed the size of LIVE table files");
		tree.close().await.unwrap();
	}
	let tree = Tree::new(Arc::clone(&opts)).expect("D33: the store cannot be reopened after the second checkpoint");
	for i in 0..50 {
		assert!(tree.begin().unwrap().get(format!("key-{i:03}").as_bytes()).unwrap().is_some(), "D33: key {i} lost");
	}
}

// D34: the WAL writer is opened (CoreInner::new) before the replay/repair step, and opening a writer on an existing segment
// parses the first record's type byte with `?` (detect_compression_type).  Damage to that one byte makes Tree::new fail
// even in the tolerant recovery mode, whose contract is to repair (cut the log at the first bad record) and open.
#[tokio::test(flavor = "multi_thread")]
async fn d34_damaged_first_type_byte_fails_open_in_tolerant_mode() {
	let d = td();
	let opts = mk_opts(d.path().to_path_buf(), |o| o.flush_on_close = false);
	{
		let t = Tree::new(Arc::clone(&opts)).unwrap();
		put(&t, b"k1", b"v1").await;
		put(&t, b"k2", b"v2").await;
		t.close().await.unwrap();
	}
	let wal_dir = d.path().join("wal");
	let seg = std::fs::read_dir(&wal_dir).unwrap().filter_map(|e| e.ok()).map(|e| e.path()).find(|p| p.extension().map(|x| x == "wal").unwrap_or(false)).expect("a WAL segment");
	let mut bytes = std::fs::read(&seg).unwrap();
	assert!(bytes.len() > 7);
	bytes[6] = 0xff; // type byte of the first physical record
	std::fs::write(&seg, &bytes).unwrap();
	assert_eq!(opts.wal_recovery_mode, crate::WalRecoveryMode::TolerateCorruptedWithRepair, "precondition: default mode is the tolerant one");
	let r = Tree::new(Arc::clone(&opts));
	assert!(r.is_ok(), "D34: open fails in TolerateCorruptedWithRepair mode on a single damaged byte: {:?}", r.err());
}

// D35: a table written without a filter (filter_policy = None) cannot be opened by a store configured WITH a filter policy:
// Table::read_filter_block seeks "filter.<name>" in the meta index, lands on the next entry ("meta") and asserts that the
// key is the filter's.  The reopen panics.
#[tokio::test(flavor = "multi_thread")]
async fn d35_table_without_filter_panics_on_reopen_with_filter_policy() {
	let d = td();
	{
		let mut o = Options { path: d.path().to_path_buf(), ..Default::default() };
		o.filter_policy = None;
		let t = Tree::new(Arc::new(o)).unwrap();
		put(&t, b"k", b"v").await;
		t.flush().unwrap();
		t.close().await.unwrap();
	}
	let p = d.path().to_path_buf();
	let r = std::panic::catch_unwind(move || {
		let o = Options { path: p, ..Default::default() }; // default: bloom filter policy
		Tree::new(Arc::new(o)).map(|_| ())
	});
	assert!(r.is_ok(), "D35: reopening with the default filter policy PANICS on a table that was written without a filter");
	assert!(r.unwrap().is_ok(), "D35: reopening fails");
}

// D36: the WAL clean-up scheduled by a flush captures its bound (`flushed wal_number + 1`) when it is SPAWNED.  If a restore
// rewinds the WAL numbering before the task runs, the stale task deletes the rewound, now ACTIVE segment: commits made
// after the restore go to an unlinked file and are gone at the next open.  Deterministic on a current-thread runtime.
#[tokio::test]
async fn d36_stale_wal_cleanup_task_deletes_the_active_segment_after_restore() {
	let d = td();
	let ck = td();
	let opts = mk_opts(d.path().to_path_buf(), |o| o.flush_on_close = false);
	let tree = Tree::new(Arc::clone(&opts)).unwrap();
	put(&tree, b"k1", b"v1").await;
	tree.flush().unwrap();
	tree.create_checkpoint(ck.path()).unwrap();
	for i in 0..4 {
		put(&tree, format!("later-{i}").as_bytes(), b"x").await;
		tree.flush().unwrap(); // the last flush's clean-up task is spawned but has not run yet (nothing awaited since)
	}
	tree.restore_from_checkpoint(ck.path()).unwrap(); // synchronous: the stale task is still pending
	put(&tree, b"after-restore", b"acknowledged").await;
	tree.flush_wal(true).unwrap();
	tokio::task::yield_now().await;
	// crash image
	let img = td();
	d29_copy_dir(d.path(), img.path());
	let t2 = Tree::new(mk_opts(img.path().to_path_buf(), |o| o.flush_on_close = false)).unwrap();
	assert_eq!(t2.begin().unwrap().get(b"k1").unwrap().as_deref(), Some(&b"v1"[..]));
	assert_eq!(t2.begin().unwrap().get(b"after-restore").unwrap().as_deref(), Some(&b"acknowledged"[..]),
		"D36: the commit acknowledged after the restore is gone (its WAL segment was deleted by a clean-up task of the discarded timeline)");
}

// D37: a transaction may hold several pending versions of one key (explicit timestamps); commit writes them all.  get_at()
// looks only at the LAST issued one: a time-travel read inside the transaction ignores an older pending version that is the
// right answer, or returns a pending version although a newer pending one is <= T.
#[tokio::test(flavor = "multi_thread")]
async fn d37_get_at_ignores_all_but_the_last_pending_version() {
	let d = td();
	let opts = mk_opts(d.path().to_path_buf(), |o| { o.enable_versioning = true; o.enable_vlog = true; o.vlog_value_threshold = 0; });
	let tree = Tree::new(Arc::clone(&opts)).unwrap();
	let mut tx = tree.begin().unwrap();
	tx.set_at(b"k", b"v10", 10).unwrap();
	tx.set_at(b"k", b"v20", 20).unwrap();
	let inside = tx.get_at(b"k", 15).unwrap();
	tx.commit().await.unwrap();
	let after = tree.begin().unwrap().get_at(b"k", 15).unwrap();
	assert_eq!(after.as_deref(), Some(&b"v10"[..]), "precondition: after commit the version at ts 15 is v10");
	assert_eq!(inside, after, "D37: get_at(k, 15) inside the transaction does not reflect its own pending version @10");
}

// D39 (probe): with the B+tree version index, a flush writes the index entries first and removes the memtable from the
// immutable queue later; a history scan in between merges both sources.  Are versions listed twice?
#[tokio::test(flavor = "multi_thread", worker_threads = 4)]
async fn d39_history_during_flush_lists_versions_twice() {
	let d = td();
	let opts = mk_opts(d.path().to_path_buf(), |o| {
		o.enable_versioning = true;
		o.enable_versioned_index = true;
		o.enable_vlog = true;
		o.vlog_value_threshold = 0;
	});
	let tree = Tree::new(Arc::clone(&opts)).unwrap();
	let n = 3000usize;
	for i in 0..n {
		let mut tx = tree.begin().unwrap();
		tx.set_at(format!("k{:05}", i % 50).as_bytes(), format!("v{i}").as_bytes(), 1000 + i as u64).unwrap();
		tx.commit().await.unwrap();
	}
	let t2 = tree.clone();
	let flusher = tokio::task::spawn_blocking(move || {
		t2.flush().unwrap();
	});
	let mut worst = 0usize;
	let mut scans = 0usize;
	while !flusher.is_finished() || scans < 3 {
		let tx = tree.begin().unwrap();
		let mut it = tx.history(b"k", b"l").unwrap();
		let mut count = 0usize;
		let mut ok = it.seek_first().unwrap();
		while ok {
			count += 1;
			ok = it.next().unwrap();
		}
		worst = worst.max(count);
		scans += 1;
		if scans > 2000 { break; }
	}
	flusher.await.unwrap();
	assert!(worst <= n, "D39: a history scan during the flush listed {worst} versions although only {n} exist ({scans} scans)");
}

// D7b: the torn tail is the ONLY content of the last segment (crash during the first record after a rotation): replay finds
// no complete batch there.  The writer must still not append behind the stray bytes.
#[tokio::test(flavor = "multi_thread")]
async fn d7b_torn_first_record_of_a_fresh_segment() {
	let d = td();
	let opts = mk_opts(d.path().to_path_buf(), |o| o.flush_on_close = false);
	{
		let tree = Tree::new(Arc::clone(&opts)).unwrap();
		put(&tree, b"k1", b"v1").await;
		tree.flush().unwrap(); // rotates: the active segment is fresh
		tree.close().await.unwrap();
	}
	{
		use std::io::Write;
		let p = last_wal(&opts);
		let mut f = std::fs::OpenOptions::new().append(true).open(&p).unwrap();
		f.write_all(&[0xde, 0xad, 0xbe]).unwrap(); // 3 bytes of a header that never completed
		f.sync_all().unwrap();
	}
	{
		let tree = Tree::new(Arc::clone(&opts)).unwrap();
		put(&tree, b"k2", b"v2").await;
		tree.flush_wal(true).unwrap();
		tree.close().await.unwrap();
	}
	let tree = Tree::new(Arc::clone(&opts)).unwrap();
	let tx = tree.begin().unwrap();
	assert_eq!(tx.get(b"k1").unwrap().as_deref(), Some(&b"v1"[..]));
	assert_eq!(tx.get(b"k2").unwrap().as_deref(), Some(&b"v2"[..]), "D7b: commit acknowledged after recovery from a torn first record is lost");
}

// D11c: model check of the overlay cursors across reversals. For many small (committed, pending) key sets the range
// cursor must walk the merged key list like an index into it, whatever sequence of next()/prev() is issued; the
// history cursor must walk the list its own forward scan produces.
#[tokio::test(flavor = "multi_thread")]
async fn d11c_overlay_cursors_follow_the_model_across_reversals() {
	use std::collections::BTreeMap;
	let mut rng: u64 = 0x9e3779b97f4a7c15;
	let mut rnd = move |n: u64| {
		rng = rng.wrapping_mul(6364136223846793005).wrapping_add(1442695040888963407);
		(rng >> 33) % n
	};
	let keys: Vec<Vec<u8>> = (b'a'..=b'h').map(|c| vec![c]).collect();
	for round in 0..120 {
		let d = td();
		let opts = mk_opts(d.path().to_path_buf(), |o| { o.enable_versioning = true; o.enable_vlog = true; o.vlog_value_threshold = 0; });
		let tree = Tree::new(Arc::clone(&opts)).unwrap();
		let mut model: BTreeMap<Vec<u8>, Vec<u8>> = BTreeMap::new();
		for k in &keys {
			if rnd(2) == 0 {
				put(&tree, k, b"snap").await;
				model.insert(k.clone(), b"snap".to_vec());
			}
		}
		if round % 3 == 0 {
			tree.flush().unwrap();
		}
		let mut tx = tree.begin().unwrap();
		for k in &keys {
			match rnd(4) {
				0 => {
					tx.set(k, b"ws").unwrap();
					model.insert(k.clone(), b"ws".to_vec());
				}
				1 => {
					tx.delete(k).unwrap();
					model.remove(k);
				}
				_ => {}
			}
		}
		let want: Vec<Vec<u8>> = model.keys().cloned().collect();
		// range cursor against the BTreeMap model
		for prog in 0..6 {
			let mut it = tx.range(&b"a"[..], &b"z"[..]).unwrap();
			let mut trace = String::new();
			let (mut ok, mut i): (bool, i64) = if prog % 2 == 0 {
				trace.push_str("first ");
				(it.seek_first().unwrap(), 0)
			} else {
				trace.push_str("last ");
				(it.seek_last().unwrap(), want.len() as i64 - 1)
			};
			for _ in 0..14 {
				let expect = i >= 0 && (i as usize) < want.len();
				assert_eq!(ok, expect, "D11c range round {round}: validity after `{trace}` (model {want:?})");
				if !ok {
					break;
				}
				assert_eq!(
					it.key().user_key(),
					want[i as usize].as_slice(),
					"D11c range round {round}: key after `{trace}` (model {:?})",
					want.iter().map(|k| String::from_utf8_lossy(k).to_string()).collect::<Vec<_>>()
				);
				assert_eq!(it.value().unwrap(), model[&want[i as usize]], "D11c range round {round}: value after `{trace}`");
				if rnd(2) == 0 {
					trace.push_str("next ");
					ok = it.next().unwrap();
					i += 1;
				} else {
					trace.push_str("prev ");
					ok = it.prev().unwrap();
					i -= 1;
				}
			}
		}
		// history cursor against its own forward scan
		let mut fwd: Vec<(Vec<u8>, u64, bool)> = Vec::new();
		{
			let mut it = tx.history(&b"a"[..], &b"z"[..]).unwrap();
			let mut ok = it.seek_first().unwrap();
			while ok {
				fwd.push((it.key().user_key().to_vec(), it.key().timestamp(), it.key().is_tombstone()));
				ok = it.next().unwrap();
			}
		}
		for prog in 0..6 {
			let mut it = tx.history(&b"a"[..], &b"z"[..]).unwrap();
			let mut trace = String::new();
			let (mut ok, mut i): (bool, i64) = if prog % 2 == 0 {
				trace.push_str("first ");
				(it.seek_first().unwrap(), 0)
			} else {
				trace.push_str("last ");
				(it.seek_last().unwrap(), fwd.len() as i64 - 1)
			};
			for _ in 0..14 {
				let expect = i >= 0 && (i as usize) < fwd.len();
				assert_eq!(ok, expect, "D11c history round {round}: validity after `{trace}` (forward scan {fwd:?})");
				if !ok {
					break;
				}
				let got = (it.key().user_key().to_vec(), it.key().timestamp(), it.key().is_tombstone());
				assert_eq!(got, fwd[i as usize], "D11c history round {round}: entry after `{trace}` (forward scan {fwd:?})");
				if rnd(2) == 0 {
					trace.push_str("next ");
					ok = it.next().unwrap();
					i += 1;
				} else {
					trace.push_str("prev ");
					ok = it.prev().unwrap();
					i -= 1;
				}
			}
		}
		drop(tx);
		tree.close().await.unwrap();
	}
}

// D40: an inverted range over a level with several disjoint tables panics in the k-way merge constructor
#[tokio::test(flavor = "multi_thread")]
async fn d40_inverted_range_over_disjoint_l1_tables_panics() {
	let d = td();
	let opts = mk_opts(d.path().to_path_buf(), |o| o.level_count = 3);
	let tree = Tree::new(Arc::clone(&opts)).unwrap();
	for g in [b'a', b'd', b'x'] {
		for i in 0..4u8 {
			put(&tree, &[g, b'0' + i], b"1").await;
			tree.flush().unwrap();
		}
		tree.compact(Arc::new(Strategy::default())).unwrap();
	}
	{
		let m = tree.core.level_manifest.read().unwrap();
		let per_level: Vec<usize> = m.levels.get_levels().iter().map(|l| l.tables.len()).collect();
		println!("D40 tables per level: {per_level:?}");
		assert!(per_level.iter().skip(1).any(|&n| n >= 3), "precondition: a level >= 1 with three disjoint tables");
	}
	let tx = tree.begin().unwrap();
	let r = std::panic::catch_unwind(std::panic::AssertUnwindSafe(|| match tx.range(&b"m"[..], &b"c"[..]) {
		Ok(mut it) => it.seek_first().unwrap_or(false),
		Err(_) => false,
	}));
	assert!(r.is_ok(), "D40: range(m, c) panicked");
	assert!(!r.unwrap(), "D40: an inverted range lists nothing");
	let r = std::panic::catch_unwind(std::panic::AssertUnwindSafe(|| match tx.history(&b"m"[..], &b"c"[..]) {
		Ok(mut it) => it.seek_first().unwrap_or(false),
		Err(_) => false,
	}));
	assert!(r.is_ok(), "D40: history(m, c) panicked");
}

// D41: a crash in the middle of WAL repair leaves wal/repair_temp behind; the next repair appends to the leftover
// instead of starting from an empty file
#[tokio::test(flavor = "multi_thread")]
async fn d41_repair_after_a_crashed_repair_reuses_the_leftover_temp_segment() {
	let d = td();
	let opts = mk_opts(d.path().to_path_buf(), |o| {
		o.flush_on_close = false;
	});
	{
		let tree = Tree::new(Arc::clone(&opts)).unwrap();
		for k in [b"k1", b"k2", b"k3", b"k4"] {
			put(&tree, k, b"v").await;
		}
		tree.close().await.unwrap();
	}
	let p = last_wal(&opts);
	let mut bytes = std::fs::read(&p).unwrap();
	// record boundaries (7-byte header: crc32, len u16 BE, type)
	let mut ends = vec![];
	let mut off = 0usize;
	while off + 7 <= bytes.len() {
		let len = u16::from_be_bytes([bytes[off + 4], bytes[off + 5]]) as usize;
		off += 7 + len;
		ends.push(off);
	}
	assert_eq!(ends.len(), 4, "precondition: four records in the segment ({ends:?}, file {})", bytes.len());
	// what a repair that crashed half-way left behind: record 1 and the beginning of record 2
	let temp = opts.wal_dir().join("repair_temp");
	std::fs::create_dir_all(&temp).unwrap();
	std::fs::write(temp.join(format!("{:020}.wal", 0)), &bytes[..ends[0] + 10]).unwrap();
	// the damage that made the repair necessary: a flipped payload byte in record 3
	bytes[ends[1] + 9] ^= 0x40;
	std::fs::write(&p, &bytes).unwrap();

	let tree = Tree::new(Arc::clone(&opts)).expect("D41: the store does not open after a repair that follows a crashed repair");
	let tx = tree.begin().unwrap();
	let got: Vec<bool> = [b"k1", b"k2", b"k3", b"k4"].iter().map(|k| tx.get(*k).unwrap().is_some()).collect();
	println!("D41 present after repair: {got:?}");
	assert!(got[0] && got[1], "D41: records lying wholly before the damage are lost by the repair: {got:?}");
	assert!(!got[2] && !got[3], "precondition: the damaged record and what follows are cut off");
}

// D42: Tree::new fails AFTER Core::new succeeded (the final directory fsync returns an error): the `Core` value is just
// dropped, the background tasks keep Arc<CoreInner> alive and the directory lock is never released
#[tokio::test(flavor = "multi_thread")]
async fn d42_open_that_fails_in_the_final_directory_sync_leaks_the_lock() {
	let d = td();
	let opts = mk_opts(d.path().to_path_buf(), |o| o.flush_on_close = false);
	// a table directory whose fsync fails (EINVAL on sysfs) although it can be listed
	std::fs::create_dir_all(d.path()).unwrap();
	let sst = opts.sstable_dir();
	std::os::unix::fs::symlink("/sys/kernel", &sst).unwrap();
	let r1 = Tree::new(Arc::clone(&opts));
	let e = match r1 {
		Ok(_) => panic!("precondition: the open fails in the directory sync"),
		Err(e) => e.to_string(),
	};
	assert!(e.contains("Failed to sync SSTable directory"), "precondition: the open fails in the FINAL directory sync, got: {e}");
	// the cause goes away; no store is open on the directory
	std::fs::remove_file(&sst).unwrap();
	let mut last = String::new();
	for _ in 0..50 {
		match Tree::new(Arc::clone(&opts)) {
			Ok(t) => {
				t.close().await.unwrap();
				return;
			}
			Err(e) => last = e.to_string(),
		}
		tokio::time::sleep(std::time::Duration::from_millis(100)).await;
	}
	panic!("D42: directory still locked 5 s after a FAILED open: {last}");
}

// D43: among committed versions of a key with the SAME timestamp, get_at returns the one committed FIRST: it scans
// newest-first and replaces its candidate on `>=`.  `set k@10; soft-delete k@10` reads back the deleted value at T = 10,
// and `set k@10 = A; set k@10 = B` reads A although get() and the history (newest first) say B.
#[tokio::test(flavor = "multi_thread")]
async fn d43_get_at_with_equal_timestamps_returns_the_overwritten_version() {
	use crate::transaction::WriteOptions;
	for with_index in [false, true] {
		for flush_between in [false, true] {
			let d = td();
			let opts = mk_opts(d.path().to_path_buf(), |o| {
				o.enable_versioning = true;
				o.enable_vlog = true;
				o.vlog_value_threshold = 0;
				o.enable_versioned_index = with_index;
			});
			let tree = Tree::new(Arc::clone(&opts)).unwrap();
			{
				let mut tx = tree.begin().unwrap();
				tx.set_at(b"k", b"A", 10).unwrap();
				tx.set_at(b"d", b"old", 10).unwrap();
				tx.commit().await.unwrap();
			}
			if flush_between {
				tree.flush().unwrap();
			}
			{
				let mut tx = tree.begin().unwrap();
				tx.set_at(b"k", b"B", 10).unwrap();
				tx.soft_delete_with_options(b"d", &WriteOptions::default().with_timestamp(Some(10))).unwrap();
				tx.commit().await.unwrap();
			}
			let tx = tree.begin().unwrap();
			assert_eq!(tx.get(b"k").unwrap().as_deref(), Some(&b"B"[..]), "precondition: the current value is B");
			assert_eq!(tx.get(b"d").unwrap(), None, "precondition: d is deleted");
			let k = tx.get_at(b"k", 10).unwrap().map(|v| String::from_utf8_lossy(&v).to_string());
			let dd = tx.get_at(b"d", 10).unwrap().map(|v| String::from_utf8_lossy(&v).to_string());
			println!("D43 index={with_index} flush_between={flush_between}: get_at(k,10)={k:?} get_at(d,10)={dd:?}");
			assert_eq!(dd, None, "D43: index={with_index} flush_between={flush_between}: a key deleted at timestamp 10 reads back its old value at T = 10");
			assert_eq!(k.as_deref(), Some("B"), "D43: index={with_index} flush_between={flush_between}: get_at returns the overwritten version");
		}
	}
}

// D44: a transaction that began BEFORE a restore, with a start sequence above the checkpoint's, is not refused: the
// restore sets kept_since = restored max_seq, its start_seq is not below that, and the post-restore commits carry
// (rewound) sequence numbers below its start_seq, so the conflict check sees nothing.
#[tokio::test(flavor = "multi_thread")]
async fn d44_pre_restore_transaction_commits_over_a_post_restore_write() {
	let d = td();
	let cp = td();
	let opts = mk_opts(d.path().to_path_buf(), |_| {});
	let tree = Tree::new(Arc::clone(&opts)).unwrap();
	put(&tree, b"k", b"v0").await;
	tree.create_checkpoint(cp.path()).unwrap();
	for i in 0..6u8 {
		put(&tree, &[b'x', i], b"later").await;
	}
	// begins on the timeline that is about to be discarded
	let mut stale = tree.begin().unwrap();
	assert_eq!(stale.get(b"k").unwrap().as_deref(), Some(&b"v0"[..]));
	stale.set(b"k", b"from-the-discarded-timeline").unwrap();

	tree.restore_from_checkpoint(cp.path()).unwrap();
	put(&tree, b"k", b"new").await; // committed AFTER `stale` began, same key

	let r = stale.commit().await;
	let now = tree.begin().unwrap().get(b"k").unwrap().map(|v| String::from_utf8_lossy(&v).to_string());
	println!("D44 stale commit -> {:?}; k = {:?}", r.as_ref().map_err(|e| e.to_string()), now);
	assert!(r.is_err(), "D44: a transaction begun before the restore committed over a key written after it began (k = {now:?})");
	assert_eq!(now.as_deref(), Some("new"));
}

// D45: a panic inside a background task (here: a table block size below 8, which Options::validate lets through, makes
// the table writer panic in the flush task) leaves the task's `running` flag set for ever: TaskManager::stop() polls that
// flag without a time limit, so close() never returns.
#[tokio::test(flavor = "multi_thread")]
async fn d45_close_hangs_after_a_background_task_panicked() {
	let d = td();
	let opts = mk_opts(d.path().to_path_buf(), |o| {
		o.block_size = 4;
		o.flush_on_close = false;
	});
	let tree = match Tree::new(Arc::clone(&opts)) {
		Ok(t) => t,
		Err(e) => {
			println!("D45: the open refuses block_size = 4: {e}");
			return;
		}
	};
	for i in 0..20u8 {
		put(&tree, &[b'k', i], b"value").await;
	}
	// hand the memtable to the background flush task
	tree.core.inner.rotate_memtable().unwrap();
	tree.core.task_manager.lock().unwrap().as_ref().unwrap().wake_up_memtable();
	tokio::time::sleep(std::time::Duration::from_millis(500)).await;
	let r = tokio::time::timeout(std::time::Duration::from_secs(5), tree.close()).await;
	assert!(r.is_ok(), "D45: close() did not return within 5 s after the background flush task panicked");
}

// D46: table block sizes below the size of an empty block (8 bytes) make the table writer cut an EMPTY data block on the
// first entry and panic while computing the index separator from an empty last key
#[tokio::test(flavor = "multi_thread")]
async fn d46_tiny_block_size_round_trip() {
	for bs in [1usize, 2, 4, 7, 8, 9, 16] {
		let d = td();
		let opts = mk_opts(d.path().to_path_buf(), |o| o.block_size = bs);
		let tree = Tree::new(Arc::clone(&opts)).unwrap();
		let mut want = vec![];
		for i in 0..40u8 {
			let k = vec![b'k', b'0' + i / 10, b'0' + i % 10];
			put(&tree, &k, &[b'v', i]).await;
			want.push((k, vec![b'v', i]));
		}
		let r = std::panic::catch_unwind(std::panic::AssertUnwindSafe(|| tree.flush()));
		assert!(matches!(r, Ok(Ok(()))), "D46: flush with block_size = {bs} fails: {:?}", r.map(|x| x.map_err(|e| e.to_string())).map_err(|_| "panic"));
		let tx = tree.begin().unwrap();
		for (k, v) in &want {
			assert_eq!(tx.get(k).unwrap().as_deref(), Some(v.as_slice()), "D46: block_size = {bs}: point lookup");
		}
		let mut it = tx.range(&b"k"[..], &b"l"[..]).unwrap();
		let mut got = vec![];
		let mut ok = it.seek_first().unwrap();
		while ok {
			got.push((it.key().user_key().to_vec(), it.value().unwrap()));
			ok = it.next().unwrap();
		}
		assert_eq!(got, want, "D46: block_size = {bs}: forward scan");
		let mut back = vec![];
		let mut ok = it.seek_last().unwrap();
		while ok {
			back.push((it.key().user_key().to_vec(), it.value().unwrap()));
			ok = it.prev().unwrap();
		}
		back.reverse();
		assert_eq!(back, want, "D46: block_size = {bs}: backward scan");
		drop(it);
		drop(tx);
		tree.close().await.unwrap();
	}
}

// D47: the level-compaction task runs ONE compaction per wake-up, and it is woken only by a finished flush (and at
// start-up).  When L0 reaches the stall threshold while another level scores higher, the wake-ups that the last flushes
// produced are spent on that other level; the stalled writers produce no further flush, nothing wakes the task again,
// and L0 -- the reason for the stall -- is never compacted: commit() hangs.
#[tokio::test(flavor = "multi_thread")]
async fn d47_l0_stall_is_never_lifted_when_another_level_scores_higher() {
	let d = td();
	let counts = |tree: &Tree| -> Vec<usize> {
		let m = tree.core.level_manifest.read().unwrap();
		m.levels.get_levels().iter().map(|l| l.tables.len()).collect()
	};
	// built with roomy options: five disjoint tables in L1
	{
		let opts = mk_opts(d.path().to_path_buf(), |o| o.level_count = 4);
		let tree = Tree::new(Arc::clone(&opts)).unwrap();
		let big = vec![b'v'; 2048];
		for g in [b'a', b'd', b'g', b'p', b'x'] {
			for i in 0..4u8 {
				put(&tree, &[g, b'0' + i], &big).await;
				tree.flush().unwrap();
			}
			tree.compact(Arc::new(Strategy::default())).unwrap();
		}
		assert_eq!(counts(&tree)[..2], [0, 5], "precondition: L0 empty, five tables in L1");
		tree.close().await.unwrap();
	}
	// reopened with a small L1 budget (options are not persisted): L1 scores far above 1
	let opts = mk_opts(d.path().to_path_buf(), |o| {
		o.level_count = 4;
		o.level0_max_files = 2;
		o.l0_stall_threshold = 2;
		o.max_bytes_for_level = 1024;
	});
	let tree = Tree::new(Arc::clone(&opts)).unwrap();
	tokio::time::sleep(std::time::Duration::from_millis(300)).await; // the start-up compaction
	// two flushes bring L0 to the stall threshold; each finished flush wakes the level task once
	for i in 0..2u8 {
		put(&tree, &[b'm', b'0' + i], b"v").await;
		tree.flush().unwrap();
		tree.core.task_manager.lock().unwrap().as_ref().unwrap().wake_up_level();
		tokio::time::sleep(std::time::Duration::from_millis(300)).await;
	}
	println!("D47 tables per level after the two flush wake-ups: {:?}", counts(&tree));
	// (on the unrepaired tree L0 is still at the stall threshold here: the wake-ups went to L1)
	let mut tx = tree.begin().unwrap();
	tx.set(b"z", b"v").unwrap();
	let r = tokio::time::timeout(std::time::Duration::from_secs(5), tx.commit()).await;
	println!("D47 tables per level at the end: {:?}", counts(&tree));
	let stalled = r.is_err();
	// (do not leave the store stalled behind: a failing assert would otherwise hang in the runtime's shutdown)
	let _ = tokio::time::timeout(std::time::Duration::from_secs(10), tree.close()).await;
	assert!(!stalled, "D47: commit() still stalled on the L0 file count after 5 s; nothing will ever compact L0");
}

// D48: the block cache hangs off `Options` as an Arc and is keyed by (kind, table id / vlog file id, offset).  Opening a
// checkpoint directory as a database next to the live store with cloned options (the natural way to do it) makes both
// stores share one cache while each issues table ids from its own counter: a read in the checkpoint store is answered
// with a block of the live store's table of the same number -- data that was never in the checkpoint.
#[tokio::test(flavor = "multi_thread")]
async fn d48_checkpoint_opened_next_to_the_live_store_reads_the_live_stores_blocks() {
	let d = td();
	let cp = td();
	let opts = mk_opts(d.path().to_path_buf(), |_| {});
	let live = Tree::new(Arc::clone(&opts)).unwrap();
	put(&live, b"k", b"v1").await;
	live.flush().unwrap(); // table 1
	live.create_checkpoint(cp.path()).unwrap();
	// the live store moves on: a second table, read once (its blocks are cached now)
	put(&live, b"k", b"v2-after-the-checkpoint").await;
	live.flush().unwrap();
	assert_eq!(live.begin().unwrap().get(b"k").unwrap().as_deref(), Some(&b"v2-after-the-checkpoint"[..]));

	// the checkpoint directory opened as a database of its own, same options except for the path
	let mut o2 = (*opts).clone();
	o2.path = cp.path().to_path_buf();
	let snap = Tree::new(Arc::new(o2)).unwrap();
	assert_eq!(snap.begin().unwrap().get(b"k").unwrap().as_deref(), Some(&b"v1"[..]), "precondition: the checkpoint holds v1");
	// it writes two unrelated keys around `k` and flushes: ITS second table
	put(&snap, b"a", b"x").await;
	put(&snap, b"z", b"x").await;
	snap.flush().unwrap();
	let mut got = vec![];
	{
		let tx = snap.begin().unwrap();
		let mut it = tx.range(&b"a"[..], &b"zz"[..]).unwrap();
		let mut ok = it.seek_first().unwrap();
		while ok {
			got.push((String::from_utf8_lossy(it.key().user_key()).to_string(), String::from_utf8_lossy(&it.value().unwrap()).to_string()));
			ok = it.next().unwrap();
		}
	}
	let point = snap.begin().unwrap().get(b"a").unwrap().map(|v| String::from_utf8_lossy(&v).to_string());
	println!("D48 checkpoint store scan: {got:?}; get(a) = {point:?}");
	for (nm, t) in [("live", &live), ("snap", &snap)] {
		let m = t.core.level_manifest.read().unwrap();
		for (li, l) in m.levels.get_levels().iter().enumerate() {
			for tb in &l.tables {
				println!("D48 {nm} L{li} table {} size {}", tb.id, tb.file_size);
			}
		}
	}
	let _ = tokio::time::timeout(std::time::Duration::from_secs(10), snap.close()).await;
	let _ = tokio::time::timeout(std::time::Duration::from_secs(10), live.close()).await;
	let want: Vec<(String, String)> = [("a", "x"), ("k", "v1"), ("z", "x")].iter().map(|(k, v)| (k.to_string(), v.to_string())).collect();
	assert_eq!(got, want, "D48: the checkpoint database answers with blocks cached by the live store");
	assert_eq!(point.as_deref(), Some("x"), "D48: a point read in the checkpoint database is answered from a block the live store cached under the same (table id, offset)");
}


// D50: after a FAILED flush the memtable task clears its flag, finds the failed memtable still queued and notifies
// itself: it retries the failing flush in a tight loop (CPU and log flood) until close().  (A regression introduced by
// the D31 repair, which re-arms the task whenever something is still queued.)
mod d50 {
	use std::sync::atomic::{AtomicUsize, Ordering};
	use std::sync::Arc;

	use crate::compaction::CompactionStrategy;
	use crate::error::{BackgroundErrorHandler, Result};
	use crate::lsm::CompactionOperations;
	use crate::stall::{StallCounts, StallThresholds, WriteStallController, WriteStallCountProvider};
	use crate::task::TaskManager;
	use crate::{Error, Options};

	struct NoStall;
	impl WriteStallCountProvider for NoStall {
		fn get_stall_counts(&self) -> StallCounts {
			StallCounts {
				immutable_memtables: 0,
				l0_files: 0,
			}
		}
	}

	struct AlwaysFailingFlush {
		attempts: AtomicUsize,
		handler: Arc<BackgroundErrorHandler>,
	}

	impl CompactionOperations for AlwaysFailingFlush {
		fn compact_memtable(&self) -> Result<()> {
			self.attempts.fetch_add(1, Ordering::SeqCst);
			Err(Error::Other("disk full".into()))
		}
		fn compact(&self, _s: Arc<dyn CompactionStrategy>) -> Result<()> {
			Ok(())
		}
		fn error_handler(&self) -> Arc<BackgroundErrorHandler> {
			Arc::clone(&self.handler)
		}
		fn has_pending_immutables(&self) -> bool {
			true // the memtable whose flush failed is still queued
		}
	}

	#[tokio::test(flavor = "multi_thread")]
	async fn d50_failed_flush_is_retried_in_a_tight_loop() {
		let core = Arc::new(AlwaysFailingFlush {
			attempts: AtomicUsize::new(0),
			handler: Arc::new(BackgroundErrorHandler::new()),
		});
		let stall = Arc::new(WriteStallController::new(
			Arc::new(NoStall) as Arc<dyn WriteStallCountProvider>,
			StallThresholds {
				memtable_limit: 2,
				l0_file_limit: 12,
			},
		));
		let tm = TaskManager::new(Arc::clone(&core) as Arc<dyn CompactionOperations>, Arc::new(Options::default()), stall);
		tm.wake_up_memtable();
		tokio::time::sleep(std::time::Duration::from_millis(300)).await;
		let n = core.attempts.load(Ordering::SeqCst);
		let _ = tokio::time::timeout(std::time::Duration::from_secs(10), tm.stop()).await;
		println!("D50 flush attempts in 300 ms after one wake-up: {n}");
		assert!(n <= 2, "D50: one wake-up, {n} attempts of a flush that fails every time");
	}
}

// D51: the version index orders its keys by (user key, timestamp) only: two committed versions of a key with the same
// timestamp are ONE B+tree key, the second insert overwrites the first.  `set k@5` and then `soft-delete k@5` (two
// transactions): the history lists both versions while they are in memtables / tables, and only one once the index has
// them -- the two back ends disagree and a retained version is lost.
#[tokio::test(flavor = "multi_thread")]
async fn d51_equal_timestamps_collide_in_the_version_index() {
	use crate::transaction::{HistoryOptions, WriteOptions};
	let mut seen = vec![];
	for with_index in [false, true] {
		let d = td();
		let opts = mk_opts(d.path().to_path_buf(), |o| {
			o.enable_versioning = true;
			o.enable_vlog = true;
			o.vlog_value_threshold = 0;
			o.enable_versioned_index = with_index;
		});
		let tree = Tree::new(Arc::clone(&opts)).unwrap();
		{
			let mut tx = tree.begin().unwrap();
			tx.set_at(b"k", b"v", 5).unwrap();
			tx.commit().await.unwrap();
		}
		{
			let mut tx = tree.begin().unwrap();
			tx.soft_delete_with_options(b"k", &WriteOptions::default().with_timestamp(Some(5))).unwrap();
			tx.commit().await.unwrap();
		}
		let hist = |tree: &Tree| {
			let tx = tree.begin().unwrap();
			let ho = HistoryOptions::new().with_tombstones(true);
			let mut it = tx.history_with_options(&b"k"[..], &b"l"[..], &ho).unwrap();
			let mut v = vec![];
			let mut ok = it.seek_first().unwrap();
			while ok {
				v.push((it.key().timestamp(), it.key().is_tombstone()));
				ok = it.next().unwrap();
			}
			v
		};
		let before = hist(&tree);
		tree.flush().unwrap();
		let after = hist(&tree);
		println!("D51 index={with_index}: before flush {before:?}, after flush {after:?}");
		assert_eq!(before.len(), 2, "precondition: both versions are listed before the flush");
		seen.push(after.clone());
		assert_eq!(after, before, "D51: index={with_index}: the flush changed the history");
		let _ = tokio::time::timeout(std::time::Duration::from_secs(10), tree.close()).await;
	}
	assert_eq!(seen[0], seen[1], "D51: the two back ends disagree");
}

// D52: a transaction larger than the memtable arena fails in apply (CommitFail) AFTER its record was made durable.  When
// that record is the first one of its WAL segment, every later open fails with `Batch too large for memtable`: the store
// cannot reopen the directory it wrote.  (Replay already retries a segment that does not fit with a doubled arena --
// except in this one case, where the memtable is still empty.)
#[tokio::test(flavor = "multi_thread")]
async fn d52_oversized_first_record_makes_the_store_unopenable() {
	let d = td();
	let opts = mk_opts(d.path().to_path_buf(), |o| {
		o.max_memtable_size = 4096;
		o.flush_on_close = false;
	});
	{
		let tree = Tree::new(Arc::clone(&opts)).unwrap();
		let mut tx = tree.begin().unwrap();
		tx.set(b"big", &vec![b'x'; 10_000]).unwrap();
		let r = tx.commit().await;
		println!("D52 oversized commit -> {:?}", r.as_ref().map_err(|e| e.to_string()));
		let _ = tokio::time::timeout(std::time::Duration::from_secs(10), tree.close()).await;
	}
	let r = Tree::new(Arc::clone(&opts));
	println!("D52 reopen -> {:?}", r.as_ref().map(|_| ()).map_err(|e| e.to_string()));
	assert!(r.is_ok(), "D52: the store cannot reopen its own directory: {:?}", r.err().map(|e| e.to_string()));
	let t = r.unwrap();
	tokio::time::timeout(std::time::Duration::from_secs(10), put(&t, b"small", b"v")).await.expect("D52: a small commit after the reopen timed out");
	let _ = tokio::time::timeout(std::time::Duration::from_secs(10), t.close()).await;
}

// D53 (probe): a version NEWER than a replace is dropped by compaction
#[tokio::test(flavor = "multi_thread")]
async fn d53_version_newer_than_a_replace_is_lost_in_compaction() {
	for with_index in [false, true] {
		let d = td();
		let opts = mk_opts(d.path().to_path_buf(), |o| {
			o.enable_versioning = true;
			o.enable_vlog = true;
			o.vlog_value_threshold = 0;
			o.enable_versioned_index = with_index;
			o.level_count = 3;
		});
		let tree = Tree::new(Arc::clone(&opts)).unwrap();
		let hist = |tree: &Tree| {
			let tx = tree.begin().unwrap();
			let mut it = tx.history(&b"k"[..], &b"l"[..]).unwrap();
			let mut v = vec![];
			let mut ok = it.seek_first().unwrap();
			while ok {
				v.push((it.key().timestamp(), String::from_utf8_lossy(&it.value().unwrap()).to_string()));
				ok = it.next().unwrap();
			}
			v
		};
		{
			let mut tx = tree.begin().unwrap();
			tx.set_at(b"k", b"v5", 5).unwrap();
			tx.commit().await.unwrap();
		}
		tree.flush().unwrap();
		{
			let mut tx = tree.begin().unwrap();
			tx.replace(b"k", b"r10").unwrap();
			tx.commit().await.unwrap();
		}
		tree.flush().unwrap();
		let base = hist(&tree).first().map(|x| x.0).unwrap();
		for (i, v) in [b"v20", b"v30"].iter().enumerate() {
			let mut tx = tree.begin().unwrap();
			tx.set_at(b"k", *v, base + 10 * (i as u64 + 1)).unwrap();
			tx.commit().await.unwrap();
			tree.flush().unwrap();
		}
		let before = hist(&tree);
		tree.compact(Arc::new(Strategy::default())).unwrap();
		let after = hist(&tree);
		println!("D53 index={with_index}: before {before:?}\n                      after  {after:?}");
		assert_eq!(before.len(), 3, "precondition: the replace erased v5; r10, v20, v30 are listed");
		assert_eq!(after, before, "D53: index={with_index}: compaction changed the history");
		let _ = tokio::time::timeout(std::time::Duration::from_secs(10), tree.close()).await;
	}
}

// D54 (probe): out-of-order timestamps (allowed with the version index) while the versions are still in a memtable
#[tokio::test(flavor = "multi_thread")]
async fn d54_out_of_order_timestamps_in_a_memtable() {
	use crate::transaction::HistoryOptions;
	let d = td();
	let opts = mk_opts(d.path().to_path_buf(), |o| {
		o.enable_versioning = true;
		o.enable_vlog = true;
		o.vlog_value_threshold = 0;
		o.enable_versioned_index = true;
	});
	let tree = Tree::new(Arc::clone(&opts)).unwrap();
	for (v, ts) in [(&b"v200"[..], 200u64), (&b"v100"[..], 100u64)] {
		let mut tx = tree.begin().unwrap();
		tx.set_at(b"k", v, ts).unwrap();
		tx.commit().await.unwrap();
	}
	let hist = |tree: &Tree, range: Option<(u64, u64)>| {
		let tx = tree.begin().unwrap();
		let mut ho = HistoryOptions::new();
		if let Some((a, b)) = range {
			ho = ho.with_ts_range(a, b);
		}
		let mut it = tx.history_with_options(&b"k"[..], &b"l"[..], &ho).unwrap();
		let mut v = vec![];
		let mut ok = it.seek_first().unwrap();
		while ok {
			v.push(it.key().timestamp());
			ok = it.next().unwrap();
		}
		v
	};
	let at = |tree: &Tree, t: u64| tree.begin().unwrap().get_at(b"k", t).unwrap().map(|v| String::from_utf8_lossy(&v).to_string());
	let before = (hist(&tree, None), hist(&tree, Some((150, 250))), at(&tree, 150), at(&tree, 250));
	tree.flush().unwrap();
	let after = (hist(&tree, None), hist(&tree, Some((150, 250))), at(&tree, 150), at(&tree, 250));
	println!("D54 before flush: {before:?}\nD54 after flush:  {after:?}");
	let _ = tokio::time::timeout(std::time::Duration::from_secs(10), tree.close()).await;
	assert_eq!(before, after, "D54: answers differ before and after the flush");
	assert_eq!(after.0, vec![200, 100], "newest first");
}

// D3b: with a reader older than a bottom-level delete open, compaction keeps the version the reader needs AND the
// tombstone above it (a later reader must not see the deleted value); once the reader is gone the next compaction
// removes the key entirely.
#[tokio::test(flavor = "multi_thread")]
async fn d3b_delete_at_bottom_keeps_tombstone_while_an_older_reader_is_open() {
	let d = td();
	let opts = mk_opts(d.path().to_path_buf(), |o| o.level_count = 2);
	let tree = Tree::new(Arc::clone(&opts)).unwrap();
	put(&tree, b"k", b"v1").await;
	tree.flush().unwrap();
	let old_reader = tree.begin().unwrap();
	del(&tree, b"k").await;
	tree.flush().unwrap();
	for i in 0..2u8 {
		put(&tree, &[b'x', i], b"1").await;
		tree.flush().unwrap();
	}
	tree.compact(Arc::new(Strategy::default())).unwrap();
	assert_eq!(old_reader.get(b"k").unwrap(), Some(b"v1".to_vec()), "the older reader keeps its version");
	assert_eq!(tree.begin().unwrap().get(b"k").unwrap(), None, "D3b: a reader begun after the delete sees the deleted value again");
	drop(old_reader);
	for i in 2..6u8 {
		put(&tree, &[b'x', i], b"1").await;
		tree.flush().unwrap();
	}
	tree.compact(Arc::new(Strategy::default())).unwrap();
	assert_eq!(tree.begin().unwrap().get(b"k").unwrap(), None);
	tree.close().await.unwrap();
	let t2 = Tree::new(Arc::clone(&opts)).unwrap();
	assert_eq!(t2.begin().unwrap().get(b"k").unwrap(), None, "after reopen");
	t2.close().await.unwrap();
}

// D28b: the windowed history agrees with the unfiltered one restricted to the window -- in both directions, with the
// barrier in its own table above the window, with a replace instead of a delete, after compaction, with both back ends.
#[tokio::test(flavor = "multi_thread")]
async fn d28b_windowed_history_is_the_unfiltered_history_restricted_to_the_window() {
	use crate::transaction::{HistoryOptions, WriteOptions};
	for with_index in [false, true] {
		let d = td();
		let opts = mk_opts(d.path().to_path_buf(), |o| {
			o.enable_versioning = true;
			o.enable_vlog = true;
			o.vlog_value_threshold = 0;
			o.enable_versioned_index = with_index;
			o.level_count = 3;
		});
		let tree = Tree::new(Arc::clone(&opts)).unwrap();
		// a: two versions inside the window, erased by a hard delete ABOVE it (in a table of its own)
		// b: a version inside the window, replaced above it (the replace erases it)
		// c: plain versions inside and outside the window
		for (k, v, ts) in [(b"a", b"a10", 10u64), (b"a", b"a15", 15), (b"b", b"b12", 12), (b"c", b"c08", 8), (b"c", b"c18", 18)] {
			let mut tx = tree.begin().unwrap();
			tx.set_at(&k[..], &v[..], ts).unwrap();
			tx.commit().await.unwrap();
		}
		tree.flush().unwrap();
		{
			let mut tx = tree.begin().unwrap();
			tx.delete_with_options(b"a", &WriteOptions::default().with_timestamp(Some(30))).unwrap();
			tx.commit().await.unwrap();
		}
		tree.flush().unwrap();
		{
			let mut tx = tree.begin().unwrap();
			tx.replace(b"b", b"b-now").unwrap(); // timestamp = now, far above the window
			tx.set_at(b"c", b"c40", 40).unwrap();
			tx.commit().await.unwrap();
		}
		let scan = |tree: &Tree, ho: &HistoryOptions, forward: bool| {
			let tx = tree.begin().unwrap();
			let mut it = tx.history_with_options(&b"a"[..], &b"z"[..], ho).unwrap();
			let mut v = vec![];
			let mut ok = if forward { it.seek_first().unwrap() } else { it.seek_last().unwrap() };
			while ok {
				v.push((String::from_utf8_lossy(it.key().user_key()).to_string(), it.key().timestamp()));
				ok = if forward { it.next().unwrap() } else { it.prev().unwrap() };
			}
			if !forward {
				v.reverse();
			}
			v
		};
		let check = |tree: &Tree, stage: &str| {
			let all = HistoryOptions { include_tombstones: false, ts_range: None, limit: None };
			let win = HistoryOptions { include_tombstones: false, ts_range: Some((5, 20)), limit: None };
			let full = scan(tree, &all, true);
			let want: Vec<_> = full.iter().filter(|(_, ts)| (5..=20).contains(ts)).cloned().collect();
			assert_eq!(want, vec![("c".to_string(), 18), ("c".to_string(), 8)], "precondition ({stage}, index={with_index}): full history {full:?}");
			assert_eq!(scan(tree, &win, true), want, "D28b {stage}, index={with_index}: forward windowed history");
			assert_eq!(scan(tree, &win, false), want, "D28b {stage}, index={with_index}: backward windowed history");
		};
		check(&tree, "memtable + two tables");
		tree.flush().unwrap();
		check(&tree, "three tables");
		tree.compact(Arc::new(Strategy::default())).unwrap();
		check(&tree, "after compaction");
		let _ = tokio::time::timeout(std::time::Duration::from_secs(10), tree.close()).await;
	}
}

// D55: an insert that does not fit exhausts the arena of the (fresh, still empty) active memtable; rotate_memtable
// returns early for an empty memtable, so every later commit fails with ArenaFull until the store is reopened
#[tokio::test(flavor = "multi_thread")]
async fn d55_oversized_commit_bricks_the_store() {
	let d = td();
	let opts = mk_opts(d.path().to_path_buf(), |o| {
		o.max_memtable_size = 64 * 1024;
	});
	let tree = Tree::new(Arc::clone(&opts)).unwrap();
	put(&tree, b"before", b"1").await;
	let big = vec![7u8; 1024 * 1024];
	let mut tx = tree.begin().unwrap();
	tx.set(b"big", &big).unwrap();
	assert!(tx.commit().await.is_err(), "oversized commit unexpectedly succeeded");
	for i in 0..3 {
		let mut tx2 = tree.begin().unwrap();
		tx2.set(format!("after{i}").as_bytes(), b"2").unwrap();
		let r2 = tx2.commit().await;
		assert!(r2.is_ok(), "D55: commit {i} after the failed one is refused: {:?}", r2);
	}
	let rtx = tree.begin().unwrap();
	assert_eq!(rtx.get(b"before").unwrap().as_deref(), Some(&b"1"[..]));
	assert_eq!(rtx.get(b"after2").unwrap().as_deref(), Some(&b"2"[..]));
	drop(rtx);
	let _ = tokio::time::timeout(std::time::Duration::from_secs(20), tree.close()).await;
}
