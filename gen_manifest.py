#!/usr/bin/env python3
"""regenerates MANIFEST.json from skvlint/props/*.py (claimed) and NOT_APPLICABLE below"""
import json, os, importlib, sys
sys.path.insert(0, os.path.dirname(os.path.abspath(__file__)))
props = [json.loads(l) for l in open("properties.jsonl")]
NA_REASON = {}
checks, na = [], []
for p in props:
    pid = p["id"]
    path = "skvlint/props/%s.py" % pid.lower()
    if os.path.exists(path):
        m = importlib.import_module("skvlint.props.%s" % pid.lower())
        checks.append({
            "property_id": pid,
            "quick_cmd": "./check %s --tier quick" % pid,
            "thorough_cmd": "./check %s --tier thorough" % pid,
            "evidence_file": "evidence/%s.json" % pid,
            "replay_cmd_template": "cat {path}",
            "engine": "skvlint",
            "level_claimed": {
                "category": "other",
                "text": getattr(m, "LEVEL_TEXT", "Static analysis (no execution, no solver): the structural necessary conditions listed in DESIGN.md for this property are decided on every path of the MIR of /repo's current source. A pass means those named conditions hold on all paths and all call sites; it does not mean the behavioural property holds for all histories."),
                "design_ref": "DESIGN.md section 3, %s" % pid,
            },
            "level_note": getattr(m, "LEVEL_NOTE", "Trusted: rustc's mir_built as control-flow/def-use model of the source; the anchor table in the rule module; std/parking_lot/tokio primitives behave as documented. Not decided: the behavioural remainder listed under 'Not decided' in DESIGN.md."),
            "technique": getattr(m, "TECHNIQUE", "static analysis over rustc MIR: call-graph who-may-call, CFG dominance / must-pass-through, def-use provenance, lock-guard regions"),
        })
    else:
        na.append({"property_id": pid, "reason": NA_REASON.get(pid, "rules not implemented yet in this revision of the framework (planned in DESIGN.md section 3); no check is registered, so nothing is claimed")})
man = {
    "version": 1,
    "setup_cmd": "./setup.sh",
    "hooks": {"guard": "surrealkv_verif", "enable": "RUSTFLAGS='--cfg surrealkv_verif' -- used ONLY by the demonstration test repro/triage.rs::d16w (one-shot WAL append failure); the checks themselves analyse the unmodified default build through a rustc_private driver and need no hook",
              "baseline_off_cmd": "cd /repo && CARGO_NET_OFFLINE=true cargo test --offline --lib", "source_commits": ["0a6cf09"], "add_only": True},
    "engines": [
        {"name": "skv-facts", "path": "driver/", "serves_properties": [c["property_id"] for c in checks], "kind_free_text": "rustc_private driver (nightly) dumping mir_built facts of the lib crate as JSON"},
        {"name": "skvlint", "path": "skvlint/", "serves_properties": [c["property_id"] for c in checks], "kind_free_text": "Python rule engine: call graph, dominance, must-pass-through, provenance, guard regions, decision tables"},
    ],
    "checks": checks,
    "not_applicable": na,
    "notes": "All checks are static analyses of /repo's current working tree; facts are re-extracted whenever any source byte changes. Genuine defects found are in known_findings.json.",
}
json.dump(man, open("MANIFEST.json", "w"), indent=1)
print("claimed:", [c["property_id"] for c in checks], "n/a:", [n["property_id"] for n in na])
