"""skvlint runner: extracts facts from /repo's current working tree (cached only under an
identical source hash), evaluates the rules of one property, compares violations with
known_findings.json, writes evidence/<id>.json, prints VIOLATION / KNOWN-FINDING lines."""
import argparse
import fcntl
import hashlib
import importlib
import json
import os
import subprocess
import sys
import time
import traceback

from .core import Facts, AnchorMissing

VERIF = os.path.dirname(os.path.dirname(os.path.abspath(__file__)))
REPO = os.environ.get("SKV_REPO", "/repo")
CACHE = os.path.join(VERIF, ".cache")


# ----------------------------------------------------------------------------------------
def source_hash(repo):
    h = hashlib.sha256()
    files = []
    for root, dirs, fs in os.walk(os.path.join(repo, "src")):
        dirs.sort()
        for f in sorted(fs):
            files.append(os.path.join(root, f))
    for f in ("Cargo.toml", "Cargo.lock", "build.rs"):
        p = os.path.join(repo, f)
        if os.path.exists(p):
            files.append(p)
    n = 0
    for p in files:
        h.update(os.path.relpath(p, repo).encode())
        h.update(b"\0")
        with open(p, "rb") as fh:
            h.update(fh.read())
        h.update(b"\0")
        n += 1
    drv = os.path.join(VERIF, "driver", "src", "main.rs")
    with open(drv, "rb") as fh:
        h.update(fh.read())
    h.update(os.environ.get("SKV_EXTRA_RUSTFLAGS", "").encode())
    return h.hexdigest()[:20], n


def get_facts(repo=REPO, verbose=True):
    """returns (Facts, info dict).  Re-extracts unless a fact file for exactly these source
    bytes exists."""
    os.makedirs(CACHE, exist_ok=True)
    for attempt in range(3):
        try:
            return _get_facts_once(repo, verbose)
        except FileNotFoundError:
            # another worker's cache clean-up removed the fact file between the existence test and the read: extract again
            if attempt == 2:
                raise


def _get_facts_once(repo, verbose):
    sh, nfiles = source_hash(repo)
    out = os.path.join(CACHE, "facts-%s.json" % sh)
    t0 = time.time()
    extracted = False
    tdir = os.environ.get("SKV_TARGET_DIR") or os.path.join(CACHE, "target")
    with open(tdir.rstrip("/") + ".lock", "w") as lk:
        fcntl.flock(lk, fcntl.LOCK_EX)
        if os.path.exists(out):
            try:
                os.utime(out, None)  # a cache hit counts as recent use
            except OSError:
                pass
        if not os.path.exists(out):
            tmp = out + ".tmp.%d" % os.getpid()
            r = subprocess.run([os.path.join(VERIF, "bin", "extract.sh"), repo, tmp,
                                tdir],
                               stdout=subprocess.PIPE, stderr=subprocess.STDOUT, text=True)
            if r.returncode != 0 or not os.path.exists(tmp):
                sys.stdout.write(r.stdout)
                raise SystemExit("skvlint: fact extraction failed (does /repo compile?)")
            os.rename(tmp, out)
            if os.path.exists(tmp + ".log"):
                os.remove(tmp + ".log")
            extracted = True
            # keep the cache small: drop fact files other than the 200 most recently used
            fs = sorted((f for f in os.listdir(CACHE) if f.startswith("facts-") and f.endswith(".json")),
                        key=lambda f: os.path.getmtime(os.path.join(CACHE, f)))
            for f in fs[:-200]:
                try:
                    os.remove(os.path.join(CACHE, f))
                except OSError:
                    pass
    facts = Facts(out)
    info = {"source_hash": sh, "source_files": nfiles, "facts_file": out, "extracted_now": extracted,
            "extract_s": round(time.time() - t0, 2), "bodies": len(facts.bodies),
            "blocks": facts.n_blocks, "calls": facts.n_calls}
    if len(facts.bodies) < 1000:
        raise SystemExit("skvlint: only %d bodies extracted; refusing to continue" % len(facts.bodies))
    return facts, info


# ----------------------------------------------------------------------------------------
class Violation:
    def __init__(self, prop, rule, key, msg, where, detail=None):
        self.prop = prop
        self.rule = rule
        self.key = ("%s|%s" % (rule, key)).replace(" ", "_")
        self.msg = msg
        self.where = where
        self.detail = detail or {}

    def to_json(self):
        return {"property": self.prop, "rule": self.rule, "key": self.key, "message": self.msg,
                "where": self.where, "detail": self.detail}


class RuleCtx:
    """handed to each rule function"""

    def __init__(self, prop, rule_id, title, facts, tier):
        self.prop = prop
        self.rule = rule_id
        self.title = title
        self.f = facts
        self.tier = tier
        self.obligations = []  # dicts
        self.violations = []
        self.notes = []
        self.tables = []

    def ok(self, what, where=None, **detail):
        self.obligations.append({"rule": self.rule, "what": what, "where": where, "ok": True, **detail})

    def bad(self, key, msg, where=None, **detail):
        self.obligations.append({"rule": self.rule, "what": msg, "where": where, "ok": False, "key": key})
        self.violations.append(Violation(self.prop, self.rule, key, msg, where, detail))

    def check(self, cond, what, key, where=None, fail_msg=None, **detail):
        if cond:
            self.ok(what, where, **detail)
        else:
            self.bad(key, fail_msg or ("NOT: " + what), where, **detail)
        return cond

    def floor(self, what, n, minimum):
        """fail closed when fewer instances than counted by hand exist"""
        if n < minimum:
            self.bad("floor:" + what, "rule instance count for `%s` fell to %d (< %d confirmed by hand): "
                     "the rule no longer sees the sites it was written for" % (what, n, minimum))
        else:
            self.notes.append("%s: %d instances (floor %d)" % (what, n, minimum))

    def note(self, s):
        self.notes.append(s)

    def table(self, name, rows):
        self.tables.append({"name": name, "rows": rows})


from .registry import RULES, rule  # noqa: E402


def load_known():
    p = os.path.join(VERIF, "known_findings.json")
    if not os.path.exists(p):
        return []
    with open(p) as fh:
        return json.load(fh)["findings"]


def run_property(prop, tier, facts, info):
    mod = importlib.import_module("skvlint.props.%s" % prop.lower())
    rules = RULES.get(prop, [])
    ctxs = []
    for rid, title, fn, rtier in rules:
        if rtier == "thorough" and tier != "thorough":
            continue
        cx = RuleCtx(prop, rid, title, facts, tier)
        try:
            fn(cx)
        except AnchorMissing as e:
            cx.bad("rule-not-evaluable", "rule not evaluable on this tree (anchor missing): %s" % e)
        except Exception as e:  # fail closed, never silently pass
            cx.bad("rule-crashed", "rule crashed: %r\n%s" % (e, traceback.format_exc()))
        if not cx.obligations:
            cx.bad("vacuous", "rule produced no obligations (vacuous pass is not accepted)")
        ctxs.append(cx)
    return mod, ctxs


def thorough_extra(prop, repo, base_ctxs):
    """thorough tier = quick rules + thorough-only rules + (a) engine self-test on the positive-example crate,
    (b) every confirmed seeded change that targets this property is applied to a scratch copy of the CURRENT
    /repo tree and the property's rules must raise a violation the unchanged tree does not have."""
    import glob
    import shutil
    import tempfile
    from . import selftest
    from .registry import RULES
    out = {}
    st = selftest.run()
    out["selftest"] = st
    if not st.get("ok"):
        print("WARNING: engine self-test failed: %s" % {k: v for k, v in st.items() if v is False})
    base_keys = {v.key for cx in base_ctxs for v in cx.violations}
    results = []
    for meta in sorted(glob.glob(os.path.join(VERIF, "seeded", "*", "meta.json"))):
        m = json.load(open(meta))
        targets = [m.get("breaks")] + list(m.get("also_checked_by", []))
        if prop not in targets:
            continue
        d = os.path.dirname(meta)
        tmp = tempfile.mkdtemp(prefix="skv-mut-")
        try:
            for name in ("src", "Cargo.toml", "Cargo.lock", "benches"):
                sp = os.path.join(repo, name)
                if os.path.isdir(sp):
                    shutil.copytree(sp, os.path.join(tmp, name))
                elif os.path.exists(sp):
                    shutil.copy(sp, os.path.join(tmp, name))
            r = subprocess.run(["patch", "-p1", "-s", "-f", "-i", os.path.join(d, "patch.diff")], cwd=tmp, stdout=subprocess.PIPE, stderr=subprocess.STDOUT, text=True)
            if r.returncode != 0:
                results.append({"seed": os.path.basename(d), "status": "patch does not apply to the current tree"})
                continue
            try:
                mf, _ = get_facts(tmp)
            except SystemExit as e:
                results.append({"seed": os.path.basename(d), "status": "extraction failed: %s" % e})
                continue
            _, mctx = run_property(prop, "quick", mf, {})
            new = sorted({v.key for cx in mctx for v in cx.violations} - base_keys)
            results.append({"seed": os.path.basename(d), "status": "caught" if new else "MISSED", "new_violations": new[:6]})
            if not new:
                print("WARNING: seeded change %s is not detected by %s any more" % (os.path.basename(d), prop))
        finally:
            shutil.rmtree(tmp, ignore_errors=True)
    out["seeded_mutants"] = results
    out["seeded_mutants_caught"] = sum(1 for r in results if r["status"] == "caught")
    # (c) behaviour-preserving refactors (benign/*.diff: extract-helper, rename, if<->match, early return,
    # introduce-local ...) that touch a file this property's rules looked at must NOT change the verdict
    files = {str(o.get("where", "")).split(":")[0] for cx in base_ctxs for o in cx.obligations}
    bres = []
    for pf in sorted(glob.glob(os.path.join(VERIF, "benign", "*.diff"))):
        touched = set()
        with open(pf) as fh:
            for line in fh:
                if line.startswith("+++ b/"):
                    touched.add(line[6:].strip())
        if not (touched & files):
            continue
        tmp = tempfile.mkdtemp(prefix="skv-ben-")
        try:
            for name in ("src", "Cargo.toml", "Cargo.lock", "benches"):
                sp = os.path.join(repo, name)
                if os.path.isdir(sp):
                    shutil.copytree(sp, os.path.join(tmp, name))
                elif os.path.exists(sp):
                    shutil.copy(sp, os.path.join(tmp, name))
            r = subprocess.run(["patch", "-p1", "-s", "-f", "-i", pf], cwd=tmp, stdout=subprocess.PIPE, stderr=subprocess.STDOUT, text=True)
            if r.returncode != 0:
                bres.append({"refactor": os.path.basename(pf), "status": "patch does not apply to the current tree"})
                continue
            try:
                mf, _ = get_facts(tmp, verbose=False)
            except SystemExit as e:
                bres.append({"refactor": os.path.basename(pf), "status": "extraction failed: %s" % e})
                continue
            _, mctx = run_property(prop, "quick", mf, {})
            new = sorted({v.key for cx in mctx for v in cx.violations} - base_keys)
            bres.append({"refactor": os.path.basename(pf), "status": "FALSE-ALARM" if new else "silent", "new_violations": new[:6]})
            if new:
                print("WARNING: behaviour-preserving refactor %s makes %s raise %s" % (os.path.basename(pf), prop, new[:3]))
        finally:
            shutil.rmtree(tmp, ignore_errors=True)
    out["benign_refactors"] = bres
    out["benign_refactors_silent"] = sum(1 for r in bres if r["status"] == "silent")
    # (d) every repaired defect of this property, un-repaired: the reverse of its `fix:` commit (mutants/revert_<sha>.diff)
    # applied to the current tree must be reported again
    commits = []
    try:
        for e in json.load(open(os.path.join(VERIF, "known_findings.json")))["findings"]:
            if e.get("property") == prop and e.get("status") == "fixed" and e.get("commit") and e["commit"] not in commits:
                commits.append(e["commit"])
    except (OSError, ValueError, KeyError):
        pass
    rres = []
    for sha in commits:
        pf = os.path.join(VERIF, "mutants", "revert_%s.diff" % sha)
        if not os.path.exists(pf):
            continue
        tmp = tempfile.mkdtemp(prefix="skv-rev-")
        try:
            for name in ("src", "Cargo.toml", "Cargo.lock", "benches"):
                sp = os.path.join(repo, name)
                if os.path.isdir(sp):
                    shutil.copytree(sp, os.path.join(tmp, name))
                elif os.path.exists(sp):
                    shutil.copy(sp, os.path.join(tmp, name))
            r = subprocess.run(["patch", "-p1", "-s", "-f", "-i", pf], cwd=tmp, stdout=subprocess.PIPE, stderr=subprocess.STDOUT, text=True)
            if r.returncode != 0:
                rres.append({"reverted_fix": sha, "status": "reverse patch does not apply to the current tree"})
                continue
            try:
                mf, _ = get_facts(tmp, verbose=False)
            except SystemExit as e:
                rres.append({"reverted_fix": sha, "status": "extraction failed: %s" % e})
                continue
            _, mctx = run_property(prop, "quick", mf, {})
            new = sorted({v.key for cx in mctx for v in cx.violations} - base_keys)
            rres.append({"reverted_fix": sha, "status": "reported again" if new else "NOT REPORTED", "new_violations": new[:6]})
            if not new:
                print("WARNING: reverting fix %s is not reported by %s" % (sha, prop))
        finally:
            shutil.rmtree(tmp, ignore_errors=True)
    out["reverted_fixes"] = rres
    out["reverted_fixes_reported"] = sum(1 for r in rres if r["status"] == "reported again")
    return out


def main(argv=None):
    ap = argparse.ArgumentParser()
    ap.add_argument("prop")
    ap.add_argument("--tier", default=os.environ.get("VERIF_TIER", "quick"))
    ap.add_argument("--repo", default=REPO)
    ap.add_argument("--no-evidence", action="store_true")
    ap.add_argument("-v", action="store_true")
    a = ap.parse_args(argv)
    prop = a.prop.upper()
    tier = "thorough" if a.tier == "thorough" else "quick"
    seed = int(os.environ.get("VERIF_SEED", "0") or 0)
    t0 = time.time()
    facts, info = get_facts(a.repo)
    mod, ctxs = run_property(prop, tier, facts, info)
    extra = {}
    if tier == "thorough":
        extra = thorough_extra(prop, a.repo, ctxs)
        if hasattr(mod, "thorough_extra"):
            extra.update(mod.thorough_extra(facts, a.repo) or {})
    known = [k for k in load_known() if k["property"] == prop]
    known_keys = {k["key"]: k for k in known if k.get("status") == "known"}
    viols = [v for cx in ctxs for v in cx.violations]
    for v in extra.get("violations", []):
        viols.append(v)
    new, kn = [], []
    for v in viols:
        (kn if v.key in known_keys else new).append(v)
    # a known finding that no longer reproduces is only noted (never an alarm)
    stale = [k for k in known_keys if k not in {v.key for v in viols}]
    obligations = [o for cx in ctxs for o in cx.obligations]
    discharged = sum(1 for o in obligations if o["ok"])
    print("skvlint %s tier=%s  source=%s  bodies=%d blocks=%d calls=%d  (facts %s in %.1fs)" % (
        prop, tier, info["source_hash"], info["bodies"], info["blocks"], info["calls"],
        "extracted" if info["extracted_now"] else "reused: identical source bytes", info["extract_s"]))
    for cx in ctxs:
        nb = len(cx.violations)
        print("  %-8s %-62s %3d obligations, %d violated" % (cx.rule, cx.title[:62], len(cx.obligations), nb))
        if a.v:
            for n in cx.notes:
                print("           . %s" % n)
    for v in kn:
        print("KNOWN-FINDING: property=%s %s -- %s" % (prop, v.key, known_keys[v.key].get("what", v.msg)))
    for k in stale:
        print("note: listed finding no longer reproduces on this tree: %s" % k)
    vdir = os.path.join(VERIF, "evidence", "violations")
    if new:
        os.makedirs(vdir, exist_ok=True)
    for v in new:
        hid = hashlib.sha1(v.key.encode()).hexdigest()[:10]
        rp = os.path.join("evidence", "violations", "%s-%s.json" % (prop, hid))
        with open(os.path.join(VERIF, rp), "w") as fh:
            json.dump(v.to_json(), fh, indent=1)
        print("  !! %s  %s\n     at %s" % (v.key, v.msg, v.where))
        print("VIOLATION property=%s replay=%s" % (prop, rp))
    wall = time.time() - t0
    if not a.no_evidence:
        samples = []
        for cx in ctxs:
            for o in cx.obligations[:4]:
                samples.append({k: o[k] for k in ("rule", "what", "where", "ok")})
            for t in cx.tables[:3]:
                samples.append({"rule": cx.rule, "table": t["name"], "rows": t["rows"][:64]})
        distinct = len({(o["rule"], o["what"], o.get("where")) for o in obligations})
        ev = {
            "property_id": prop, "tier": tier, "seed": seed, "level": "other",
            "coverage": {
                "explanation": getattr(mod, "EXPLANATION", "static rules over MIR facts"),
                "obligations": len(obligations), "discharged": discharged,
                "evaluations": len(obligations), "distinct_nontrivial": distinct,
                "rule": "one evaluation = one rule obligation evaluated at one resolved construct "
                        "(call site / path query / value flow / decision-table row) of the MIR of /repo's "
                        "current source; distinct = distinct (rule, obligation, site)",
                "samples": samples,
                "checker_cmd": "./check %s --tier %s" % (prop, tier),
                "rules": [{"rule": cx.rule, "title": cx.title, "obligations": len(cx.obligations),
                           "violated": len(cx.violations), "notes": cx.notes} for cx in ctxs],
                "analysed": info,
                "exhaustive": False,
                "known_findings_reproduced": [v.key for v in kn],
                "new_violations": [v.to_json() for v in new],
                **{k: v for k, v in extra.items() if k != "violations"},
            },
            "assumptions": getattr(mod, "ASSUMPTIONS", []),
            "wall_s": round(wall, 2),
            "violations": len(new),
        }
        os.makedirs(os.path.join(VERIF, "evidence"), exist_ok=True)
        with open(os.path.join(VERIF, "evidence", "%s.json" % prop), "w") as fh:
            json.dump(ev, fh, indent=1)
    print("%s: %d obligations, %d discharged, %d known finding(s), %d new violation(s)  [%.1fs]" % (
        prop, len(obligations), discharged, len(kn), len(new), wall))
    return 1 if new else 0


if __name__ == "__main__":
    sys.exit(main())
