"""C06 — flush, compaction, caching and reopen never change query answers."""
from ..registry import rule
from ..core import origin_of_operand, AnchorMissing, comparisons, rel_str, mirror, feasible_reach, REL
from .common import *
from . import compaction as cp
from . import bounds

EXPLANATION = ("Structural necessary conditions of layout independence: the per-version decision of compaction (complete finite "
               "decision table extracted from the MIR) keeps the latest live value, keeps a tombstone unless the target is the last "
               "level, and keeps every snapshot-visible tombstone; the bottom-level flag is derived from the target level; the "
               "table-skipping predicates equal their oracle tables and are used as partition predicates; compaction merges every "
               "L0 table, queries the next level with the combined range of the selected tables, expands to a fixed point and "
               "replaces exactly its inputs; merge order breaks ties by source age in both directions; a block parsed with one "
               "comparator is never served from the cache of the other.  Metamorphic equality of twin executions is NOT decided.")
ASSUMPTIONS = ["MIR models control/data flow faithfully", "the invariants between the decision inputs listed in compaction.feasible()"]


@rule("C06", "C06.R1", "tombstone life-cycle in the compaction decision table")
def r1(cx):
    f = cx.f
    rows, info = cp.table(f)
    cx.note("decision region %s: %d paths, %d rows" % (info["region_start"], info["paths"], info["rows"]))
    cx.table("compaction per-version decision (role -> value => output)", [[str(dict(sorted(c.items()))), str(o)] for c, o, _ in rows])
    w = info["region_start"]
    cp.check_obligation(cx, rows, "the latest live (non-delete) version of a key is always written", lambda t: t["is_latest"] and not t["hard_delete"], True,
                        "latest-live-dropped", "compaction can drop the newest live version of a key", w)
    cp.check_obligation(cx, rows, "a latest hard delete is kept unless the output is the bottom level", lambda t: t["is_latest"] and t["hard_delete"] and not t["bottom"], True,
                        "tombstone-dropped-above-bottom", "compaction drops the newest tombstone although deeper levels may still hold older versions of the key: the deleted key shows an old value again", w)
    cp.check_obligation(cx, rows, "a tombstone that an open snapshot reads (and that is not superseded in its boundary) is kept",
                        lambda t: t["hard_delete"] and not t["latest_del_bottom"] and t["cur_vis"] == "Bounded" and not cp.unneeded_by_snapshots(t) and (not t["is_latest"] or not t["bottom"]), True,
                        "snapshot-tombstone-dropped", "compaction drops a tombstone that is the version an open snapshot reads: that reader falls through to an older value", w)
    if info.get("drop_all_consults_oldest_snapshot"):
        # the drop-all flag is only set when the oldest open snapshot sees the delete; otherwise the bottom-level tombstone
        # must survive together with the version the older snapshot reads (else that version comes back for everybody)
        cp.check_obligation(cx, rows, "a latest hard delete at the bottom level is kept while a snapshot older than it is open",
                            lambda t: t["is_latest"] and t["hard_delete"] and t["bottom"] and not t["latest_del_bottom"], True,
                            "bottom-tombstone-dropped-under-older-snapshot",
                            "compaction drops the bottom-level tombstone although a snapshot that began before the delete is open: the version kept for that snapshot is then "
                            "visible to every later reader (the deleted key comes back)", w)
    cp.check_obligation(cx, rows, "without versioning an older version that no snapshot needs is dropped (space is reclaimed)",
                        lambda t: (not t["versioning"]) and not t["is_latest"] and t["cur_vis"] == "NoActive", False,
                        "old-version-kept", "without versioning, older versions are not dropped although no snapshot exists", w)
    # is_bottom_level provenance
    n = 0
    for c in f.callers_of("CompactionIterator::new"):
        b = c.body
        n += 1
        o = origin_of_operand(b, c.args[2], through_calls="all")
        okk = "target_level" in o.field_names() and "level_count" in o.field_names() and (o.ops & {"Ge", "Gt", "Eq"})
        cx.check(bool(okk), "is_bottom_level derives from comparing target_level with level_count - 1", "bottom-flag-source", c.where(),
                 "the bottom-level flag given to the compaction iterator no longer derives from target_level vs level_count")
        for cmp_ in comparisons(b):
            lo, ro = origin_of_operand(b, cmp_.lhs, through_calls="all"), origin_of_operand(b, cmp_.rhs, through_calls="all")
            if "target_level" in lo.field_names() and "level_count" in ro.field_names():
                rel = frozenset(REL[cmp_.op])
                one = [k for k in ro.consts if k.get("v") == "1"]
                cx.check(rel == frozenset({"gt", "eq"}) and bool(one) and any(x.startswith("Sub") for x in ro.ops), "bottom <=> target_level >= level_count - 1", "bottom-flag-predicate", cmp_.where(),
                         "bottom-level test is `target_level %s level_count%s`" % (rel_str(rel), " - 1" if one else ""))
    cx.floor("CompactionIterator constructions", n, 1)


@rule("C06", "C06.R2", "table-skipping predicates equal their oracle tables")
def r2(cx):
    f = cx.f
    is_table_key = lambda n: ".meta." in n
    # table is before range: range lower bound vs table's largest key
    bounds.check_bound_predicate(cx, "Table::is_before_range", ".0", is_table_key,
                                 {"Included": frozenset({"lt"}), "Excluded": frozenset({"lt", "eq"}), "Unbounded": False, None: False},
                                 "is_before_range (largest key vs lower bound)", "table|is_before_range")
    bounds.check_bound_predicate(cx, "Table::is_after_range", ".1", is_table_key,
                                 {"Included": frozenset({"gt"}), "Excluded": frozenset({"gt", "eq"}), "Unbounded": False, None: False},
                                 "is_after_range (smallest key vs upper bound)", "table|is_after_range")
    # overlaps = !before && !after
    ob = f.body("Table::overlaps_with_range")
    a, b_ = sites(cx, ob, "Table::is_before_range"), sites(cx, ob, "Table::is_after_range")
    from ..e3 import Region
    rws = [(lf.cond, lf.ret) for lf in Region(ob, 0, force_bool_return=True).run()]
    good = all((ret[1] == 1) == (not any(v for k, v in cond.items())) for cond, ret in rws) and len(rws) >= 2
    cx.check(good, "overlaps_with_range == !is_before_range && !is_after_range", "table|overlaps", ob.where(), "overlaps_with_range table: %s" % rws)
    # is_key_in_key_range: smallest <= key <= largest; missing metadata => true
    kb, rows = bounds.bool_table(f, "Table::is_key_in_key_range")
    okk = True
    for cond, val in rows:
        rl = {}
        var = {}
        for a_, v in cond.items():
            if a_.startswith("rel("):
                which = "smallest" if "smallest_point" in a_ else "largest"
                rl[which] = bounds.norm_rel(a_, v, lambda n: ".meta." not in n)
            elif a_.startswith("variant("):
                var["smallest" if "smallest_point" in a_ else "largest"] = v
        if "None" in var.values():
            want = True
        else:
            want = (rl.get("smallest") in ("eq", "gt")) and (rl.get("largest", "eq") in ("eq", "lt")) if rl.get("smallest") in ("eq", "gt") else False
        if val != want:
            okk = False
    cx.check(okk and len(rows) >= 4, "is_key_in_key_range: smallest <= key <= largest (true when metadata is missing)", "table|is_key_in_key_range", kb.where())
    # users: Snapshot::get skips a L0 table only when !is_key_in_key_range; levels >= 1 use find_first/last_overlapping_table
    gb = f.body("Snapshot::get")
    from ..core import bool_call_condition
    tg = sites(cx, gb, "Table::get", minimum=2)
    for c in sites(cx, gb, "Table::is_key_in_key_range"):
        conds = [bool_call_condition(gb, c, t.bb) for t in tg]
        cx.check(frozenset({True}) in conds, "an L0 table is searched exactly when the key lies in its key range", "l0-skip-predicate", c.where(),
                 "Snapshot::get searches / skips L0 tables with the wrong polarity of is_key_in_key_range")
    lb = f.body("Level::find_first_overlapping_table")
    lb2 = f.body("Level::find_last_overlapping_table")
    cx.check(f.may_reach(lb.id, "Table::is_before_range") , "find_first_overlapping_table partitions by is_before_range", "partition-first", lb.where())
    cx.check(f.may_reach(lb2.id, "Table::is_after_range"), "find_last_overlapping_table partitions by is_after_range", "partition-last", lb2.where())


@rule("C06", "C06.R3", "compaction input closure and exact replacement")
def r3(cx):
    f = cx.f
    b = f.body("Strategy::select_tables_for_compaction")
    pushes = [c for c in b.calls_to("std::vec::Vec::push") if c.bb in b.live]
    cx.floor("selection pushes", len(pushes), 3)
    # L0: every table of the level is pushed: the first push sits in a loop over source_level.tables and is only guarded by the dedupe set.
    # L0 files overlap and are ordered newest first; a merge that takes only SOME of them moves newer versions below older
    # ones that stay in L0, and point lookups (L0 before L1, first hit wins) then answer with the stale version.  Decided:
    # the loop that selects straight from the source level's own table list walks the plain slice iterator (no take /
    # skip / filter / step_by adaptor) and is left only when that iterator is exhausted.
    src_param = [l for l in range(1, b.argc + 1) if b.local_name(l) == "source_level"] or [2]
    direct = []
    for c in b.calls:
        if c.bb in b.live and c.primary.endswith("Iterator>::next") and b.in_cycle(c.bb) and c.args:
            o = origin_of_operand(b, c.args[0], through_calls="all")
            if src_param[0] in {pl for pl, _ in o.params} and not any(x.primary.split("::")[-1] in ("overlapping_tables", "combined_key_range") for x in o.calls) and not (o.call_names() & {"Strategy::select_best_table_for_compaction", "Strategy::select_overlapping_ranges"}):
                cyc = loop_of(b, c.bb)
                if any(p_.bb in cyc for p_ in pushes):
                    direct.append((c, o))
    cx.floor("loops that select straight from the source level's table list", len(direct), 1)
    for c, o in direct:
        adaptors = sorted({x.primary.split("::")[-1] for x in o.calls} & {"take", "skip", "filter", "step_by", "take_while", "skip_while", "rev", "filter_map", "chain", "zip"})
        plain = "slice::Iter" in c.primary or "std::slice::Iter" in (c.callee.get("a") or "")
        cx.check(plain and not adaptors, "the L0 selection walks the level's whole table list (plain slice iterator)", "l0-selection-partial", c.where(),
                 "the L0 -> L1 selection iterates `source_level.tables` through %s: only part of the overlapping L0 files is merged, so L1 receives NEWER versions than files "
                 "that stay in L0, and a point lookup (L0 first, first hit wins) returns the stale version or resurrects a deleted key" % (", ".join(adaptors) or "a non-slice iterator"))
        exhaustive_loop(cx, b, c, "the L0 selection loop visits every table of the level", "l0-selection-partial|early-exit", ok_exit_blocks=None)
    ck = sites(cx, b, "Strategy::combined_key_range")
    ov = sites(cx, b, "Level::overlapping_tables")
    for c in ov:
        o = origin_of_operand(b, c.args[1], through_calls="all")
        cx.check(any(x in ck for x in o.calls), "the next level is queried with the combined key range of the selected source tables", "overlap-query-range", c.where(),
                 "the next-level overlap query no longer uses the combined range of the selected source tables: an overlapping older table can be left out of the merge")
        o0 = origin_of_operand(b, c.args[0])
        cx.check(any(b.local_name(l) == "next_level" for l, _ in o0.params), "the overlap query targets the next level", "overlap-query-level", c.where())
    for c in ck:
        o = origin_of_operand(b, c.args[0], through_calls="all")
        cx.check(any(b.local_name(l) == "source_level" for l, _ in o.params), "the combined range is computed over source-level tables", "combined-range-source", c.where())
    sb = f.body("Strategy::select_overlapping_ranges")
    n = 0
    for cmp_ in comparisons(sb):
        lo, ro = origin_of_operand(sb, cmp_.lhs, through_calls="all"), origin_of_operand(sb, cmp_.rhs, through_calls="all")
        if lo.from_call("std::collections::HashSet::len") or ro.from_call("std::collections::HashSet::len"):
            n += 1
            # the loop is left only when the size did not change
            ins = sites(cx, sb, "std::collections::HashSet::insert", minimum=2)
            loop_ins = [c for c in ins if sb.in_cycle(c.bb)]
            sw = cmp_.switches()
            good = False
            for s, e in sw:
                for tgt, lab in e.items():
                    if lab == frozenset({"eq"}) and not sb.in_cycle(tgt) or (lab == frozenset({"eq"}) and not any(c.bb in feasible_reach(sb, [tgt], avoid=[s]) for c in loop_ins)):
                        good = True
            cx.check(good, "range expansion stops only when no table was added (fixed point)", "expansion-fixpoint", cmp_.where(),
                     "select_overlapping_ranges can stop before the set of overlapping tables is closed")
    cx.floor("fixed-point tests", n, 1)
    ub = f.body("Compactor::update_manifest")
    ins = [c for c in ub.calls if c.primary.split("::")[-1] == "insert" and "deleted_tables" in origin_of_operand(ub, c.args[0]).field_names()]
    for c in ins:
        o = origin_of_operand(ub, c.args[1], through_calls="all")
        cx.check("tables_to_merge" in o.field_names(), "the change set deletes the merged inputs (tables_to_merge)", "deleted-set-source", c.where())
    nt = [c for c in ub.calls_to("std::vec::Vec::push") if "new_tables" in origin_of_operand(ub, c.args[0]).field_names()]
    for c in nt:
        o = origin_of_operand(ub, c.args[1], through_calls="all")
        cx.check("target_level" in o.field_names(), "the output table is installed at the target level", "output-level", c.where())
    cx.floor("change-set construction sites", len(ins) + len(nt), 2)
    mb = f.body("Compactor::merge_tables")
    wm = sites(cx, mb, "Compactor::write_merged_table")
    o = origin_of_operand(mb, wm[0].args[3], through_calls="all")
    cx.check("tables_to_merge" in o.field_names(), "the merge reads exactly the selected input tables", "merge-inputs", wm[0].where())


@rule("C06", "C06.R4", "merge order: key order, ties broken by source age, in both directions")
def r4(cx):
    f = cx.f
    for fn, rev in (("MergingIterator::cmp_min", False), ("MergingIterator::cmp_max", True)):
        b = f.body(fn)
        cmpc = [c for c in b.calls if c.bb in b.live and c.primary.split("::")[-1] == "compare"]
        tw = [c for c in b.calls if c.bb in b.live and c.primary.endswith("then_with")]
        rv = [c for c in b.calls if c.bb in b.live and c.primary.endswith("Ordering::reverse")]
        cx.check(len(cmpc) == 1 and len(tw) == 1, "%s: one key comparison followed by one tie-break" % fn, "merge-shape|%s" % fn, b.where())
        cx.check(bool(rv) == rev, "%s: key order is %sreversed" % (fn, "" if rev else "not "), "merge-direction|%s" % fn, b.where(),
                 "%s %s the key comparison" % (fn, "no longer reverses" if rev else "reverses"))
        if rv and tw:
            dom(cx, b, rv, tw, "%s: reversal applies to the key comparison only (before the tie-break)" % fn)
        # the tie-break closure compares level_idx of a with level_idx of b in that order (lower index = newer wins)
        for cb in f.closures_of(b):
            cs = [c for c in cb.calls if c.primary.split("::")[-1] == "cmp"]
            cx.check(len(cs) == 1, "%s: tie-break is a single comparison" % fn, "merge-tiebreak-shape|%s" % fn, cb.where())
            if cs:
                oa, ob_ = origin_of_operand(cb, cs[0].args[0], through_calls="all"), origin_of_operand(cb, cs[0].args[1], through_calls="all")

                def idx_upvars(o):
                    s_ = set(o.upvar_names)
                    for l in o.index_locals:
                        s_ |= origin_of_operand(cb, ["c", [l]]).upvar_names
                    return s_
                # parameters a, b of cmp_min/cmp_max are the 3rd and 4th: captured as upvars named after them
                pa, pb = b.local_name(3), b.local_name(4)
                cx.check("level_idx" in oa.field_names() and "level_idx" in ob_.field_names() and (pa in idx_upvars(oa)) and (pb in idx_upvars(ob_)),
                         "%s: ties go to the lower level_idx (a.level_idx.cmp(b.level_idx))" % fn, "merge-tiebreak|%s" % fn, cs[0].where(),
                         "%s breaks ties with the operands swapped: older data shadows newer data for equal keys" % fn)
    # compaction and snapshot merges are built with the internal comparator
    for c in f.callers_of("CompactionIterator::new"):
        o = origin_of_operand(c.body, c.args[1], through_calls="all")
        cx.check("internal_comparator" in o.field_names(), "compaction merges in internal-key order", "compaction-comparator", c.where())


@rule("C06", "C06.R5", "cache key discipline")
def r5(cx):
    from .c13 import r2 as c13r2
    # shares the cache-kind / key rules with C13.R2 (evaluated here for C06's claim)
    f = cx.f
    pairs = {"Table::read_block": ({"BlockCache::get_data_block", "BlockCache::insert_data_block"}, {"BlockCache::get_data_block_history", "BlockCache::insert_data_block_history"}),
             "Table::read_block_with_comparator": ({"BlockCache::get_data_block_history", "BlockCache::insert_data_block_history"}, {"BlockCache::get_data_block", "BlockCache::insert_data_block"}),
             "Index::load_block": ({"BlockCache::get_index_block", "BlockCache::insert_index_block"}, {"BlockCache::get_data_block", "BlockCache::insert_data_block"}),
             "VLog::get": ({"BlockCache::get_vlog", "BlockCache::insert_vlog"}, {"BlockCache::get_data_block", "BlockCache::insert_data_block"})}
    for fn, (want, forbid) in pairs.items():
        b = f.body(fn)
        have = set()
        for c in b.calls:
            if c.bb in b.live:
                have |= (c.names & (want | forbid | {"BlockCache::get_data_block_history", "BlockCache::insert_data_block_history", "BlockCache::get_index_block", "BlockCache::insert_index_block", "BlockCache::get_vlog", "BlockCache::insert_vlog"}))
        cx.check(have == want, "`%s` reads and fills exactly its own cache kind" % fn, "cache-kind|%s" % fn, b.where(),
                 "`%s` uses cache accessors %s, expected %s" % (fn, sorted(have), sorted(want)))
    # inside the cache: each accessor pair uses the same kind constant
    kinds = {}
    for b in f.scan_bodies():
        if b.self_ty == "cache::BlockCache" and (b.name or "").startswith(("insert_", "get_")):
            vals = set()
            for i, j, lhs, rv, line in b.assigns():
                for op in ([rv[1]] if rv[0] == "use" else (rv[2] if rv[0] == "agg" else [])):
                    if op[0] == "k" and "cdef" in op[1] and "KIND_" in op[1]["cdef"]:
                        vals.add(op[1]["cdef"].split("::")[-1])
            kinds[b.name] = vals
    for g, i_ in (("get_data_block", "insert_data_block"), ("get_data_block_history", "insert_data_block_history"), ("get_index_block", "insert_index_block"), ("get_vlog", "insert_vlog")):
        cx.check(kinds.get(g) and kinds.get(g) == kinds.get(i_) and len(kinds[g]) == 1, "BlockCache::%s / %s use the same kind constant %s" % (g, i_, sorted(kinds.get(g, []))),
                 "cache-kind-const|%s" % g, None, "BlockCache::%s uses %s but %s uses %s" % (g, sorted(kinds.get(g, [])), i_, sorted(kinds.get(i_, []))))
    allk = [next(iter(v)) for k, v in kinds.items() if k.startswith("get_") and len(v) == 1]
    cx.check(len(set(allk)) == len(allk) and len(allk) >= 4, "every cache kind has its own constant", "cache-kind-distinct", None)
    vals = {k: f.const(k) for k in set(allk)} if allk else {}
    cx.check(len(set(vals.values())) == len(vals), "kind constants have distinct values %s" % vals, "cache-kind-values", None)
