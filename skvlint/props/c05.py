"""C05 — commits become visible atomically, in one total order."""
from ..registry import rule
from ..core import (origin_of_operand, AnchorMissing, comparisons, rel_str, bool_call_condition, const_eval)
from .common import *
from .pipeline import *

EXPLANATION = ("Necessary structural conditions of atomic, ordered visibility: who may move the visibility "
               "horizon; the horizon only moves forward (guard condition of the CAS as a finite relation); only an "
               "applied queue head is dequeued; apply -> mark_applied -> publish -> completion order on every path of "
               "commit(); the sequence range allocated, stamped on the batch, written and published is one value flow; "
               "a transaction adopts the published horizon once.  What a concurrent reader observes between steps is "
               "NOT decided.")
ASSUMPTIONS = ["MIR is a faithful model of control/data flow", "atomics and oneshot channels behave as documented"]


@rule("C05", "C05.R1", "only publish() (CAS, forward only) and set_seq_num() move the visibility horizon")
def r1(cx):
    ops = atomic_field_ops(cx, "visible_seq_num")
    allowed = {"commit::CommitPipeline::publish": ("compare_exchange_weak", "compare_exchange"),
               "commit::CommitPipeline::set_seq_num": ("store",)}
    for body, c, meth in ops:
        owner = cx.f.fn_of(body).id
        cx.check(owner in allowed and meth in allowed[owner], "visible_seq_num.%s in `%s` is an allowed writer" % (meth, owner),
                 "who:visible_seq_num|%s.%s" % (owner, meth), c.where(),
                 "visible_seq_num is written by `%s` (%s); only publish()'s forward CAS and set_seq_num may move the horizon" % (owner, meth))
    cx.floor("visible_seq_num writers", len(ops), 2)
    # set_seq_num is only called at open and restore
    who_calls(cx, ["CommitPipeline::set_seq_num"], {"Core::new", "Tree::restore_from_checkpoint"}, "set_seq_num callers", "who:set_seq_num", minimum=2)
    pb = cx.f.body("CommitPipeline::publish")
    cas = sites(cx, pb, ["std::sync::atomic::Atomic::compare_exchange_weak", "std::sync::atomic::Atomic::compare_exchange"])
    found = 0
    for cmp_ in comparisons(pb):
        lo, ro = origin_of_operand(pb, cmp_.lhs), origin_of_operand(pb, cmp_.rhs)
        lk = "new" if lo.from_call("CommitBatch::get_seq_num") else ("cur" if lo.from_call("std::sync::atomic::Atomic::load") else None)
        rk = "new" if ro.from_call("CommitBatch::get_seq_num") else ("cur" if ro.from_call("std::sync::atomic::Atomic::load") else None)
        if {lk, rk} != {"new", "cur"}:
            continue
        found += 1
        for c in cas:
            cond = cmp_.condition_to_reach(c.bb)
            if cond is not None and lk == "cur":
                from ..core import mirror
                cond = mirror(cond)
            cx.check(cond == frozenset({"gt"}), "the horizon CAS is reached only when new_visible > current", "cas-guard",
                     c.where(), "the horizon CAS is reachable when new_visible %s current: the horizon can move backwards or be "
                     "re-published" % (rel_str(cond) if cond is not None else "<unconstrained>"))
            # CAS arguments: expected = the loaded current, new = new_visible
            exp = origin_of_operand(pb, c.args[1])
            new = origin_of_operand(pb, c.args[2])
            cx.check(exp.from_call("std::sync::atomic::Atomic::load"), "CAS expects the value just loaded", "cas-expected", c.where())
            cx.check(new.from_call("CommitBatch::get_seq_num") and "count" in new.field_names(),
                     "CAS installs seq_num + count - 1 of the dequeued batch", "cas-new", c.where(),
                     "the value installed by the horizon CAS no longer derives from the dequeued batch's seq_num and count")
            cx.check({"AddWithOverflow", "SubWithOverflow"} <= new.ops or {"Add", "Sub"} <= new.ops,
                     "new_visible = seq + count - 1 (one add, one sub)", "cas-new-arith", c.where())
    cx.floor("new_visible vs current comparisons", found, 1)


@rule("C05", "C05.R2", "only an applied batch at the queue tail is dequeued")
def r2(cx):
    b = cx.f.body("CommitQueue::dequeue_applied")
    ia = sites(cx, b, "CommitBatch::is_applied")
    cas = sites(cx, b, ["std::sync::atomic::Atomic::compare_exchange_weak", "std::sync::atomic::Atomic::compare_exchange"])
    fr = sites(cx, b, "std::sync::Arc::from_raw")
    for c in cas + fr:
        for a in ia:
            cond = bool_call_condition(b, a, c.bb)
            cx.check(cond == frozenset({True}), "`%s` is reached only when is_applied() returned true" % c.primary.split("::")[-1],
                     "dequeue-unapplied|%s" % c.primary.split("::")[-1], c.where(),
                     "dequeue_applied can take a batch out of the queue although is_applied() is %s" % (sorted(cond) if cond is not None else "not consulted on this path"))
    dom(cx, b, cas, fr, "ownership CAS before taking the Arc back")
    # tail-only: slot index derives from `tail` (second component of unpack), never from head
    for c in sites(cx, b, "std::sync::atomic::Atomic::load"):
        pass
    who_calls(cx, ["CommitQueue::dequeue_applied"], {"CommitPipeline::publish"}, "dequeue_applied callers", "who:dequeue")
    who_calls(cx, ["CommitQueue::enqueue"], {"CommitPipeline::commit"}, "enqueue callers", "who:enqueue")
    who_calls(cx, ["CommitBatch::mark_applied"], {"CommitPipeline::commit"}, "mark_applied callers", "who:mark_applied", minimum=2)


@rule("C05", "C05.R3", "apply -> mark_applied -> publish -> completion, on every path of commit()")
def r3(cx):
    b = commit_body(cx)
    ap = sites(cx, b, "CommitEnv::apply")
    wr = sites(cx, b, "CommitEnv::write")
    ma = sites(cx, b, "CommitBatch::mark_applied")
    pu = sites(cx, b, "CommitPipeline::publish")
    dom(cx, b, wr, ap, "WAL write before memtable apply")
    # success path: the mark_applied / publish that are not in the write-failure arm
    ok_w, err_w = arm_of_result(cx, b, wr[0], "env.write")
    err_region = b.reachable_from(err_w, avoid=[])
    main_ma = [c for c in ma if ap[0].bb in b.reachable_from([0]) and c.bb in b.reachable_after([ap[0].bb])]
    main_pu = [c for c in pu if c.bb in b.reachable_after([ap[0].bb])]
    cx.floor("mark_applied after apply", len(main_ma), 1)
    cx.floor("publish after apply", len(main_pu), 1)
    dom(cx, b, ap, main_ma, "apply before mark_applied (success path)")
    dom(cx, b, main_ma, main_pu, "mark_applied before publish")
    # the awaited completion
    polls = [c for c in b.calls if "oneshot::Receiver" in c.primary and c.primary.endswith("poll")]
    if not polls:
        raise AnchorMissing("commit() no longer awaits the completion receiver")
    dom(cx, b, pu, polls, "publish before awaiting completion")
    oks = [x for x, k in exits(b) if k in ("ok", "tail")]
    # exits after enqueue that can be Ok must be dominated by the completion await
    enq = sites(cx, b, "CommitQueue::enqueue")
    after = b.reachable_after([enq[0].bb])
    for x in oks:
        if x not in after:
            continue
        cx.check(b.set_dominates([p.bb for p in polls], x), "a success return after enqueue waits for the completion signal",
                 "ok-without-completion", b.where(x), "commit() can return Ok after enqueue without awaiting the publish completion")
    # complete(): Ok only from publish(), after the CAS loop; Err only from commit()
    for c in cx.f.callers_of("CommitBatch::complete"):
        owner = cx.f.fn_of(c.body).id
        o = origin_of_operand(c.body, c.args[1])
        variants = {a.get("variant") for a in o.aggs if a.get("adt") == "std::result::Result"}
        if owner == "commit::CommitPipeline::publish":
            # Ok, or the batch's recorded outcome (Ok unless commit() recorded a failure before mark_applied)
            oc = [x for x in c.body.calls if x.bb in c.body.live and x.names & {"CommitBatch::outcome"}]
            via_outcome = o.from_call("CommitBatch::outcome") or (bool(oc) and c.body.set_dominates([x.bb for x in oc], c.bb))
            cx.check(variants == {"Ok"} or via_outcome, "publish() completes batches with Ok / their recorded outcome", "complete-variant|publish", c.where())
            pb = c.body
            lds = [x for x in pb.calls_to("std::sync::atomic::Atomic::load")]
            dom(cx, pb, lds, [c], "horizon examined before completing the batch")
            dq = sites(cx, pb, "CommitQueue::dequeue_applied")
            dom(cx, pb, dq, [c], "completion only for a dequeued batch")
        elif owner == "commit::CommitPipeline::commit":
            cx.check(variants == {"Err"}, "commit() only completes a batch itself with Err", "complete-variant|commit", c.where(),
                     "commit() completes its own batch with %s; success must only be signalled by publish() after the horizon moved" % sorted(variants))
        else:
            cx.bad("who:complete|%s" % owner, "CommitBatch::complete called from `%s`" % owner, c.where())


@rule("C05", "C05.R4", "one sequence range: allocated = stamped = written = published")
def r4(cx):
    b = commit_body(cx)
    fa = [c for c in sites(cx, b, "std::sync::atomic::Atomic::fetch_add")
          if "log_seq_num" in origin_of_operand(b, c.args[0]).field_names()]
    if len(fa) != 1:
        raise AnchorMissing("expected exactly one fetch_add on log_seq_num in commit(), found %d" % len(fa))
    fa = fa[0]
    inc = origin_of_operand(b, fa.args[1])
    cx.check(inc.from_call("Batch::count"), "the allocator advances by batch.count()", "alloc-increment", fa.where(),
             "log_seq_num advances by something other than batch.count(): sequence ranges of consecutive commits overlap or leave the stamped range")
    for pat, idx, what in (("CommitBatch::set_seq_num", 1, "queue entry stamp"), ("Batch::set_starting_seq_num", 1, "batch starting seq"),
                           ("CommitEnv::write", 2, "seq passed to the WAL writer"), ("CommitOracle::publish", 2, "oracle stamp base")):
        for c in sites(cx, b, pat):
            o = origin_of_operand(b, c.args[idx])
            cx.check(fa in o.calls and not (o.ops - {"discr"}), "%s is the allocated sequence number, unmodified" % what, "seq-flow|%s" % pat, c.where(),
                     "%s does not flow (unmodified) from the fetch_add on log_seq_num" % what)
    for c in sites(cx, b, "CommitBatch::new"):
        o = origin_of_operand(b, c.args[0])
        cx.check(o.from_call("Batch::count"), "the queue entry's count is batch.count()", "count-flow", c.where())
    log_seq_num_writers(cx)
    # entries are numbered starting_seq_num + i
    eb = None
    for cb in cx.f.closures_of(cx.f.body("Batch::entries_with_seq_nums")):
        eb = cb
    if eb is None:
        raise AnchorMissing("Batch::entries_with_seq_nums has no mapping closure")
    adds = [(i, rv) for i, j, lhs, rv, _ in eb.assigns() if rv[0] == "bin" and rv[1].startswith("Add")]
    okk = False
    for i, rv in adds:
        l, r = origin_of_operand(eb, rv[2]), origin_of_operand(eb, rv[3])
        if "starting_seq_num" in (l.field_names() | r.field_names()):
            okk = True
    cx.check(okk, "entry i is numbered starting_seq_num + i", "entry-numbering", eb.where())
    # memtable add uses those numbers
    mb = cx.f.body("MemTable::add")
    cx.check(cx.f.may_reach(mb.id, "Batch::entries_with_seq_nums"), "MemTable::add numbers entries through entries_with_seq_nums", "memtable-numbering", mb.where())
    # set_seq_num: visible = s, log = s + 1
    sb = cx.f.body("CommitPipeline::set_seq_num")
    for c in sites(cx, sb, "std::sync::atomic::Atomic::store", minimum=2):
        o = origin_of_operand(sb, c.args[0])
        v = origin_of_operand(sb, c.args[1])
        if "visible_seq_num" in o.field_names():
            cx.check(not v.ops, "visible_seq_num := seq_num", "set-visible", c.where())
        elif "log_seq_num" in o.field_names():
            one = [k for k in v.consts if k.get("v") == "1"]
            cx.check(any(x.startswith("Add") for x in v.ops) and bool(one), "log_seq_num := seq_num + 1", "set-log", c.where(),
                     "set_seq_num no longer sets the allocator to seq_num + 1: the first commit after open/restore reuses a recovered sequence number")


@rule("C05", "C05.R5", "a transaction adopts the published horizon exactly once")
def r5(cx):
    nb = cx.f.body("Transaction::new")
    sq = sites(cx, nb, "Core::seq_num")
    cx.check(len(sq) == 1, "Transaction::new reads the horizon once", "horizon-read-count", nb.where(),
             "Transaction::new reads the horizon %d times: snapshot, tracker registration and start_seq_num can disagree" % len(sq))
    for pat, idx in (("ActiveTxnTracker::register", 1), ("Snapshot::new", 1)):
        for c in sites(cx, nb, pat):
            o = origin_of_operand(nb, c.args[idx])
            cx.check(sq[0] in o.calls and not o.ops, "%s receives the horizon read at begin" % pat, "horizon-flow|%s" % pat, c.where())
    for i, j, lhs, rv, _ in nb.assigns():
        if rv[0] == "agg" and rv[3] and rv[3].get("adt", "").endswith("transaction::Transaction"):
            fields = rv[3]["fields"]
            op = rv[2][fields.index("start_seq_num")]
            o = origin_of_operand(nb, op)
            cx.check(sq[0] in o.calls and not o.ops, "Transaction.start_seq_num is the horizon read at begin", "horizon-flow|start_seq_num", nb.where(i))
    gb = cx.f.body("Core::seq_num")
    cx.check(bool(gb.calls_to("CommitPipeline::get_visible_seq_num")), "Core::seq_num is the visible (published) horizon", "seq_num-source", gb.where(),
             "Core::seq_num no longer returns the published horizon")
    vb = cx.f.body("CommitPipeline::get_visible_seq_num")
    ld = sites(cx, vb, "std::sync::atomic::Atomic::load")
    o = origin_of_operand(vb, ld[0].args[0])
    cx.check("visible_seq_num" in o.field_names(), "get_visible_seq_num loads visible_seq_num", "visible-source", vb.where(),
             "get_visible_seq_num reads %s instead of visible_seq_num: readers could adopt an unpublished horizon" % sorted(o.field_names()))


@rule("C05", "C05.R6", "a batch is inserted into the active memtable under the lock that rotation needs exclusively")
def r6(cx):
    """Rotation (rotate_memtable / flush of the active memtable) takes `active_memtable` for writing before it seals the
    memtable; a committer that inserts its batch while holding the read side can therefore never be half-way through a
    batch when the memtable is sealed and flushed.  Necessary condition decided here: every `MemTable::add` reached from
    the production CommitEnv::apply lies inside a guard region of `CoreInner.active_memtable`, and the sealing side takes
    the write guard before it swaps the memtable."""
    from ..core import guard_regions, lock_wrappers
    f = cx.f
    bs = [b for b in f.scan_bodies() if b.name == "apply" and b.impl_trait and b.impl_trait.endswith("CommitEnv") and not b.file.endswith("commit.rs")]
    cx.floor("production CommitEnv::apply implementations", len(bs), 1)
    w = lock_wrappers(f)
    for b in bs:
        gs = [g for g in guard_regions(b, w) if g.lock == "CoreInner.active_memtable"]
        adds = [c for c in b.calls if c.bb in b.live and c.names & {"MemTable::add"}]
        cx.floor("MemTable::add sites in %s" % b.id, len(adds), 1)
        for c in adds:
            held = [g for g in gs if c.bb in g.region]
            cx.check(bool(held), "`%s`: the batch is inserted while `active_memtable` is held (%s)" % (b.id, ",".join(g.mode for g in held)), "apply-outside-memtable-lock|%s" % b.id, c.where(),
                     "`%s` inserts the batch into the memtable without holding CoreInner.active_memtable: a concurrent rotation + flush can seal and flush the "
                     "memtable between two entries of the batch, and the rest of the batch lands in a memtable no reader consults -> a transaction becomes "
                     "visible in part" % b.id)
            # the memtable that is written is the one read under that guard
            o = origin_of_operand(b, c.args[0])
            cx.check(any(g.call in o.calls for g in held) or not held, "the memtable written is the one behind the guard", "apply-other-memtable|%s" % b.id, c.where())
    for fn in ("CoreInner::rotate_memtable",):
        rb = f.body(fn)
        wg = [g for g in guard_regions(rb, w) if g.lock == "CoreInner.active_memtable" and g.mode == "write"]
        sw = [c for c in rb.calls if c.bb in rb.live and c.primary.endswith("mem::replace")]
        cx.check(bool(wg) and bool(sw) and all(any(c.bb in g.region for g in wg) for c in sw), "rotation swaps the active memtable under its write guard", "rotate-without-write-lock", rb.where())
