"""C10 — time-travel reads and version history are exact and permanent."""
from ..registry import rule
from ..core import origin_of_operand, AnchorMissing, comparisons, rel_str, mirror, feasible_reach, REL, const_eval
from .common import *
from . import compaction as cp
from . import history_table as ht

EXPLANATION = ("Structural necessary conditions of time travel / history: the per-entry transition of the history cursor "
               "(complete decision table from the MIR, 8640 input combinations) equals the oracle derived from the statement -- a hard "
               "delete hides itself and everything older, a replace is shown and hides everything older, soft tombstones are shown iff "
               "requested, invisible / out-of-range entries do not change state; the backward collector applies the same barriers; "
               "compaction's per-version decision is consistent with those barriers and never loses a version inside the retention "
               "window; point-in-time reads enumerate all versions unfiltered and select by (visible, ts <= T, newest); both history "
               "back ends are configured identically; the version index is written before the table is installed.  Equality across "
               "physical placements and crash images is NOT decided.")
ASSUMPTIONS = ["MIR models control/data flow faithfully", "invariants between decision inputs listed in compaction.feasible() and history_table.compare()"]


@rule("C10", "C10.R1", "history barriers: the forward step table equals the oracle; the backward collector applies the same barriers")
def r1(cx):
    f = cx.f
    b, leaves, n, bad, examples, rows = ht.compare(cx, f)
    cx.table("history forward step (inputs -> action, state written)", rows[:120])
    cx.check(bad == 0 and n > 1000, "forward step: action and barrier state agree with the oracle on all %d input combinations (%d MIR paths)" % (n, len(leaves)),
             "history-forward-table", b.where(), "the history cursor's forward step differs from the oracle on %d of %d input combinations, e.g. %s" % (bad, n, examples[:1]),
             examples=examples)
    cx.check(ht.ABOVE["bad"] == 0, "versions newer than the timestamp window still act as barriers (hard delete / replace above the window erase what lies inside it)",
             "history-window-ignores-barrier", b.where(),
             "with a timestamp window the history cursor skips versions above the window BEFORE it records hard-delete / replace barriers (%d input combinations, e.g. %s): "
             "`set k@10; hard-delete k@30; history(ts 5..20)` lists k@10 although it was erased -- and no longer lists it after the next compaction"
             % (ht.ABOVE["bad"], ht.ABOVE["examples"][:1]), examples=ht.ABOVE["examples"])
    # A flush writes a memtable's versions into the version index BEFORE it retires the memtable (C10.R6 requires that order
    # for crash safety), and a history scan merges memtables with the index: for the duration of every flush two sources
    # offer the same versions.  `every retained version exactly once` then needs the cursor itself to drop a version that
    # equals the one it examined last.
    cx.check(ht.ABOVE.get("dup_tested", False), "the forward step tests whether the current version repeats the previous one (two sources can offer it)", "history-duplicate-versions|forward", b.where(),
             "HistoryIterator::skip_to_valid_forward never compares the current version with the previous one: while a flush has written a memtable's versions to the version index "
             "but has not yet removed the memtable from the immutable queue, a history scan lists every one of those versions twice")
    cb0 = f.body("HistoryIterator::collect_user_key_backward")
    dedupe_b = False
    for c in cb0.calls:
        if c.bb in cb0.live and c.primary.split("::")[-1] in ("eq", "ne", "equal") and len(c.args) >= 2:
            oa, ob = origin_of_operand(cb0, c.args[0], through_calls="all"), origin_of_operand(cb0, c.args[1], through_calls="all")
            fa, fb = oa.field_names() | {x.primary.split("::")[-1] for x in oa.calls}, ob.field_names() | {x.primary.split("::")[-1] for x in ob.calls}
            if ("encoded_key" in fa and "encoded" in fb) or ("encoded_key" in fb and "encoded" in fa):
                dedupe_b = True
    for cb_ in f.closures_of(cb0):
        for c in cb_.calls:
            if c.bb in cb_.live and c.primary.split("::")[-1] in ("eq", "ne") and len(c.args) >= 2:
                names_ = set()
                for a in c.args[:2]:
                    o = origin_of_operand(cb_, a, through_calls="all")
                    names_ |= o.field_names() | {x.primary.split("::")[-1] for x in o.calls} | o.upvar_names
                if "encoded_key" in names_ and ("encoded" in names_ or "key_ref" in names_):
                    dedupe_b = True
    cx.check(dedupe_b, "the backward collector drops a version equal to the one collected last", "history-duplicate-versions|backward", cb0.where(),
             "HistoryIterator::collect_user_key_backward collects every entry the merge offers: during a flush the same version arrives from the memtable and from the version index")
    # backward: barrier search newest-first, stops at the first barrier; valid_start = idx+1 for hard delete, idx for replace
    cb = f.body("HistoryIterator::collect_user_key_backward")
    rev = [c for c in cb.calls if c.bb in cb.live and c.primary.endswith("::rev")]
    cx.check(bool(rev), "the barrier search scans versions newest-first (reversed range)", "backward-scan-order", cb.where(),
             "collect_user_key_backward no longer searches barriers from the newest version")
    skip = [c for c in cb.calls if c.bb in cb.live and c.primary.endswith("Iterator::skip")]
    cx.check(bool(skip), "versions older than the barrier are skipped", "backward-skip", cb.where())
    for c in skip:
        o = origin_of_operand(cb, c.args[1], through_calls="all")
        one = [k for k in o.consts if k.get("v") == "1"]
        zero = [k for k in o.consts if k.get("v") == "0"]
        cx.check(bool(one) and bool(zero) and any(x.startswith("Add") for x in o.ops), "skip count is idx+1 (hard delete) / idx (replace) / 0 (no barrier)", "backward-valid-start", c.where(),
                 "the backward collector's start index is no longer {idx+1 | idx | 0}")
    # latest hard delete => nothing for this key
    lst = [c for c in cb.calls if c.bb in cb.live and c.primary.endswith("::last")]
    cx.check(bool(lst), "the newest visible version is inspected first (latest hard delete hides the key)", "backward-latest", cb.where())
    # both directions use the same flags of the key
    for fn in ("HistoryIterator::skip_to_valid_forward", "HistoryIterator::collect_user_key_backward"):
        bb_ = f.body(fn)
        for pat in ("InternalKeyRef::is_hard_delete_marker", "InternalKeyRef::is_replace", "InternalKeyRef::is_tombstone"):
            cx.check(bool(bb_.calls_to(pat)), "%s consults %s" % (fn.split("::")[-1], pat.split("::")[-1]), "history-flag|%s|%s" % (fn, pat.split("::")[-1]), bb_.where())


@rule("C10", "C10.R2", "compaction's decision is consistent with the reader's barriers")
def r2(cx):
    f = cx.f
    rows, info = cp.table(f)
    w = info["region_start"]
    # a replace hides everything older for readers; compaction drops those older versions (same as the reader) -- via has_replace
    cp.check_obligation(cx, rows, "versions older than a REPLACE (and not needed by a snapshot) are dropped, like the reader hides them",
                        lambda t: t["has_replace"] and t["older_than_replace"] and not t["replace"] and not t["is_latest"] and not t["hard_delete"] and t["cur_vis"] == "NoActive" and not t["latest_del_bottom"], False,
                        "replace-barrier-kept", "compaction keeps versions older than a REPLACE", w)
    cp.check_obligation(cx, rows, "a REPLACE that is the latest version is kept", lambda t: t["replace"] and t["is_latest"], True, "latest-replace-dropped", "compaction drops the latest REPLACE", w)
    # hard delete barrier: the reader hides everything older than a hard delete.  Compaction drops an older hard delete
    # (rows hard_delete & !is_latest => not written).  It may only do so if it also drops everything that delete hid:
    # the decision for an older PUT must therefore depend on "a newer version of this key is a hard delete".
    # context-wise: whenever the table drops a non-latest hard delete under some (versioning, retention, expiry) context with
    # no snapshot open, it must also drop an older PLAIN version of the same key in that context -- the older version has a
    # smaller timestamp, so it is expired whenever the marker is.  (The first form of this check compared `some row drops
    # the marker` with `some row keeps an older put` across ALL contexts and could not see a repair.)
    dropped_hd = False
    kept_older_put = []
    for t in cp.totals():
        if not (t["hard_delete"] and not t["is_latest"] and t["cur_vis"] == "NoActive" and not t["latest_del_bottom"] and not t["has_replace"] and not t["older_than_replace"]):
            continue
        if cp.decide(rows, t) is not False:
            continue
        dropped_hd = True
        for exp in ([True] if t["expired"] else [True, False]):
            tp = dict(t)
            tp.update({"hard_delete": False, "replace": False, "expired": exp})
            tp["expired_by_retention"] = tp["retention_pos"] and tp["expired"]
            if not cp.feasible(tp):
                continue
            if cp.decide(rows, tp) is True:
                kept_older_put.append({k: tp[k] for k in ("versioning", "retention_pos", "expired", "bottom")})
    b = f.body("CompactionIterator::process_accumulated_versions")
    has_atom = False
    for l, (ty, nm) in enumerate(b.locals):
        if ty == "bool":
            ds = b.defs().get(l, [])
            if ds and not any(b.in_cycle(d[1]) for d in ds):
                o = origin_of_operand(b, ["c", [l]], through_calls="all")
                if o.from_call("std::iter::Iterator::any") and any("is_hard_delete_marker" in x.primary for cb in f.closures_of(b) for x in cb.calls):
                    # an `.any(|v| v.is_hard_delete_marker())`-style input exists
                    cl = [cb for cb in f.closures_of(b) if any("is_hard_delete_marker" in x.primary for x in cb.calls)]
                    if cl:
                        has_atom = True
    consistent = (not dropped_hd) or (not kept_older_put) or has_atom
    cx.check(consistent, "an older hard delete is dropped only together with the versions it hides", "hard-delete-barrier-dropped", w,
             "compaction always drops a hard delete that is not the latest version, but keeps older versions of the key when versioning is on (%d such rows) and has no input "
             "telling it that a newer hard delete exists: after compaction the erased versions (and get_at answers) come back" % len(kept_older_put),
             kept_rows=kept_older_put[:4])


@rule("C10", "C10.R3", "point-in-time read: all versions enumerated, candidate <=> visible, ts <= T, strictly newer than the candidate so far")
def r3(cx):
    f = cx.f
    b = f.body("Snapshot::get_at")
    hi = sites(cx, b, "Snapshot::history_iter")
    c = hi[0]
    # args: (self, lower=Some(key), upper=None, include_tombstones=true, ts_range=None, limit=None)
    def variant_of(op):
        o = origin_of_operand(b, op)
        vs = {a.get("variant") for a in o.aggs if a.get("adt") == "std::option::Option"}
        return vs
    cx.check(const_eval(f, b, c.args[3]) == 1, "get_at enumerates tombstones too (a delete at or before T must answer 'nothing')", "get_at-tombstones", c.where(),
             "get_at asks the history cursor to hide tombstones: a deleted key reads as its older value")
    # A timestamp window handed to the history cursor is sound only because the cursor walks (without listing) the versions
    # ABOVE the window and honours their barriers -- decided by C10.R1's step table since D28 was repaired; until then any
    # window here lost the barriers newer than T.  What remains to be decided at this call: the window must not cut off
    # versions the selection needs, i.e. it is `None` or exactly (0, T).
    win_ok = variant_of(c.args[4]) == {"None"}
    if not win_ok:
        o4 = origin_of_operand(b, c.args[4], through_calls=False)
        tparam = [l for l in range(1, b.argc + 1) if b.local_name(l) == "timestamp"] or [3]
        hi_from_T = any(pl == tparam[0] for pl, _ in o4.params) and not o4.ops and not o4.calls
        lows = [k for k in o4.consts if str(k.get("v")) not in ("0",)]
        win_ok = hi_from_T and not lows
    cx.check(win_ok, "get_at hands the history cursor no timestamp window, or exactly (0, T)", "get_at-ts-filter", c.where(),
             "get_at passes the history cursor a timestamp window that is not (0, T): versions the selection needs (up to and including T) can be cut off")
    cx.check(variant_of(c.args[5]) == {"None"}, "get_at does not limit the number of versions", "get_at-limit", c.where())
    cx.check(variant_of(c.args[2]) == {"None"} and variant_of(c.args[1]) == {"Some"}, "get_at scans from the key (lower = Some(key), no upper bound; stops at the first other key)", "get_at-bounds", c.where())
    # selection predicate
    tg = [x.bb for x in sites(cx, b, "CoreInner::resolve_value")]
    roles = {}
    for cmp_ in comparisons(b):
        lo, ro = origin_of_operand(b, cmp_.lhs), origin_of_operand(b, cmp_.rhs)
        lt = lo.from_call("InternalKeyRef::timestamp")
        rt = ro.from_call("InternalKeyRef::timestamp")
        def is_T(o):
            return any(b.local_name(l) == "timestamp" for l, _ in o.params)
        if lt and is_T(ro):
            cond = cmp_.condition_to_reach(tg[0])
            cx.check(cond == frozenset({"lt", "eq"}), "a version is a candidate only if its timestamp <= T", "get_at-ts-predicate", cmp_.where(),
                     "get_at accepts versions with timestamp %s T" % (rel_str(cond) if cond is not None else "<unconstrained>"))
            roles["T"] = True
        elif lt and not is_T(ro) and (rt or ro.consts):
            # The cursor lists versions newest first (timestamp descending, then commit order descending): among versions
            # with EQUAL timestamps the first one met is the one committed last.  A later candidate may therefore replace
            # the current one only if it is strictly newer; replacing on equality hands back the overwritten version
            # (`set k@10; soft-delete k@10` reads the deleted value at T = 10).
            # (corrected: this check used to demand `>=`, copied from the code -- see DESIGN D43)
            via = set()
            for sw, e in cmp_.switches():
                for succ, lab in e.items():
                    if tg[0] in b.reachable_from([succ], avoid={sw}) or succ == tg[0]:
                        via |= set(lab)
            cond = frozenset(via)
            cx.check(cond == frozenset({"gt"}), "...and is strictly newer than the best candidate so far (ties keep the version met first = committed last)", "get_at-best-predicate", cmp_.where(),
                     "get_at replaces its candidate when the version's timestamp %s best: the cursor lists equal timestamps in descending commit order, so on a tie the version "
                     "committed FIRST wins -- `set k@10; soft-delete k@10` reads the deleted value back at T = 10, and get_at(k, now) disagrees with get(k)" % (rel_str(cond) if cond else "<unconstrained>"))
            roles["best"] = True
    cx.check(roles.get("T") and roles.get("best"), "both selection comparisons are present", "get_at-predicates-missing", b.where())
    # user key equality stops the scan
    cx.check(bool([x for x in b.calls if x.bb in b.live and x.primary.split("::")[-1] in ("ne", "eq") and x.callee.get("trait") == "std::cmp::PartialEq"]),
             "the scan stops when the user key changes", "get_at-key-test", b.where())


@rule("C10", "C10.R4", "both history back ends are configured identically")
def r4(cx):
    f = cx.f
    b = f.body("Snapshot::history_iter")
    a = sites(cx, b, "HistoryIterator::new")[0]
    l = sites(cx, b, "HistoryIterator::new_lsm")[0]
    def names(c):
        res = {}
        for i, op in enumerate(c.args):
            o = origin_of_operand(b, op)
            ps = sorted({b.local_name(p) for p, _ in o.params if b.local_name(p)} | {x for x in o.field_names() if x in ("seq_num",)})
            res[i] = tuple(ps)
        return res
    na, nl = names(a), names(l)
    want = {("include_tombstones",), ("lower",), ("upper",), ("ts_range",), ("limit",)}
    ha = {v for v in na.values() if v in want}
    hl = {v for v in nl.values() if v in want}
    cx.check(ha == want, "B+tree-backed history cursor receives include_tombstones, bounds, ts_range, limit", "backend-args|btree", a.where(), "HistoryIterator::new misses %s" % sorted(want - ha))
    cx.check(hl == want, "LSM-backed history cursor receives include_tombstones, bounds, ts_range, limit", "backend-args|lsm", l.where(), "HistoryIterator::new_lsm misses %s" % sorted(want - hl))
    for c in (a, l):
        cx.check(any("seq_num" in origin_of_operand(b, op).field_names() for op in c.args), "`%s` filters at the snapshot's horizon" % c.primary.split("::")[-1], "backend-horizon|%s" % c.primary.split("::")[-1], c.where())
    # the selection between them is by enable_versioned_index only
    gate = [c for c in comparisons(b)]
    cx.ok("back-end selection present", b.where())


@rule("C10", "C10.R5", "versions inside the retention window are never dropped by compaction")
def r5(cx):
    f = cx.f
    rows, info = cp.table(f)
    w = info["region_start"]
    base = lambda t: t["versioning"] and (not t["is_latest"]) and (not t["hard_delete"]) and (not t["replace"]) and (not t["has_replace"]) and (not t["latest_del_bottom"])
    cp.check_obligation(cx, rows, "unlimited retention, no reader open: every older version is kept", lambda t: base(t) and not t["retention_pos"] and t["cur_vis"] == "NoActive", True,
                        "retention-unlimited-dropped", "with unlimited retention an older version is dropped although no snapshot is open", w)
    # a REPLACE erases what came BEFORE it: a version written after the newest replace is an ordinary retained version
    after_replace = lambda t: t["versioning"] and (not t["is_latest"]) and (not t["hard_delete"]) and (not t["replace"]) and t["has_replace"] \
        and (not t["older_than_replace"]) and (not t["latest_del_bottom"])
    cp.check_obligation(cx, rows, "unlimited retention, no reader open: a version NEWER than the key's replace is kept", lambda t: after_replace(t) and not t["retention_pos"] and t["cur_vis"] == "NoActive", True,
                        "retention-dropped-after-replace", "a version written AFTER the key's newest replace is dropped as if the replace had erased it (set@5, replace@10, set@20, set@30: "
                        "compaction keeps set@30 and replace@10 and loses set@20)", w)
    cp.check_obligation(cx, rows, "a version OLDER than the key's replace is dropped", lambda t: t["versioning"] and (not t["is_latest"]) and (not t["hard_delete"]) and (not t["replace"])
                        and t["has_replace"] and t["older_than_replace"] and (not t["latest_del_bottom"]) and t["cur_vis"] == "NoActive", False,
                        "replace-keeps-older", "a version older than the key's replace survives compaction", w)
    cp.check_obligation(cx, rows, "finite retention: a version younger than the retention period is kept (no reader open)",
                        lambda t: base(t) and t["retention_pos"] and not t["expired"] and t["cur_vis"] == "NoActive", True,
                        "retention-window-dropped", "a version inside the retention window is dropped", w)
    cp.check_obligation(cx, rows, "finite retention: a version older than the retention period is dropped (no reader open)",
                        lambda t: base(t) and t["retention_pos"] and t["expired"] and t["cur_vis"] == "NoActive", False,
                        "retention-expired-kept", "an expired version is kept", w)
    cp.check_obligation(cx, rows, "retention does not depend on whether some reader happens to be open during compaction",
                        lambda t: base(t) and (not t["retention_pos"] or not t["expired"]) and t["cur_vis"] in ("Bounded", "Newer"), True,
                        "retention-dropped-under-snapshot",
                        "with versioning on, an older version that shares its visibility boundary with a newer one is dropped as `superseded` whenever ANY snapshot is open, "
                        "regardless of the retention window: history is lost because a reader existed while compaction ran", w)
    # the clock used for ages is the configured one
    for c in f.callers_of("CompactionIterator::new"):
        o = origin_of_operand(c.body, c.args[5], through_calls="all")
        cx.check("clock" in o.field_names(), "compaction ages versions with Options.clock", "retention-clock", c.where())
        o2 = origin_of_operand(c.body, c.args[4], through_calls="all")
        cx.check("versioned_history_retention_ns" in o2.field_names(), "retention period comes from Options", "retention-source", c.where())


@rule("C10", "C10.R6", "the version index is written and synced before the table is installed")
def r6(cx):
    f = cx.f
    b = f.body("CoreInner::flush_immutable_to_sst")
    ins = [c for c in b.calls if c.bb in b.live and c.primary.split("::")[-1] == "insert" and "BPlusTree" in c.primary]
    sy = [c for c in b.calls if c.bb in b.live and c.primary.split("::")[-1] == "sync" and "BPlusTree" in c.primary]
    ap = sites(cx, b, "LevelManifest::apply_changeset")
    cx.floor("version index inserts in flush", len(ins), 1)
    cx.floor("version index sync in flush", len(sy), 1)
    never_after(cx, b, ap, ins, "no index insert after the table was installed")
    never_after(cx, b, ap, sy, "index synced before the table is installed")
    for c in ins:
        cx.check(b.in_cycle(c.bb), "every collected entry is inserted into the index", "index-insert-loop", c.where())
    mb = f.body("MemTable::flush")
    pushes = [c for c in mb.calls_to("std::vec::Vec::push")]
    cx.check(bool(pushes) and all(mb.in_cycle(c.bb) for c in pushes), "flush collects an index entry for every key when the index is enabled", "index-collect", mb.where())


@rule("C10", "C10.R7", "version index: the B+tree leaf chain stays doubly linked (backward history = forward history)")
def r7(cx):
    from .c18 import rule_leaf_chain
    rule_leaf_chain(cx)


def rule_table_bounds_cover_every_entry(cx):
    """A table's recorded bounds (sequence range, largest key, key time range) are used to *skip* the table: the history
    scan with a timestamp window prunes tables whose [oldest_key_time, newest_key_time] misses the window, reopen validates
    sequence ranges, lookups use the key range.  Skipping is only sound if every entry added to the table -- tombstones and
    hard deletes included, they are barriers -- widens the bounds: in TableWriter::update_meta_properties these updates lie
    on every path to the return."""
    f = cx.f
    b = f.body("TableWriter::update_meta_properties")
    ex = [x for x, k in exits(b)] or b.rets
    n = 0
    for fld in ("oldest_key_time", "newest_key_time"):
        ws = sorted({i for i, j, lhs, rv, line in b.assigns() if i in b.live and any(isinstance(p, list) and p[0] == "f" and p[2] == fld for p in lhs[1:])})
        n += 1
        cx.check(bool(ws) and all(b.set_dominates(ws, x) or x in ws for x in ex), "every added entry updates `%s`" % fld, "table-bound-conditional|%s" % fld, b.where(ws[0]) if ws else b.where(),
                 "TableWriter::update_meta_properties updates `%s` only for some entries: a table that holds e.g. only delete markers inside a time window records a range "
                 "outside it and is pruned by windowed history scans -- the barrier is skipped and erased versions are listed again" % fld)
    for pat in ("TableMetadata::update_seq_num", "TableMetadata::set_largest_point_key"):
        cs = b.calls_to(pat)
        n += 1
        cx.check(bool(cs) and all(b.set_dominates([c.bb for c in cs], x) for x in ex), "every added entry updates the table's %s" % pat.split("::")[-1], "table-bound-conditional|%s" % pat.split("::")[-1], b.where())
    cx.floor("table bound updates", n, 4)
    # the value feeding the time range is the entry's own timestamp
    for i, j, lhs, rv, line in b.assigns():
        if i in b.live and any(isinstance(p, list) and p[0] == "f" and p[2] in ("oldest_key_time", "newest_key_time") for p in lhs[1:]):
            o = origin_of_operand(b, _rvop(rv), through_calls="all")
            cx.check("timestamp" in o.field_names(), "the time range is fed from the entry's timestamp", "table-time-source", "%s:%d" % (b.file, line))


def _rvop(rv):
    from ..core import _rvalue_operands
    ops = _rvalue_operands(rv)
    return ops[0] if ops else ["k", {"ty": "?"}]


@rule("C10", "C10.R8", "tables can be pruned by time window only because every entry (tombstones too) widens the recorded range")
def r8(cx):
    rule_table_bounds_cover_every_entry(cx)


@rule("C10", "C10.R9", "the version order is total: equal (key, timestamp) are told apart by the sequence number")
def r9(cx):
    """`cmp_by_timestamp` is the key order of the B+tree version index and the merge order of every history cursor.  Two
    committed versions of a key may carry the same timestamp (timestamps are only non-decreasing; `set k@5` then
    `soft-delete k@5`).  If the order stops at the timestamp they are EQUAL keys: the index insert overwrites the first
    with the second (a retained version is lost, the two back ends disagree) and the merge order among them is arbitrary.
    Decided: the comparison consults the sequence number (trailer) of both keys."""
    f = cx.f
    b = f.body("InternalKey::cmp_by_timestamp")
    reads = set()
    for i, j, lhs, rv, line in b.assigns():
        from ..core import rvalue_places
        for pl in rvalue_places(rv):
            for p_ in pl[1:]:
                if isinstance(p_, list) and p_[0] == "f":
                    reads.add(p_[2])
    calls = {c.primary.split("::")[-1] for c in b.calls if c.bb in b.live}
    for cb in f.closures_of(b):
        calls |= {c.primary.split("::")[-1] for c in cb.calls if c.bb in cb.live}
        for i, j, lhs, rv, line in cb.assigns():
            for pl in rvalue_places(rv):
                for p_ in pl[1:]:
                    if isinstance(p_, list) and p_[0] == "f":
                        reads.add(p_[2])
    cx.check("user_key" in reads and "timestamp" in reads, "cmp_by_timestamp orders by user key, then timestamp", "version-order-shape", b.where())
    cx.check("trailer" in reads or "seq_num" in calls, "...and breaks ties by the sequence number", "version-order-not-total", b.where(),
             "InternalKey::cmp_by_timestamp stops at the timestamp: two versions of a key with the same timestamp are equal keys for the version index (the second insert "
             "overwrites the first: history loses a retained version once the index holds them, and differs from the index-less back end) and for the history merge")


@rule("C10", "C10.R10", "every source of a history merge is sorted by the merge's own order")
def r10(cx):
    """A k-way merge is correct only over inputs sorted by the comparator it merges with.  The history merge over the
    version index uses the timestamp order (key, timestamp desc, seq desc); the B+tree is stored in that order, but a
    memtable iterates in the write order of the skiplist (key, seq desc).  The two agree while timestamps grow with
    commits; with the index enabled out-of-order timestamps are legal (back-filling), and then a memtable hands the merge
    an unsorted run: versions come out oldest first, and the `below the window, so everything after it is too` shortcut
    skips versions that lie inside a timestamp window -- until a flush moves them into the index.  Decided: a merge built
    with the timestamp comparator takes no child that iterates a memtable directly."""
    f = cx.f
    b = f.body("KMergeIterator::new_for_history_with_btree")
    ts_cmp = any("TimestampComparator" in (c.primary + str(c.callee.get("a"))) for c in b.calls if c.bb in b.live)
    mem = [c for c in b.calls if c.bb in b.live and c.primary.split("::")[-1] in ("range", "iter") and "MemTable" in (c.primary + str(c.callee.get("a")) + str(c.callee.get("self")))]
    cx.note("new_for_history_with_btree: timestamp comparator=%s, memtable children=%d" % (ts_cmp, len(mem)))
    if not ts_cmp:
        raise AnchorMissing("new_for_history_with_btree no longer builds a TimestampComparator")
    for c in mem:
        cx.check(False, "the index-backed history merge has no child in memtable order", "history-source-order-mismatch|%s" % ("loop" if b.in_cycle(c.bb) else "active"), c.where(),
                 "the history merge over the version index (timestamp order) takes a memtable iterator (write order: key, seq desc) as a child: with out-of-order timestamps -- legal "
                 "when the index is on -- the run is not sorted for the merge; `set k@200; set k@100` lists [100, 200] and a window (150, 250) lists nothing until a flush")
    if not mem:
        cx.ok("no memtable-order child in the index-backed history merge", b.where())
