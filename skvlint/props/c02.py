"""C02 — acknowledged commits survive crashes."""
from ..registry import rule
from .walrules import *

EXPLANATION = ("Schedule-independent necessary conditions of durability, decided on all paths: a commit is acknowledged "
               "only after its record was appended (and fsynced when immediate durability is requested); a memtable is "
               "forgotten and its WAL segment reclaimed only after table file, value log and manifest reached the disk in "
               "that order; the manifest is replaced atomically (write, fsync, rename, fsync); a batch is never applied to a "
               "memtable paired with a different WAL segment than the one holding its record; the WAL writer is opened on a "
               "validated/repaired segment; sequence counters restart above everything recovered.  File-system semantics "
               "beyond 'fsync is on the path' are NOT decided.")
ASSUMPTIONS = ["MIR models control flow faithfully", "fsync/rename behave per POSIX", "call graph: dyn CommitEnv expands to in-crate implementors"]


@rule("C02", "C02.R1", "a commit is acknowledged only after append (+ fsync for immediate durability)")
def r1(cx):
    rule_append_sync_before_ack(cx)
    b = cx.f.coroutine_of("CommitPipeline::commit")
    wr = sites(cx, b, "CommitEnv::write")
    ap = sites(cx, b, "CommitEnv::apply")
    dom(cx, b, wr, ap, "log write before memtable apply")
    enq = sites(cx, b, "CommitQueue::enqueue")
    for x in [x for x, k in exits(b) if k in ("ok", "tail")]:
        if x in b.reachable_after([enq[0].bb]):
            cx.check(b.set_dominates([c.bb for c in wr], x), "a non-empty batch is acknowledged only after CommitEnv::write", "ack-without-log", b.where(x))


@rule("C02", "C02.R2", "flush ordering: table, value log, manifest on disk before memtable/WAL are released")
def r2(cx):
    rule_flush_ordering(cx)
    rule_tables_fsynced_before_install(cx)
    cleanup_bounds(cx)


@rule("C02", "C02.R3", "the manifest is replaced atomically")
def r3(cx):
    rule_atomic_manifest_replace(cx)


@rule("C02", "C02.R4", "a batch is applied to the memtable paired with the segment that holds its record")
def r4(cx):
    rule_rotate_not_in_apply(cx)
    # rotation itself pairs the new memtable with the new segment under the active-memtable write lock
    f = cx.f
    b = f.body("CoreInner::rotate_memtable")
    rot = sites(cx, b, "Wal::rotate")
    sw = sites(cx, b, "std::mem::replace")
    setw = sites(cx, b, "MemTable::set_wal_number")
    gs = [g for g in guard_regions(b, lock_wrappers(f)) if g.lock.endswith("active_memtable") and g.mode == "write"]
    if not gs:
        raise AnchorMissing("rotate_memtable: no active memtable write lock")
    for c in rot + sw + setw:
        cx.check(c.bb in gs[0].region, "rotate_memtable: `%s` under the active-memtable write lock" % c.primary.split("::")[-1], "rotate-unlocked|%s" % c.primary.split("::")[-1], c.where())
    dom(cx, b, rot, sw, "WAL rotated before the memtable is swapped")
    for c in setw:
        o = origin_of_operand(b, c.args[1])
        cx.check(o.from_call("Wal::get_active_log_number"), "the fresh memtable is paired with the new active segment", "pairing-source", c.where())
    add = sites(cx, b, "ImmutableMemtables::add")
    for c in add:
        o = origin_of_operand(b, c.args[2])
        cx.check(o.from_call("Wal::get_active_log_number"), "the rotated memtable is queued with the segment number it was written under", "queued-wal-number", c.where())
        got = [x for x in o.calls if x.names & {"Wal::get_active_log_number"}]
        cx.check(all(b.set_dominates([x.bb], rot[0].bb) for x in got), "...read before the rotation", "queued-wal-number-after-rotate", c.where(),
                 "rotate_memtable queues the old memtable with the segment number read after the rotation: its segment is reclaimed one flush too late/early")


@rule("C02", "C02.R5", "the WAL writer appends to a validated / repaired segment")
def r5(cx):
    rule_open_after_repair(cx)
    rule_append_after_validated_tail(cx)
    # open_with_min_log_number never goes below the highest segment on disk
    f = cx.f
    b = f.body("Wal::open_with_min_log_number")
    for c in sites(cx, b, "Wal::create_writer"):
        o = origin_of_operand(b, c.args[1], through_calls="all")
        cx.check(o.from_call("std::cmp::max", "std::cmp::Ord::max") and from_highest_segment_on_disk(f, o),
                 "the active segment is max(min_log_number, highest segment on disk)", "active-segment-floor", c.where(),
                 "open_with_min_log_number no longer takes max(min_log_number, highest on disk): new commits go to a segment recovery will skip")


@rule("C02", "C02.R6", "sequence counters restart above everything recovered")
def r6(cx):
    rule_seq_floor_on_open(cx)
    rule_wal_open_floor(cx)


@rule("C02", "C02.R7", "rotation makes the outgoing WAL segment and the new segment's name durable")
def r7(cx):
    rule_rotation_seals_segment(cx)
    rule_one_memtable_per_segment(cx)
