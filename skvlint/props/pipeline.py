"""helpers about the commit pipeline shared by C04/C05/C15/C17"""
from ..core import guard_regions, lock_wrappers, origin_of_operand, AnchorMissing
from .common import *

COMMIT = "commit::CommitPipeline::commit::{closure#0}"


def commit_body(cx):
    return cx.f.coroutine_of("CommitPipeline::commit")


def write_mutex_guard(cx, body):
    gs = [g for g in guard_regions(body, lock_wrappers(cx.f)) if g.lock.endswith("write_mutex")]
    if len(gs) != 1:
        raise AnchorMissing("expected exactly one write_mutex acquisition in commit(), found %d" % len(gs))
    return gs[0]



def await_polls(body, future_calls):
    """poll call blocks of awaits on the futures created by `future_calls`"""
    res = []
    for c in body.calls:
        if not c.args or c.args[0][0] not in ("c", "m"):
            continue
        if not (c.primary.endswith("{closure#0}") or "Future>::poll" in c.primary or c.primary.endswith("Future::poll")):
            continue
        o = origin_of_operand(body, c.args[0], through_calls=True)
        if any(x in future_calls for x in o.calls):
            res.append(c.bb)
    if not res:
        raise AnchorMissing("await of %s not found in %s" % (future_calls, body.id))
    return res


def atomic_field_ops(cx, field, skip=("load", "new")):
    """every atomic operation in the crate whose receiver derives from struct field `field`"""
    res = []
    for body in cx.f.scan_bodies():
        for c in body.calls:
            if c.bb not in body.live or not c.args:
                continue
            if not any(t.startswith("std::sync::atomic::Atomic") for t in c.targets):
                continue
            meth = c.primary.split("::")[-1]
            if meth in skip:
                continue
            o = origin_of_operand(body, c.args[0])
            if field in o.field_names():
                res.append((body, c, meth))
    return res


def log_seq_num_writers(cx):
    n = 0
    allowed = {"commit::CommitPipeline::commit": ("fetch_add",), "commit::CommitPipeline::set_seq_num": ("store",)}
    for body, c, meth in atomic_field_ops(cx, "log_seq_num"):
        n += 1
        owner = cx.f.fn_of(body).id
        cx.check(owner in allowed and meth in allowed[owner],
                 "log_seq_num.%s in `%s` is an allowed writer" % (meth, owner), "who:log_seq_num|%s.%s" % (owner, meth),
                 c.where(), "log_seq_num is modified by `%s` (%s): only the fetch_add in the commit critical section "
                 "and set_seq_num (open/restore) may move the sequence allocator" % (owner, meth))
    cx.floor("log_seq_num writers", n, 2)


def arm_of_result(cx, body, call, what):
    e = result_edges(body, call)
    if e is None:
        raise AnchorMissing("the result of %s in %s is not branched on in a recognised way" % (what, body.id))
    return e
