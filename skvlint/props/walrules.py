"""rules shared by C02 (durability), C03 (atomic recovery), C12 (log framing), C07 (reopen)"""
from ..core import (origin_of_operand, AnchorMissing, guard_regions, lock_wrappers, comparisons, rel_str, mirror,
                    const_eval, feasible_reach, REL)
from .common import *
from ..core import result_fate
from ..core import _rvalue_operands, rvalue_places

FS_MUTATORS = ["std::fs::rename", "std::fs::remove_file", "std::fs::remove_dir_all", "std::fs::File::set_len",
               "std::fs::File::create", "std::fs::write", "std::fs::OpenOptions::open", "std::fs::create_dir_all",
               "std::fs::remove_dir", "std::fs::copy", "std::fs::hard_link"]


def rule_append_sync_before_ack(cx):
    f = cx.f
    impls = [b for b in f.bodies_like("CommitEnv::write") if b.impl_trait]
    cx.floor("CommitEnv::write implementors", len(impls), 1)
    for b in impls:
        ap = sites(cx, b, "Wal::append")
        sy = sites(cx, b, "Wal::sync")
        oks = [x for x, k in exits(b) if k in ("ok", "tail")]
        for x in oks:
            cx.check(b.set_dominates([c.bb for c in ap], x), "`%s` returns Ok only after Wal::append" % b.id, "ack-without-append|%s" % b.id, b.where(x),
                     "`%s` can acknowledge a batch that was never appended to the commit log" % b.id)
        # the sync branch is controlled by the `sync` parameter
        sync_params = [l for l in range(1, b.argc + 1) if b.local_name(l) == "sync"]
        if not sync_params:
            raise AnchorMissing("CommitEnv::write has no `sync` parameter")
        from ..core import bool_edges, edge_condition
        e, sw = bool_edges(b, sync_params[0], 0) if False else _param_switch(b, sync_params[0])
        if e is None:
            cx.bad("sync-param-unused|%s" % b.id, "the `sync` parameter of `%s` does not control a branch" % b.id, b.where())
        else:
            for c in sy:
                cond = edge_condition(b, sw, e, c.bb)
                cx.check(cond is not None and True in cond, "Wal::sync is reached when sync == true", "sync-polarity|%s" % b.id, c.where())
            # with sync == true, every Ok exit passes Wal::sync
            true_succ = [s for s, lab in e.items() if True in lab]
            r = b.reachable_from(true_succ, avoid={c.bb for c in sy})
            bad = [x for x in oks if x in r]
            cx.check(not bad, "with sync == true every Ok return passes Wal::sync", "ack-without-sync|%s" % b.id, b.where(bad[0]) if bad else b.where(),
                     "`%s` can return Ok for an immediate-durability commit without calling Wal::sync" % b.id)
        dom(cx, b, ap, sy, "append before sync")
        # the bytes appended are the encoding of the batch built from all entries
        for c in ap:
            o = origin_of_operand(b, c.args[1])
            cx.check(o.from_call("Batch::encode"), "the appended record is Batch::encode() of the processed batch", "append-not-encoded|%s" % b.id, c.where())
        # append/sync run under the WAL write lock
        gs = [g for g in guard_regions(b, lock_wrappers(f)) if g.lock == "WalManager.inner" and g.mode == "write"]
        cx.check(bool(gs) and all(c.bb in gs[0].region for c in ap + sy), "append and sync run under one WAL write lock", "append-unlocked|%s" % b.id, b.where())
    # Transaction::commit: sync flag derives from durability == Immediate
    cb = f.coroutine_of("Transaction::commit")
    for c in sites(cx, cb, "Core::commit"):
        o = origin_of_operand(cb, c.args[2])
        cx.check("durability" in o.field_names() or o.from_call("std::cmp::PartialEq::eq"), "the sync flag derives from the transaction's durability", "sync-flag-source", c.where(),
                 "Transaction::commit no longer derives the sync flag from its durability setting")
    # Core::commit / pipeline forward it unchanged
    for fn, callee, idx_in, idx_out in (("Core::commit", "CommitPipeline::commit", 2, 2),):
        b = f.coroutine_of(fn)
        for c in sites(cx, b, callee):
            cx.check(_reads_upvar_named(b, c.args[idx_out], "sync"), "%s forwards `sync` unchanged" % fn, "sync-forward|%s" % fn, c.where())
    pb = f.coroutine_of("CommitPipeline::commit")
    for c in sites(cx, pb, "CommitEnv::write"):
        cx.check(_reads_upvar_named(pb, c.args[3], "sync"), "the pipeline hands the caller's sync flag to the WAL writer", "sync-forward|pipeline", c.where(),
                 "CommitPipeline::commit no longer passes the caller's `sync` flag to CommitEnv::write")
    # BufferedFileWriter::sync: flush then sync_all
    sb = f.body("<BufferedFileWriter as WritableFile>::sync")
    fl = sites(cx, sb, "std::io::Write::flush")
    sa = sites(cx, sb, "std::fs::File::sync_all")
    dom(cx, sb, fl, sa, "buffered bytes are flushed before fsync")
    # no Ok exit with pending_sync == true skips sync_all: the early return is guarded by !pending_sync
    wb = f.body("Writer::sync")
    cx.check(f.may_reach(wb.id, "std::fs::File::sync_all"), "Writer::sync reaches File::sync_all", "writer-sync-no-fsync", wb.where(),
             "wal::Writer::sync no longer reaches fsync")
    wm = f.body("Wal::sync")
    cx.check(f.may_reach(wm.id, "std::fs::File::sync_all"), "Wal::sync reaches File::sync_all", "wal-sync-no-fsync", wm.where())
    ws = f.body("WalManager::sync")
    fl = sites(cx, ws, "Wal::flush")
    sa = sites(cx, ws, "std::fs::File::sync_all")
    dom(cx, ws, fl, sa, "WalManager::sync flushes the buffer before fsync")
    for x in [x for x, k in exits(ws) if k in ("ok",)]:
        cx.check(ws.set_dominates([c.bb for c in sa], x), "WalManager::sync returns Ok only after fsync", "walmanager-ack", ws.where(x))


def _param_switch(b, local):
    """switch on a bool parameter (through copies/Not)"""
    from ..core import bool_edges
    neg = {local}
    # find the first block that copies the param into a switch operand
    for blk in sorted(b.live):
        e, sw = bool_edges(b, local, blk)
        if e is not None:
            return e, sw
    return None, None


def _reads_upvar_named(body, op, name):
    if op[0] not in ("c", "m"):
        return False
    o = origin_of_operand(body, op)
    return name in o.upvar_names and not o.ops


def rule_flush_ordering(cx):
    f = cx.f
    b = f.body("CoreInner::flush_immutable_to_sst")
    fl = sites(cx, b, "MemTable::flush")
    ap = sites(cx, b, "LevelManifest::apply_changeset")
    wr = sites(cx, b, "levels::write_manifest_to_disk")
    rm = sites(cx, b, "ImmutableMemtables::remove")
    dom(cx, b, fl, ap, "table file written before it is installed in the manifest")
    dom(cx, b, ap, wr, "in-memory changeset before manifest write")
    ok, err = result_edges(b, wr[0]) or (None, None)
    if ok is None:
        raise AnchorMissing("result of write_manifest_to_disk in flush is not branched on")
    r = feasible_reach(b, err)
    cx.check(not any(c.bb in r for c in rm), "the immutable memtable is dropped only after the manifest reached the disk", "remove-after-failed-manifest", wr[0].where(),
             "flush forgets the memtable although the manifest write failed: its data is in no table and its WAL segment may be cleaned")
    dom(cx, b, wr, rm, "manifest on disk before the memtable is forgotten")
    # changeset carries the new table and log_number = wal_number + 1
    lognum = None
    for i, j, lhs, rv, line in b.assigns():
        fs = [p for p in lhs[1:] if isinstance(p, list) and p[0] == "f"]
        if fs and fs[-1][2] == "log_number" and "ManifestChangeSet" in fs[-1][3]:
            o = origin_of_operand(b, ["c", [lhs[0]]]) if False else origin_of_operand(b, _rv_operand(rv))
            one = [k for k in o.consts if k.get("v") == "1"]
            pn = any(b.local_name(l) == "wal_number" for l, _ in o.params)
            lognum = i
            cx.check(pn and one and any(x.startswith("Add") for x in o.ops), "changeset.log_number = wal_number + 1", "log-number-expr", "%s:%d" % (b.file, line),
                     "the flush changeset no longer sets log_number to wal_number + 1: recovery replays too little or the flushed segment is never reclaimed")
            cx.check(b.set_dominates([i], ap[0].bb), "log_number is part of the same changeset as the new table", "log-number-separate", "%s:%d" % (b.file, line))
    cx.check(lognum is not None, "the flush changeset sets log_number", "log-number-missing", b.where())
    pushes = [c for c in b.calls_to("std::vec::Vec::push") if "new_tables" in origin_of_operand(b, c.args[0]).field_names()]
    cx.check(bool(pushes) and all(b.set_dominates([c.bb], ap[0].bb) for c in pushes), "the new table is in the changeset before it is applied", "table-not-in-changeset", b.where())
    # MemTable::flush: finish -> vlog sync -> table file sync -> Ok
    mb = f.body("MemTable::flush")
    fin = sites(cx, mb, "TableWriter::finish")
    sy = [c for c in mb.calls if c.bb in mb.live and (c.names & {"std::fs::File::sync_all", "File::sync_all", "vfs::File::sync", "vfs::File::sync_all", "SysFile::sync_all"} or c.primary.endswith("::sync_all"))]
    cx.floor("table file fsync in MemTable::flush", len(sy), 1)
    vs = mb.calls_to("VLog::sync")
    cx.floor("VLog::sync in MemTable::flush", len(vs), 1)
    dom(cx, mb, fin, vs, "table finished before value log sync")
    dom(cx, mb, fin, sy, "table finished before table file fsync")
    for x in [x for x, k in exits(mb) if k in ("ok", "tail")]:
        cx.check(mb.set_dominates([c.bb for c in sy], x), "MemTable::flush returns Ok only after the table file was fsynced", "flush-ack-without-fsync", mb.where(x),
                 "MemTable::flush can return a table whose file was never fsynced: the manifest may reference a table lost at power failure")
    # feasibility note: vlog sync only when vlog present
    # WAL clean-up after flush
    ob = f.body("CoreInner::flush_oldest_immutable_to_sst")
    fc = sites(cx, ob, "CoreInner::flush_immutable_to_sst")
    sp = [c for c in ob.calls if c.primary.startswith("tokio::spawn") or c.primary.endswith("task::spawn")]
    cx.floor("async WAL clean-up spawn", len(sp), 1)
    ok, err = result_edges(ob, fc[0]) or (None, None)
    if ok is None:
        raise AnchorMissing("result of flush_immutable_to_sst not branched on in flush_oldest_immutable_to_sst")
    r = feasible_reach(ob, err)
    cx.check(not any(c.bb in r for c in sp), "WAL clean-up is scheduled only after a successful flush", "cleanup-after-failed-flush", fc[0].where(),
             "old WAL segments are cleaned although the flush failed")
    dom(cx, ob, fc, sp, "flush before WAL clean-up")


SYNC_CALLS = {"std::fs::File::sync_all", "std::fs::File::sync_data", "File::sync_all", "vfs::File::sync", "vfs::File::sync_all", "SysFile::sync_all"}


def rule_tables_fsynced_before_install(cx):
    """Every function that finishes a table file (TableWriter::finish) hands it on only after fsyncing it: the manifest that
    is written next references the table, the inputs (memtable + WAL segment, or the merged tables) are released right
    after, so under the power-loss model (only fsynced file data survives) an unsynced table loses acknowledged commits.
    Sibling cross-check: flush and compaction are the two producers of tables and must both do it."""
    f = cx.f
    cs = f.callers_of("TableWriter::finish")
    cx.floor("table producers (TableWriter::finish call sites)", len(cs), 2)
    for c in cs:
        b = c.body
        owner = f.fn_of(b).id
        sy = [x for x in b.calls if x.bb in b.live and (x.names & SYNC_CALLS or x.primary.endswith("::sync_all") or x.primary.endswith("::sync_data"))]
        oks = [x for x, k in exits(b) if k in ("ok", "tail")]
        if not sy:
            cx.bad("table-finish-without-fsync|%s" % owner, "`%s` finishes a table file and returns without fsyncing it; the manifest written next references the table and "
                   "the inputs are deleted: after a power loss the table's blocks can be missing although its commits were acknowledged long ago" % owner, c.where(), fn=owner)
            continue
        mpt(cx, b, [c], sy, "`%s`: the finished table is fsynced before it is handed on" % owner, to=oks, key="table-finish-without-fsync")
        for x in sy:
            fate = result_fate(b, x)
            cx.check(fate in (None, "propagated", "handled"), "`%s`: a failed table fsync is not ignored (%s)" % (owner, fate), "table-fsync-error-dropped|%s" % owner, x.where())


def _rv_operand(rv):
    ops = _rvalue_operands(rv)
    if rv[0] == "agg" and ops:
        return ops[0]
    return ops[0] if ops else ["k", {"ty": "?"}]


def cleanup_bounds(cx):
    """every call of cleanup_old_segments takes its bound from wal_number + 1 of the flushed entry or
    from the manifest's log_number"""
    f = cx.f
    cs = f.callers_of("wal::cleanup_old_segments", "cleanup_old_segments")
    cx.floor("cleanup_old_segments call sites", len(cs), 2)
    for c in cs:
        body = c.body
        o = origin_of_operand(body, c.args[1])
        via_manifest = o.from_call("LevelManifest::get_log_number")
        via_upvar = False
        if body.kind in ("closure", "coroutine") and not via_manifest:
            # captured `min_wal_to_keep`: follow into the parent
            par = f.bodies.get(body.parent)
            for n, pl in body.raw.get("upvars", []):
                pass
            if par is not None:
                for i, j, lhs, rv, line in par.assigns():
                    if par.local_name(lhs[0]) == "min_wal_to_keep" and len(lhs) == 1:
                        po = origin_of_operand(par, ["c", lhs])
                        one = [k for k in po.consts if k.get("v") == "1"]
                        if "wal_number" in po.field_names() and one and any(x.startswith("Add") for x in po.ops):
                            via_upvar = True
        if body.kind in ("closure", "coroutine"):
            # a DEFERRED clean-up (spawned task) runs at an unknown later time: a bound computed when the task was created can
            # be stale -- a restore may have rewound the WAL numbering in between, and the stale bound then covers the rewound,
            # active segment.  The task must read the bound (the manifest's log_number) when it runs.
            cx.check(via_manifest, "the deferred WAL clean-up in `%s` reads its bound from the manifest when it runs" % f.fn_of(body).id,
                     "deferred-cleanup-stale-bound|%s" % f.fn_of(body).id, c.where(),
                     "the WAL clean-up task spawned by `%s` uses a bound captured at spawn time: if restore_from_checkpoint rewinds the WAL numbering before the task runs, it "
                     "deletes the rewound, active segment and commits acknowledged after the restore are lost at the next open" % f.fn_of(body).id)
        cx.check(via_manifest or via_upvar, "cleanup_old_segments bound comes from the manifest's log_number or entry.wal_number + 1",
                 "cleanup-bound|%s" % f.fn_of(body).id, c.where(),
                 "cleanup_old_segments is called in `%s` with a bound that is neither the manifest log_number nor flushed wal_number + 1: "
                 "a segment that still holds unflushed commits can be deleted" % f.fn_of(body).id)
    # the deletion predicate inside: segment_id < min
    cb = f.body("wal::cleanup_old_segments")
    rmf = sites(cx, cb, "std::fs::remove_file")
    n = 0
    for cmp_ in comparisons(cb):
        lo, ro = origin_of_operand(cb, cmp_.lhs), origin_of_operand(cb, cmp_.rhs)
        pmin = lambda o: any(cb.local_name(l) == "min_wal_number" for l, _ in o.params)
        if pmin(ro) and not pmin(lo):
            flip = False
        elif pmin(lo) and not pmin(ro):
            flip = True
        else:
            continue
        n += 1
        for c in rmf:
            cond = cmp_.condition_to_reach(c.bb)
            if cond is not None and flip:
                cond = mirror(cond)
            cx.check(cond == frozenset({"lt"}), "a segment is removed only if its id < min_wal_number", "cleanup-predicate", cmp_.where(),
                     "cleanup_old_segments removes segments with id %s min_wal_number" % (rel_str(cond) if cond is not None else "<unconstrained>"))
    cx.floor("cleanup predicate", n, 1)


def rule_atomic_manifest_replace(cx):
    f = cx.f
    b = f.body("levels::replace_file_content")
    wa = sites(cx, b, "std::io::Write::write_all")
    sa = sites(cx, b, ["std::fs::File::sync_all"], minimum=2)
    rn = sites(cx, b, "std::fs::rename")
    first_sync = [c for c in sa if c.bb not in b.reachable_after([rn[0].bb])]
    last_sync = [c for c in sa if c.bb in b.reachable_after([rn[0].bb])]
    cx.floor("temp-file fsync", len(first_sync), 1)
    cx.floor("post-rename fsync", len(last_sync), 1)
    dom(cx, b, wa, first_sync, "content written before the temp file is fsynced")
    dom(cx, b, first_sync, rn, "temp file fsynced before rename")
    dom(cx, b, rn, last_sync, "rename before final fsync")
    for x in [x for x, k in exits(b) if k == "ok"]:
        cx.check(b.set_dominates([c.bb for c in last_sync], x) and b.set_dominates([rn[0].bb], x), "replace_file_content returns Ok only after rename + fsync", "replace-ack", b.where(x))
    # rename target is the manifest path parameter; source is the temp path
    o = origin_of_operand(b, rn[0].args[1], through_calls="all")
    cx.check(any(b.local_name(l) == "file_path" for l, _ in o.params), "rename target is the requested path", "rename-target", rn[0].where())
    who_calls(cx, ["std::fs::rename"], {"levels::replace_file_content", "wal::recovery::repair_corrupted_wal_segment"}, "std::fs::rename callers", "who:rename", minimum=2)
    # the manifest path is only written through replace_file_content
    wm = f.body("levels::write_manifest_to_disk")
    cx.check(bool(wm.calls_to("levels::replace_file_content")), "write_manifest_to_disk goes through replace_file_content", "manifest-not-atomic", wm.where(),
             "write_manifest_to_disk no longer replaces the manifest atomically")
    who_calls(cx, ["levels::replace_file_content"], {"levels::write_manifest_to_disk", "checkpoint::CheckpointMetadata::write", "checkpoint::DatabaseCheckpoint::write_metadata",
                                                      "checkpoint::DatabaseCheckpoint::create_checkpoint", "levels::LevelManifest::new"}, "replace_file_content callers", "who:replace", minimum=1)


def rule_rotate_not_in_apply(cx):
    f = cx.f
    impls = [b for b in f.bodies_like("CommitEnv::apply") if b.impl_trait]
    cx.floor("CommitEnv::apply implementors", len(impls), 1)
    for b in impls:
        reaches = f.may_reach(b.id, "Wal::rotate")
        path = f.witness_path(b.id, {"Wal::rotate"}) if reaches else None
        key = "rotate-in-apply|%s" % "→".join(_short(x) for x in (path or []))
        cx.check(not reaches, "`%s` never rotates the WAL: a batch is applied to the memtable paired with the segment its record went to" % b.id, key, b.where(),
                 "`%s` can rotate the WAL (%s): the batch's record is already in segment N but the batch (or its tail after ArenaFull) is applied to the "
                 "memtable paired with N+1; flushing that memtable sets log_number past N, so the record is never replayed, while the prefix applied to the "
                 "old memtable is flushed on its own" % (b.id, " -> ".join(path or [])))


def _short(x):
    x = x.replace("<", "").replace(">", "")
    parts = x.split("::")
    return "::".join(parts[-2:])


def rule_open_after_repair(cx):
    """the WAL writer must be (re)opened after any repair that can replace the segment file"""
    f = cx.f
    for fn in ("Core::new", "Tree::restore_from_checkpoint"):
        b = f.body(fn)
        rep = [c for c in b.calls if c.bb in b.live and f.call_may_reach(c, {"wal::recovery::repair_corrupted_wal_segment", "repair_corrupted_wal_segment"})]
        if not rep:
            raise AnchorMissing("%s no longer reaches WAL repair" % fn)
        opens = [c for c in b.calls if c.bb in b.live and f.call_may_reach(c, {"Wal::open_with_min_log_number", "Wal::open"})
                 and not f.call_may_reach(c, {"repair_corrupted_wal_segment"})]
        for r in rep:
            after = b.reachable_after([r.bb])
            reopened = [c for c in opens if c.bb in after]
            before = [c for c in opens if c.bb not in after]
            ok = bool(reopened) and b.must_pass(r.bb, [c.bb for c in reopened], exits=[x for x, k in exits(b) if k in ("ok", "tail")])[0]
            cx.check(ok, "%s: the WAL writer is opened after the replay/repair step" % fn, "writer-open-before-repair|%s" % fn, r.where(),
                     "%s opens the WAL writer (%s) before `%s` may repair the same segment by rename/remove: after a repair the writer appends to the "
                     "unlinked file, and every commit of the session is lost at the next restart" % (
                         fn, ", ".join(sorted({c.primary for c in before})) or "in CoreInner::new", r.primary))


def rule_wal_open_floor(cx):
    """The store's WAL writer is always opened with a floor at the manifest's log_number.  `Wal::open` picks the
    highest segment present in the directory (0 when empty); if that is below manifest.log_number, acknowledged
    commits are appended to a segment that the next recovery skips as `already flushed`."""
    f = cx.f
    who_calls(cx, ["Wal::open"], {"wal::recovery::repair_corrupted_wal_segment", "repair_corrupted_wal_segment"},
              "floor-less Wal::open is confined to the repair's temporary directory", "who:Wal::open", minimum=1)
    cs = f.callers_of("Wal::open_with_min_log_number")
    cx.floor("store-level WAL opens (with floor)", len(cs), 1)
    for c in cs:
        b = c.body
        o = origin_of_operand(b, c.args[1])
        owner = f.fn_of(b).id
        ok = o.from_call("LevelManifest::get_log_number") and not o.ops
        cx.check(ok, "`%s`: the WAL is opened with floor = manifest.log_number" % owner, "wal-open-floor|%s" % owner, c.where(),
                 "`%s` opens the store's WAL with a floor that is not the manifest's log_number: commits can be appended to a segment "
                 "number the next recovery skips" % owner)
    # ... and it is the log_number of the manifest that is INSTALLED when the writer is opened: not of a manifest value moved
    # out of the shared slot (mem::replace / take / swap), and not read before the function installs a new manifest
    n = 0
    for b in f.scan_bodies():
        gets = [c for c in b.calls if c.bb in b.live and c.primary.split("::")[-1] == "get_log_number" and c.args]
        if not gets or "test" in b.file or not (f.may_reach(b.id, "Wal::open_with_min_log_number") or f.may_reach(b.id, "wal::recovery::replay_wal", "replay_wal")):
            continue
        installs = set()
        for i, j, lhs, rv, line in b.assigns():
            if i in b.live and len(lhs) == 2 and lhs[1] == "*" and rv[0] in ("use", "agg") and b.local_ty(lhs[0]).replace(" ", "").endswith("mutlevels::LevelManifest"):
                installs.add(i)
        for c in b.calls:
            if c.bb in b.live and c.primary in ("std::mem::replace", "std::mem::swap", "std::mem::take") and c.args and "LevelManifest" in b.local_ty(c.args[0][1][0]) if c.args and c.args[0][0] in ("c", "m") else False:
                installs.add(c.bb)
        owner = f.fn_of(b).id
        for g in gets:
            n += 1
            ro = origin_of_operand(b, g.args[0], through_calls="all")
            moved = ro.call_names() & {"std::mem::replace", "std::mem::take", "std::mem::swap"}
            later = [i for i in sorted(installs) if i in b.reachable_after([g.bb]) and i != g.bb]
            cx.check(not moved and not later, "`%s`: log_number is read from the installed manifest" % owner, "wal-floor-stale-manifest|%s" % owner, g.where(),
                     "`%s` takes the WAL floor / replay start from a manifest that is no longer (or not yet) the installed one (%s): after a restore the writer is opened "
                     "below the restored manifest's log_number, and the commits that follow sit in a segment the next recovery skips and close() deletes" % (
                         owner, "value moved out by %s" % sorted(moved)[0] if moved else "read before the new manifest is stored"))
    cx.floor("log_number reads that feed a WAL open / replay", n, 2)


def rule_replay_window(cx):
    """Every replay pass covers the whole unflushed log: the memtables of a pass that ended in a corruption error are
    dropped, so the pass after the repair is the only one whose result is used -- it must start at the same segment
    (the manifest's log_number handed in as `min_wal_number`), not at the repaired one."""
    f = cx.f
    b = f.body("Core::replay_wal_with_repair")
    rs = sites(cx, b, ["wal::recovery::replay_wal", "replay_wal"], minimum=2)
    pm = [i for i in range(1, b.argc + 1) if b.local_name(i) == "min_wal_number"]
    if len(pm) != 1:
        pm = [i for i in range(1, b.argc + 1) if b.local_ty(i) == "u64"]
    if len(pm) != 1:
        raise AnchorMissing("replay_wal_with_repair: cannot identify the min_wal_number parameter")
    for c in rs:
        o = origin_of_operand(b, c.args[1])
        ok = {p[0] for p in o.params} == {pm[0]} and not o.calls and not o.ops and not o.fields
        cx.check(ok, "replay pass starts at the caller's min_wal_number", "replay-window|%s" % ("retry" if c is not rs[0] else "first"), c.where(),
                 "a replay pass in replay_wal_with_repair starts at a segment other than the manifest's log_number (%s): the segments in front of "
                 "it are left out of the recovered state although they are unflushed -> later transactions without earlier ones" % o)


def rule_one_memtable_per_segment(cx):
    """Recovery flushes every replayed memtable but the last with `log_number = its segment + 1`.  That is only right if a
    memtable tagged with segment N holds ALL of segment N that is not in tables yet.  A memtable handed out while the
    segment is still being read (e.g. because it does not fit the arena) holds a prefix: flushing it marks the whole segment
    as flushed while the rest lives in memory only and the writer keeps appending to the same segment -- after the next
    crash that segment is skipped.  Decided in replay_wal: no push onto the result vector lies on a cycle through
    Reader::read() that does not pass the segment iterator."""
    f = cx.f
    b = f.body("wal::recovery::replay_wal")
    rd = [c for c in b.calls if c.bb in b.live and c.names & {"wal::reader::Reader::read", "Reader::read"} and b.in_cycle(c.bb)]
    cx.floor("record loop in replay_wal", len(rd), 1)
    # the segment loop's iterator: the `next` in a cycle whose receiver is not the record reader (a range / slice iterator)
    seg_next = [c for c in b.calls if c.bb in b.live and c.primary.split("::")[-1] == "next" and b.in_cycle(c.bb) and "Reader" not in c.primary
                and ("range" in c.primary.lower() or "Iter" in c.primary)]
    cx.floor("segment loop in replay_wal", len(seg_next), 1)
    pushes = [c for c in b.calls if c.bb in b.live and c.primary.endswith("Vec::push") and "MemTable" in b.local_ty(c.args[0][1][0]) if c.args and c.args[0][0] in ("c", "m")]
    pushes = [c for c in pushes if "MemTable" in (b.local_ty(c.args[1][1][0]) if len(c.args) > 1 and c.args[1][0] in ("c", "m") else "MemTable")]
    cx.floor("result pushes in replay_wal", len(pushes), 1)
    heads = {c.bb for c in seg_next}
    for c in pushes:
        fw = b.reachable_from(list(b.succ[rd[0].bb]), avoid=heads)
        back = b.reachable_from(list(b.succ[c.bb]), avoid=heads)
        partial = c.bb in fw and rd[0].bb in back
        cx.check(not partial, "a replayed memtable is handed out only when its segment has been read to the end", "partial-segment-memtable", c.where(),
                 "replay_wal hands out a memtable while its segment is still being read (the segment did not fit the arena): the caller flushes it with "
                 "log_number = segment + 1 although the rest of the segment exists only in the next memtable and in the WAL; the writer then appends to the same "
                 "segment and the next recovery skips it -- acknowledged commits are lost")


def rule_writer_open_ignores_content(cx):
    """The WAL writer is opened on an existing segment before the replay/repair step has run (CoreInner::new) and again
    afterwards.  Whatever opening a writer reads from the segment (the compression-type probe) must not turn damaged
    CONTENT into an error: judging content is the job of replay, which repairs in the tolerant mode and fails in the strict
    one.  Decided: in the functions Wal::create_writer reaches, the result of decoding a byte of the file
    (RecordType::from_u8 / CompressionType::from_u8) is never propagated."""
    f = cx.f
    cw = f.body("Wal::create_writer")
    n = 0
    seen = set()
    work = [cw]
    while work:
        b = work.pop()
        if b.id in seen:
            continue
        seen.add(b.id)
        for c in b.calls:
            if c.bb not in b.live:
                continue
            if c.names & {"wal::RecordType::from_u8", "RecordType::from_u8", "wal::CompressionType::from_u8", "CompressionType::from_u8"}:
                n += 1
                fate = result_fate(b, c)
                cx.check(fate not in ("propagated", "panics"), "`%s`: an undecodable %s byte is not an error of opening the writer (%s)" % (b.id, c.primary.split("::")[-2], fate),
                         "writer-open-fails-on-content|%s|%s" % (b.name, c.primary.split("::")[-2]), c.where(),
                         "`%s` propagates the error of decoding a byte read from the segment: one damaged byte in the first record makes Tree::new fail before the replay/repair "
                         "step runs, also in TolerateCorruptedWithRepair mode" % b.id)
            for t in c.targets:
                cid = f.canon_to_id.get(t)
                if cid and f.bodies[cid].file.endswith("wal/manager.rs") and cid not in seen:
                    work.append(f.bodies[cid])
    cx.floor("content decodes reachable from Wal::create_writer", n, 1)


def rule_rotation_seals_segment(cx):
    """Recovery repairs a damaged segment and then replays the segments after it; that is prefix-consistent only if a
    non-final segment can never be torn by a crash, i.e. rotation makes the outgoing segment durable (flush + fsync)
    before the next segment exists, and the new segment's directory entry is durable before rotation reports success."""
    f = cx.f
    b = f.body("Wal::rotate")
    SYNC = {"std::fs::File::sync_all", "std::fs::File::sync_data"}
    sy = [c for c in b.calls if c.bb in b.live and f.call_may_reach(c, SYNC) and not f.call_may_reach(c, {"Wal::create_writer", "std::fs::OpenOptions::open"})
          and "active_writer" in origin_of_operand(b, c.args[0]).field_names()] if True else []
    cw = sites(cx, b, "Wal::create_writer")
    cx.check(bool(sy), "rotate syncs the outgoing writer", "rotate-no-sync", b.where(),
             "Wal::rotate no longer fsyncs the outgoing segment: after a power loss a non-final segment can be torn, repair truncates it and the later "
             "segments are still replayed -> later transactions without earlier ones")
    if sy:
        dom(cx, b, sy, cw, "rotate: outgoing segment is fsynced before the next one is created", key="rotate-sync-order")
        # the sync result is propagated (a failed fsync aborts the rotation)
        for c in sy:
            fate = result_fate(b, c)
            cx.check(fate in ("propagated", "handled"), "rotate: a failed fsync of the outgoing segment aborts the rotation (%s)" % fate, "rotate-sync-error-dropped", c.where())
    ds = [c for c in b.calls if c.bb in b.live and c.names & {"lsm::fsync_directory", "fsync_directory"}]
    oks = [x for x, k in exits(b) if k in ("ok", "tail")]
    for c in cw:
        mpt(cx, b, [c], ds, "rotate: directory fsynced after the new segment is created, before Ok", to=oks, key="rotate-dir-sync")
    # BufferedFileWriter::sync: the dirty flag is only cleared after flush + fsync
    for sb in f.bodies_like("WritableFile::sync") or []:
        pass
    cands = [x for x in f.scan_bodies() if x.name == "sync" and x.impl_trait and x.impl_trait.endswith("WritableFile")]
    cx.floor("WritableFile::sync implementations", len(cands), 1)
    for sb in cands:
        fs_ = [c for c in sb.calls if c.bb in sb.live and c.names & SYNC]
        cx.check(bool(fs_), "`%s` reaches fsync" % sb.id, "writable-sync-no-fsync|%s" % sb.id, sb.where(), "`%s` no longer calls sync_all/sync_data" % sb.id)
        clears = [i for i, j, lhs, rv, line in sb.assigns() if i in sb.live and any(isinstance(p, list) and p[0] == "f" and p[2] == "pending_sync" for p in lhs[1:])]
        for i in clears:
            cx.check(sb.set_dominates({c.bb for c in fs_}, i), "`%s`: pending_sync is cleared only after the fsync" % sb.id, "pending-cleared-before-fsync|%s" % sb.id, sb.where(i))
        # skipping the fsync is only allowed on the `nothing pending` edge
        for x in [x for x, k in exits(sb) if k in ("ok", "tail")]:
            r = sb.reachable_from([0], avoid={c.bb for c in fs_})
            if x in r:
                from ..core import bool_edges as _be
                # the early exit must be control dependent on reading pending_sync
                reads = [i for i, j, lhs, rv, line in sb.assigns() if i in sb.live and any(isinstance(p, list) and p[0] == "f" and p[2] == "pending_sync" for pl in rvalue_places(rv) for p in pl[1:])]
                cx.check(bool(reads) and all(sb.set_dominates(reads, x) for _ in [0]), "`%s`: the fsync is skipped only after testing pending_sync" % sb.id,
                         "fsync-skipped-unconditionally|%s" % sb.id, sb.where(x))


def _replay_truncates_torn_tail(cx):
    f = cx.f
    rb = f.body("wal::recovery::replay_wal")
    rd = [c for c in rb.calls if c.bb in rb.live and c.names & {"wal::reader::Reader::read", "Reader::read"}]
    # (directly, or through a helper of the recovery module that shortens the file when it is longer than the valid length)
    cuts = [c for c in rb.calls if c.bb in rb.live and (c.names & {"std::fs::File::set_len"} or f.call_must_reach(c, {"std::fs::File::set_len"})
            or (f.call_may_reach(c, {"std::fs::File::set_len"}) and any(t.startswith("wal::recovery::") for t in c.targets)))]
    if not rd or not cuts:
        return False
    good = False
    for c in cuts:
        # the new length is the offset Reader::read reported for the last complete record
        lens = [origin_of_operand(rb, a, through_calls="all") for a in c.args]
        from_offset = any(any(x in rd for x in o.calls) for o in lens)
        # only on the arm taken when the reader reports the end of the log, not on corruption (repair handles that)
        in_loop = c.bb in loop_of(rb, rd[0].bb) or c.bb in rb.reachable_after([rd[0].bb])
        good = good or (from_offset and in_loop)
        # the cut must not depend on how many complete records the segment holds: with none, the whole content is the torn tail
        for cm in comparisons(rb):
            if cm.condition_to_reach(c.bb) is None:
                continue
            for op in (cm.lhs, cm.rhs):
                o = origin_of_operand(rb, op)
                if any(x.startswith("Add") for x in o.ops) and not o.params and not o.calls:
                    cx.bad("torn-tail-cut-conditional", "replay_wal cuts the torn tail only when a record counter passes a test: a segment whose FIRST record is torn keeps "
                           "its stray bytes, the writer appends behind them and the session's commits are lost at the next recovery", cm.where())
    # ... nor on HOW MANY stray bytes follow the last complete record: the writer appends right behind even a single one.
    # (the only admissible test is `file length` against the valid length itself -- no arithmetic, no other constant)
    names = f.reach_names(rb.id) | {rb.id}
    holders = [b for b in f.scan_bodies() if (b.id in names or f.fn_of(b).id in names) and b.file.endswith("wal/recovery.rs") and "repair" not in (b.name or b.id)
               and any(c.bb in b.live and c.names & {"std::fs::File::set_len"} for c in b.calls)]
    for hb in holders:
        for sl in [c for c in hb.calls if c.bb in hb.live and c.names & {"std::fs::File::set_len"}]:
            for cm in comparisons(hb):
                if cm.condition_to_reach(sl.bb) is None:
                    continue
                for op in (cm.lhs, cm.rhs):
                    o = origin_of_operand(hb, op, through_calls="all")
                    arith = {x for x in o.ops if x.split("(")[0] in ("Sub", "Add", "Mul", "Div", "Rem", "Shr", "Shl", "SubWithOverflow", "AddWithOverflow")}
                    arith |= {n for n in o.call_names() if n.split("::")[-1].split("_")[-1] in ("sub", "add", "div", "rem", "mul")}
                    consts = [k for k in o.consts if (k.get("v") not in (None, 0, "0") or k.get("cdef")) and k.get("ty") in ("u64", "usize", "u32", "i64")]
                    if arith or consts:
                        cx.bad("torn-tail-cut-conditional|threshold", "`%s` cuts the torn tail only when the stray bytes pass a size test (%s): a remainder the test lets through stays in the "
                               "file, the writer appends behind it mid-block, and the next recovery reads a header made of stale and new bytes -- every later commit in the "
                               "segment is cut off while later segments replay" % (hb.id, ", ".join(sorted(arith)) or "constant threshold"), cm.where())
    cx.note("replay_wal truncates the torn tail of the last segment: %s" % good)
    # and the writer is opened after that replay (rule_open_after_repair checks the order in Core::new / restore)
    return good


def rule_append_after_validated_tail(cx):
    f = cx.f
    b = f.body("Wal::create_writer")
    n = 0
    for c in sites(cx, b, "wal::writer::Writer::new", minimum=2):
        o = origin_of_operand(b, c.args[3])
        if not (o.from_call("std::fs::Metadata::len") or "Rem" in o.ops):
            continue
        n += 1
        validated = [x for x in b.calls if x.bb in b.live and f.call_may_reach(x, {"wal::reader::Reader::read", "std::fs::File::set_len"})]
        ok = bool(validated) and b.set_dominates([x.bb for x in validated], c.bb)
        if not ok:
            # alternative protocol: the replay that precedes the (re)opening of the writer cuts the torn tail off itself --
            # on the clean end-of-log arm of the LAST segment it shortens the file to the end of the last complete record
            ok = _replay_truncates_torn_tail(cx)
        cx.check(ok, "appending to an existing segment is preceded by validating/truncating its tail", "append-after-unvalidated-tail", c.where(),
                 "Wal::create_writer resumes an existing segment at `file length %% BLOCK_SIZE` without validating the tail: after a torn write (partial header or "
                 "record) new records are appended behind garbage and are cut off by the next recovery/repair")
    cx.floor("resume-existing-segment sites", n, 1)


def rule_seq_floor_on_open(cx):
    f = cx.f
    for fn in ("Core::new", "Tree::restore_from_checkpoint"):
        b = f.body(fn)
        for c in sites(cx, b, "CommitPipeline::set_seq_num"):
            o = origin_of_operand(b, c.args[1], through_calls="all")
            cx.check(o.from_call("LevelManifest::get_last_sequence"), "%s: the sequence floor includes the manifest's last_sequence" % fn, "seq-floor-manifest|%s" % fn, c.where(),
                     "%s sets the sequence counters without the manifest's last_sequence: new commits can be numbered below flushed data and be shadowed" % fn)
            cx.check(o.from_call("std::cmp::max", "std::cmp::Ord::max") and any(x.primary.endswith("replay_wal_with_repair") for x in o.calls),
                     "%s: the sequence floor is max(manifest, replayed WAL)" % fn, "seq-floor-max|%s" % fn, c.where(),
                     "%s no longer takes max(manifest last_sequence, highest replayed sequence)" % fn)


def rule_one_record_per_txn(cx):
    f = cx.f
    for b in [x for x in f.bodies_like("CommitEnv::write") if x.impl_trait]:
        ap = sites(cx, b, "Wal::append")
        cx.check(len(ap) == 1, "exactly one Wal::append per transaction", "appends-per-txn|%s" % b.id, b.where(), "`%s` appends %d records per transaction" % (b.id, len(ap)))
        cx.check(not b.in_cycle(ap[0].bb), "the append is not inside a loop", "append-in-loop|%s" % b.id, ap[0].where(),
                 "the WAL append is inside a loop: a transaction is split over several records and recovery can apply a part of it")
        enc = sites(cx, b, "Batch::encode")
        add = sites(cx, b, "Batch::add_record")
        cx.check(all(b.in_cycle(c.bb) for c in add), "every entry is copied into the logged batch (add_record inside the entry loop)", "entries-not-all-logged|%s" % b.id, b.where())
        never_after(cx, b, enc, add, "the batch is encoded after all entries were added")
        it = sites(cx, b, "Batch::entries_with_seq_nums")
        o = origin_of_operand(b, it[0].args[0])
        cx.check(any(b.local_name(l) == "batch" for l, _ in o.params), "the logged batch is built from the committed batch", "logged-batch-source|%s" % b.id, it[0].where())
        # returned batch is the one logged
        ret = origin_of_operand(b, ["c", [0]])
    # batch encode: entry count precedes entries; decode loops `count` times
    eb = f.body("Batch::encode")
    db = f.body("Batch::decode")
    cx.check(bool(db.calls_to("integer_encoding::VarInt::decode_var")), "Batch::decode reads varints", "decode-shape", db.where())


def rule_replay_stops(cx):
    f = cx.f
    b = f.body("wal::recovery::replay_wal")
    rd = sites(cx, b, "wal::reader::Reader::read")
    cx.check(len(rd) == 1, "one read site in replay", "replay-read-sites", b.where())
    r = rd[0]
    # classify arms: the match on the result's discriminant + on the error variant
    arms = _error_arms(b, r)
    if arms is None:
        raise AnchorMissing("replay_wal does not match on Reader::read's error variants")
    corr = arms.get("Corruption")
    if not corr:
        raise AnchorMissing("replay_wal has no Corruption arm")
    reach = feasible_reach(b, corr)
    cx.check(r.bb not in reach, "after a corrupted record no further record is read", "replay-continues-after-corruption", r.where(),
             "replay_wal keeps reading after a corrupted record: later transactions are recovered without the missing one")
    adds = sites(cx, b, "MemTable::add")
    cx.check(not any(c.bb in reach for c in adds), "after a corrupted record nothing more is applied", "replay-applies-after-corruption", r.where())
    errx = set(err_exits(b)) | {x for x, k in exits(b) if k == "err"}
    okx = {x for x, k in exits(b) if k in ("ok", "tail")}
    cx.check(not (okx & reach), "the corruption arm returns an error (WalCorruption) to the caller", "replay-swallows-corruption", r.where(),
             "replay_wal can return Ok after hitting a corrupted record")
    # only UnexpectedEof leaves the inner loop normally
    others = [k for k in arms if k not in ("Corruption", "IO")]
    io_arm = arms.get("IO")
    if io_arm:
        r2 = feasible_reach(b, io_arm)
        cx.ok("IO arm present (UnexpectedEof ends the segment)", r.where())
    # Reader::read is sticky
    rb = f.body("wal::reader::Reader::read")
    errs_assigned = []
    for i, j, lhs, rv, line in rb.assigns():
        fs = [p for p in lhs[1:] if isinstance(p, list) and p[0] == "f"]
        if fs and fs[-1][2] == "err" and fs[-1][3].endswith("Reader"):
            errs_assigned.append(i)
    cx.floor("sticky error assignments in Reader::read", len(errs_assigned), 2)
    nx = sites(cx, rb, "wal::reader::Reader::next")
    ok_, err_ = result_edges(rb, nx[0]) or (None, None)
    if ok_ is None:
        raise AnchorMissing("Reader::read does not branch on next()'s result")
    r3 = feasible_reach(rb, err_, avoid=set(errs_assigned))
    bad = [x for x, k in exits(rb) if x in r3 and x not in errs_assigned]
    cx.check(not bad, "every error exit of Reader::read records the error (sticky)", "reader-error-not-sticky", rb.where(bad[0]) if bad else rb.where(),
             "Reader::read can return an error without making it sticky: the next call resumes reading behind the damage")
    # and a sticky error is returned at entry before next() is called again
    first_sw = None
    for cmp_ in ():
        pass
    e0 = [x for x, k in exits(rb) if k in ("err", "tail")]
    cx.check(any(not rb.set_dominates([nx[0].bb], x) for x in e0), "a sticky error is returned before reading again", "reader-sticky-not-checked", rb.where())


def _error_arms(b, call):
    """for `match call() { Ok => .., Err(E::A(..)) => .., Err(E::B) => .. }`: variant name -> [first blocks]"""
    e = result_edges(b, call)
    if e is None:
        return None
    ok, err = e
    # in the err continuation, find the switch on discriminant of the payload `(dest as Err).0`
    seen = set()
    work = list(err)
    while work:
        x = work.pop(0)
        if x in seen:
            continue
        seen.add(x)
        bl = b.blocks[x]
        dl = {}
        for st in bl["s"]:
            if st[0] == "=" and st[2][0] == "discr" and len(st[1]) == 1:
                dl[st[1][0]] = st[2][1]
        t = bl["t"]
        if t[0] == "switch" and t[1][0] in ("c", "m") and t[1][1][0] in dl:
            pl = dl[t[1][1][0]]
            # type of the place: the error enum; map discriminant values to variant names
            ety = _place_enum(b, pl)
            if ety is None:
                return None
            adt = b.facts.adts.get(ety)
            if not adt:
                return None
            res = {}
            used = set()
            for v, tgt in t[2]:
                for var in adt["variants"]:
                    if var["discr"] == v:
                        res.setdefault(var["name"], []).append(tgt)
                        used.add(var["name"])
            res.setdefault("_other", []).append(t[3])
            return res
        if len(b.succ[x]) <= 2:
            work.extend(b.succ[x])
        if len(seen) > 6:
            break
    return None


def _place_enum(b, pl):
    # last field projection's owner is Result/..; we need the payload type: use local type parsing
    from ..core import split_generic_args
    ty = b.local_ty(pl[0])
    cur = ty
    for p in pl[1:]:
        if p == "*":
            cur = cur.lstrip("&").replace("mut ", "", 1).strip() if cur.startswith("&") else cur
        elif isinstance(p, list) and p[0] == "v":
            variant = p[1]
            args = split_generic_args(cur)
            if cur.startswith("std::result::Result<") and len(args) == 2:
                cur = args[0] if variant == "Ok" else args[1]
            elif cur.startswith("std::option::Option<") and args:
                cur = args[0]
        elif isinstance(p, list) and p[0] == "f":
            pass
    cur = cur.strip()
    while cur.startswith("&"):
        cur = cur[1:].replace("mut ", "", 1).strip()
    return cur if cur in b.facts.adts else None


def rule_eof_only_at_block_boundary(cx):
    """Reader::next may report end-of-log (UnexpectedEof) only when no further bytes could be read;
    once a record header has been parsed, every failure is damage, never a clean end"""
    f = cx.f
    b = f.body("wal::reader::Reader::next")
    eofs = []
    for i, j, lhs, rv, line in b.assigns():
        if rv[0] == "agg" and rv[3] and rv[3].get("adt") == "std::io::ErrorKind" and rv[3].get("variant") == "UnexpectedEof":
            eofs.append((i, line))
    cx.floor("UnexpectedEof constructions in Reader::next", len(eofs), 1)
    rm = sites(cx, b, "wal::reader::Reader::read_more")
    ph = sites(cx, b, "wal::reader::Reader::parse_header")
    from ..core import bool_call_condition
    for i, line in eofs:
        # reachable only on the `read_more() == false` edge
        e = result_edges(b, rm[0])
        r = b.reachable_after([ph[0].bb], avoid={c.bb for c in rm})
        cx.check(i not in r, "no end-of-log report after a record header was parsed (before the next block read)", "eof-after-header", "%s:%d" % (b.file, line),
                 "Reader::next reports a clean end-of-log (UnexpectedEof) after it has already parsed a record header: a damaged/torn record is mistaken for the end of the log, "
                 "recovery silently drops it (also in absolute-consistency mode) and later appends land behind it")
        cx.check(b.set_dominates([c.bb for c in rm], i), "end-of-log is reported only after trying to read more bytes", "eof-without-read", "%s:%d" % (b.file, line))


def rule_delete_tables_after_manifest(cx):
    """merged-away table files are deleted only after the manifest that no longer lists them is on disk"""
    f = cx.f
    cs = f.callers_of("Compactor::cleanup_old_tables")
    cx.floor("cleanup_old_tables call sites", len(cs), 1)
    W = {"levels::write_manifest_to_disk"}
    for c in cs:
        b = c.body
        pre = [x for x in b.calls if x.bb in b.live and x is not c and f.call_must_reach(x, W)]
        ok = bool(pre) and b.set_dominates([x.bb for x in pre], c.bb)
        # and not on the failure continuation of that step
        if ok:
            for x in pre:
                e = result_edges(b, x)
                if e is not None and c.bb in feasible_reach(b, e[1]):
                    ok = False
        cx.check(ok, "`%s` deletes merged input tables only after the new manifest was written successfully" % f.fn_of(b).id, "delete-before-manifest|%s" % f.fn_of(b).id, c.where(),
                 "`%s` deletes the merged input table files before (or regardless of whether) the manifest that stops referencing them reached the disk: a failed manifest write or a crash "
                 "in between leaves a manifest that lists missing tables and the store cannot be reopened" % f.fn_of(b).id)
    cb = f.body("Compactor::cleanup_old_tables")
    rm = sites(cx, cb, "std::fs::remove_file")
    o = origin_of_operand(cb, rm[0].args[0], through_calls="all")
    cx.check(o.from_call("Options::sstable_file_path") and "tables_to_merge" in o.field_names(), "cleanup_old_tables removes exactly the merged inputs' files", "cleanup-old-tables-target", rm[0].where())


def rule_every_record_crc_checked(cx):
    """every physical record the reader acts on (data fragments AND metadata records) has its checksum
    compared first; only zero padding is exempt (its bytes are checked to be zero instead)"""
    f = cx.f
    b = f.body("wal::reader::Reader::next")
    crc = sites(cx, b, "wal::calculate_crc32")
    # effects of a record: payload appended to the output, reader state changed (compression type)
    effects = []
    for c in b.calls:
        if c.bb in b.live and c.primary.endswith("extend_from_slice") and "rec" in origin_of_operand(b, c.args[0]).field_names():
            effects.append((c.bb, "payload appended", c.where()))
    for i, j, lhs, rv, line in b.assigns():
        fs = [p for p in lhs[1:] if isinstance(p, list) and p[0] == "f"]
        if fs and fs[-1][2] in ("compression_type", "compression_type_record_read") and fs[-1][3].endswith("Reader"):
            effects.append((i, "reader.%s changed" % fs[-1][2], "%s:%d" % (b.file, line)))
    cx.floor("record effects in Reader::next", len(effects), 2)
    # zero padding: the one header that is consumed without a checksum.  Discarding the rest of the block is allowed only
    # after the remaining bytes were verified to be zero (or nothing remains).
    skips = []
    for i, j, lhs, rv, line in b.assigns():
        fs = [p for p in lhs[1:] if isinstance(p, list) and p[0] == "f"]
        if i in b.live and fs and fs[-1][2] == "buffer_offset" and rv[0] == "use":
            o = origin_of_operand(b, rv[1])
            lens = [c for c in o.calls if c.names & {"std::vec::Vec::len"}]
            if lens and not o.ops and len(o.calls) == len(lens) and all("buffer" in origin_of_operand(b, c.args[0]).field_names() for c in lens):
                skips.append((i, "%s:%d" % (b.file, line)))
    cx.floor("`discard the rest of the block` sites in Reader::next", len(skips), 1)
    zero = [c for c in b.calls if c.bb in b.live and c.primary.split("::")[-1] in ("all", "any") and "Iterator" in c.primary
            and "buffer" in origin_of_operand(b, c.args[0], through_calls="all").field_names()]
    ph0 = sites(cx, b, "wal::reader::Reader::parse_header")
    cut = set()
    for cm in comparisons(b):
        lo, ro = origin_of_operand(b, cm.lhs), origin_of_operand(b, cm.rhs)
        for x, yop in ((lo, cm.rhs), (ro, cm.lhs)):
            if x.from_call("Reader::buffer_remaining") and const_value(yop) == 0:
                flip = x is ro
                for sw, e in cm.switches():
                    for tgt, lab in e.items():
                        lab2 = mirror(lab) if flip else lab
                        if lab2 == frozenset({"eq"}) or lab2 == frozenset({"lt", "eq"}):
                            cut.add((sw, tgt))   # nothing remains: nothing to verify
    for bb_, where in skips:
        r = reach_cut(b, list(b.succ[ph0[0].bb]), avoid={c.bb for c in crc} | {c.bb for c in zero}, cut_edges=cut)
        cx.check(bb_ not in r, "the rest of a block is discarded only after its bytes were checked to be zero", "padding-skipped-unverified", where,
                 "Reader::next discards the rest of a block on a type byte of 0 without checking that the skipped bytes are zero: damage that clears one record's type byte "
                 "makes that record and everything after it in the block vanish silently (a gap, not a prefix), also in absolute-consistency mode")
    for bb_, what, where in effects:
        # since the last header parse, a CRC comparison must lie on every path to the effect
        ph = sites(cx, b, "wal::reader::Reader::parse_header")
        r = b.reachable_after([ph[0].bb], avoid={c.bb for c in crc})
        cx.check(bb_ not in r, "%s only after the record's checksum was computed and compared" % what, "record-effect-without-crc|%s" % what.replace(" ", "_"), where,
                 "Reader::next acts on a record (%s) without verifying its checksum: a damaged type byte turns a data record into a metadata record that is silently "
                 "consumed, so a committed transaction disappears (and later records are mis-decoded) without any corruption report" % what)


def rule_repair_temp_fresh(cx):
    """Repair copies the valid prefix of the damaged segment into a temporary WAL (`wal/repair_temp`) and renames it over
    the original.  `Wal::open` APPENDS to a segment it finds: if a repair that crashed half-way left the directory behind,
    the next repair writes its copy behind the leftover (complete records twice, or a torn record in the middle) and
    installs that -- the store then fails to open, and one more repair cuts records that lay wholly before the damage.
    Decided: on every path to the temporary WAL's open the directory was removed, or tested and found absent."""
    f = cx.f
    from ..core import bool_edges
    b = f.body("wal::recovery::repair_corrupted_wal_segment")
    opens = sites(cx, b, ["Wal::open"], minimum=1)
    for op in opens:
        d0 = origin_of_operand(b, op.args[0], through_calls="all")
        joins = {id(c) for c in d0.calls if c.primary.split("::")[-1] == "join"}
        def same_dir(c):
            if not c.args:
                return False
            o = origin_of_operand(b, c.args[0], through_calls="all")
            return bool(joins & {id(x) for x in o.calls})
        rms = [c for c in b.calls if c.bb in b.live and c.primary.split("::")[-1] in ("remove_dir_all", "remove_file") and same_dir(c)
               and op.bb in b.reachable_after([c.bb])]
        cut = set()
        for c in b.calls:
            if c.bb in b.live and c.primary.split("::")[-1] in ("exists", "try_exists") and same_dir(c) and len(c.dest) == 1 and c.target is not None:
                e, sw = bool_edges(b, c.dest[0], c.target)
                if e:
                    for succ, lab in e.items():
                        if lab == frozenset({False}):
                            cut.add((sw, succ))
        r = reach_cut(b, [0], avoid={c.bb for c in rms}, cut_edges=cut)
        # a removal whose error is swallowed (`.ok()`) does not establish emptiness
        from ..core import result_fate
        weak = [c for c in rms if (result_fate(b, c) or "").startswith("dropped")]
        cx.check(bool(rms) and op.bb not in r and not weak, "the repair's temporary WAL directory is emptied before it is opened", "repair-temp-reused", op.where(),
                 "repair_corrupted_wal_segment opens `repair_temp` with Wal::open (which appends to an existing segment) without removing what an earlier, crashed "
                 "repair left there: the repaired segment becomes leftover + copy, the store fails to open (`still corrupted after repair`) and the next repair cuts "
                 "records that lay wholly before the damage")


def from_highest_segment_on_disk(f, o):
    """the value derives from a listing of the WAL directory (directly or through a helper of the WAL manager)"""
    pats = {"wal::get_segment_range", "get_segment_range", "wal::list_segment_ids", "list_segment_ids"}
    return any((c.names & pats) or f.call_may_reach(c, pats) for c in o.calls)


def rule_resume_offset_exact(cx):
    """When an existing segment is reopened, the writer's position inside the 32 KiB block is re-derived from the file
    size.  Writer and reader agree on the framing only if that position is EXACTLY `file length mod BLOCK_SIZE`: the live
    writer pads a block tail shorter than a header with zero bytes ON DISK before moving on, so a resumed writer that
    merely pretends to be at the next block start (offset 0 without writing the padding) frames every later record 1..6
    bytes off, and the next open lands inside a header.  Decided: the offset handed to the resumed `Writer` has one
    definition, a remainder by the block size, with no other constant and no conditional re-assignment."""
    f = cx.f
    b = f.body("Wal::create_writer")
    n = 0
    for c in sites(cx, b, "wal::writer::Writer::new", minimum=2):
        o = origin_of_operand(b, c.args[3])
        if not (o.from_call("std::fs::Metadata::len") or "Rem" in o.ops):
            continue
        n += 1
        other_consts = [k for k in o.consts if not (k.get("cdef") or "").endswith("BLOCK_SIZE")]
        other_ops = {x for x in o.ops if x.split("(")[0] not in ("Rem",)}
        cx.check(not other_consts and not other_ops, "the resumed writer's block offset is exactly `file length % BLOCK_SIZE`", "resume-offset-adjusted", c.where(),
                 "Wal::create_writer adjusts the resumed block offset (%s): the position no longer equals `file length %% BLOCK_SIZE`, so records appended after a reopen are "
                 "framed against block boundaries the reader does not share -- the next open reports corruption inside its own cleanly written segment (or repair drops the "
                 "session's commits)" % ", ".join(sorted(other_ops) + ["constant %s" % (k.get("v") or k.get("cdef")) for k in other_consts]))
    cx.floor("resumed-writer sites", n, 1)


def rule_replay_never_gives_up_on_size(cx):
    """Replay rebuilds one memtable per WAL segment and, when the configured arena is too small for it, starts the segment
    again with a doubled arena.  A record that is too large for an EMPTY memtable of the configured size (a transaction
    larger than `max_memtable_size`: its commit fails in apply, but its record is durable by then) must take the same
    road -- an error exit on the `ArenaFull` arm turns one failed commit into a directory that can never be opened
    again."""
    f = cx.f
    b = f.body("wal::recovery::replay_wal")
    adds = [c for c in b.calls if c.bb in b.live and c.primary.split("::")[-1] == "add" and "MemTable" in c.primary]
    cx.floor("memtable applies in replay_wal", len(adds), 1)
    for c in adds:
        arms = _error_arms(b, c)
        if not arms or "ArenaFull" not in arms:
            raise AnchorMissing("replay_wal: the ArenaFull arm of MemTable::add was not recognised")
        # (the retry starts where the segment's memtable is created afresh: errors of the NEXT attempt are not this arm's)
        retry = {x.bb for x in b.calls if x.bb in b.live and x.primary.split("::")[-1] == "new" and "MemTable" in x.primary}
        r = feasible_reach(b, arms["ArenaFull"], avoid={c.bb} | retry)
        bad = [x for x, k in exits(b) if k == "err" and x in r]
        cx.check(not bad, "replay_wal: an ArenaFull while applying a record always leads to a retry with a larger arena", "replay-gives-up-on-size", c.where(),
                 "replay_wal returns an error from the ArenaFull arm (a record larger than an empty memtable of the configured size): the record of a transaction that "
                 "failed in apply is durable, so every later open fails with `Batch too large` -- the store cannot reopen what it wrote")
