"""C13 — sorted tables return exactly what was written (thin structural clause set)."""
from ..registry import rule
from ..core import origin_of_operand, AnchorMissing, comparisons, rel_str, mirror, feasible_reach, bool_call_condition, REL
from .common import *
from . import codec

EXPLANATION = ("A deliberately thin set of structural necessary conditions for table files: the filter is fed and probed with "
               "the same projection of the key and a negative probe is the only early 'absent' answer; block building, index search "
               "and in-block seek use the table's internal comparator on both sides (the custom comparator only for history scans, "
               "with its own cache kind); every key updates the table's key-range metadata; a point lookup returns a hit only on "
               "user-key equality; properties / metadata codecs are symmetric.  Separator/successor arithmetic on bytes and "
               "block/partition boundary cases quantify over byte strings and are NOT decided.")
ASSUMPTIONS = ["MIR models control/data flow faithfully"]


@rule("C13", "C13.R1", "filter: fed and probed with the user key; a negative probe is the only early 'absent'")
def r1(cx):
    f = cx.f
    w = f.body("TableWriter::add")
    ak = sites(cx, w, "FilterBlockWriter::add_key")
    ba = sites(cx, w, ["BlockWriter::add", "sstable::block::BlockWriter::add"])
    o = origin_of_operand(w, ak[0].args[1], through_calls="all")
    cx.check("user_key" in o.field_names() and any(w.local_name(l) == "key" for l, _ in o.params), "the filter is fed with key.user_key", "filter-fed-projection", ak[0].where(),
             "the table writer feeds the filter with something other than key.user_key")
    # whenever a filter block exists, every data entry is also added to it: no path to BlockWriter::add on the
    # `filter_block is Some` side avoids add_key
    from ..core import option_edges, bool_edges
    never_after(cx, w, ba, ak, "the filter entry is added before the data entry (same call)")
    am = [c for c in w.calls if c.bb in w.live and c.primary.split("::")[-1] in ("as_mut", "as_ref") and c.args and "filter_block" in origin_of_operand(w, c.args[0]).field_names()
          and len(c.dest) == 1 and c.target is not None]
    some_t = []
    for c in am:
        e, sw = option_edges(w, c.dest[0], c.target)
        if e:
            some_t += [t for t, lab in e.items() if lab == frozenset({"1"})]
    if not some_t:
        raise AnchorMissing("TableWriter::add: the `filter_block is Some` edge was not recognised")
    r = w.reachable_from(some_t, avoid={c.bb for c in ak})
    skipping = [c for c in ba if c.bb in r]
    ok_skip = True
    why = ""
    if skipping:
        # a skip is sound only for an entry whose user key EQUALS one already fed (adding it again sets the same bits):
        # every call-computed condition that decides whether add_key runs must be an equality test
        for c2 in w.calls:
            if c2.bb in w.live and c2.bb in r and len(c2.dest) == 1 and w.local_ty(c2.dest[0]) == "bool" and c2 not in ak and c2.target is not None \
                    and bool_edges(w, c2.dest[0], c2.target)[0] is not None:
                if c2.primary.split("::")[-1] not in ("eq", "ne"):
                    ok_skip = False
                    why = c2.primary.split("::")[-1]
    cx.check(not skipping or ok_skip, "with a filter configured, every entry's user key is fed to it (only an exact repeat may be skipped)", "filter-skips-entry", ak[0].where(),
             "TableWriter::add can write a data entry without feeding its user key to the filter, decided by `%s` (not an equality of user keys): a key the test wrongly takes "
             "for a repeat (a key that extends the previous one by bytes that also start the trailer) is absent from the filter, and Table::get answers `not found` for a stored key" % why)
    g = f.body("Table::get")
    mc = sites(cx, g, "FilterBlockReader::may_contain")
    o = origin_of_operand(g, mc[0].args[1], through_calls="all")
    cx.check("user_key" in o.field_names(), "the filter is probed with key.user_key", "filter-probe-projection", mc[0].where(),
             "Table::get probes the filter with something other than key.user_key")
    # None exits before the index is consulted are controlled by may_contain == false
    ix = sites(cx, g, "Index::find_block_handle_by_key")
    early = [x for x, k in exits(g) if k in ("ok", "tail", "none") and not g.set_dominates([c.bb for c in ix], x)]
    for x in early:
        cond = bool_call_condition(g, mc[0], x)
        cx.check(cond == frozenset({False}), "the only answer given before the index lookup is `filter says absent`", "early-none", g.where(x),
                 "Table::get can answer before consulting the index when may_contain is %s" % (sorted(cond) if cond is not None else "not consulted"))
    cx.floor("early exits of Table::get", len(early), 1)


@rule("C13", "C13.R2", "one ordering on both sides: the table's internal comparator")
def r2(cx):
    f = cx.f
    n = 0
    for fn in ("TableWriter::new", "TableWriter::finish", "TableWriter::write_data_block"):
        b = f.body(fn)
        for c in b.calls_to("BlockWriter::new", "sstable::block::BlockWriter::new"):
            n += 1
            o = origin_of_operand(b, c.args[2], through_calls="all")
            cx.check("internal_comparator" in o.field_names(), "`%s` builds blocks with opts.internal_comparator" % fn, "writer-comparator|%s" % fn, c.where(),
                     "`%s` builds a block with a comparator other than opts.internal_comparator" % fn)
    cx.floor("BlockWriter constructions", n, 2)
    for fn in ("Table::read_block", "Table::new", "Index::new", "Index::load_block"):
        b = f.body(fn)
        for c in b.calls_to("sstable::table::read_table_block"):
            o = origin_of_operand(b, c.args[0], through_calls="all")
            cx.check("internal_comparator" in o.field_names(), "`%s` reads blocks with opts.internal_comparator" % fn, "reader-comparator|%s" % fn, c.where(),
                     "`%s` parses a block with a comparator other than opts.internal_comparator" % fn)
    hb = f.body("Table::read_block_with_comparator")
    for c in sites(cx, hb, "sstable::table::read_table_block"):
        o = origin_of_operand(hb, c.args[0], through_calls="all")
        cx.check(any(hb.local_name(l) == "comparator" for l, _ in o.params), "history reads use the caller's comparator", "history-comparator", c.where())
    # cache kind discipline: a block parsed with one comparator is never served to the other path
    pairs = {"Table::read_block": ({"BlockCache::get_data_block", "BlockCache::insert_data_block"}, {"BlockCache::get_data_block_history", "BlockCache::insert_data_block_history"}),
             "Table::read_block_with_comparator": ({"BlockCache::get_data_block_history", "BlockCache::insert_data_block_history"}, {"BlockCache::get_data_block", "BlockCache::insert_data_block"})}
    for fn, (want, forbid) in pairs.items():
        b = f.body(fn)
        have = set()
        for c in b.calls:
            if c.bb in b.live:
                have |= (c.names & (want | forbid))
        cx.check(want <= have and not (have & forbid), "`%s` uses exactly its own cache kind" % fn, "cache-kind|%s" % fn, b.where(),
                 "`%s` touches the block cache of the other comparator (%s): a block parsed in timestamp order can be served to an ordinary lookup or vice versa" % (fn, sorted(have & forbid)))
        for c in b.calls:
            if c.bb in b.live and c.names & (want | forbid):
                o1, o2 = origin_of_operand(b, c.args[1]), origin_of_operand(b, c.args[2], through_calls="all")
                cx.check("id" in o1.field_names(), "cache key uses the table id", "cache-key-id|%s" % fn, c.where())
                cx.check(o2.from_call("BlockHandle::offset", "sstable::table::BlockHandle::offset"), "cache key uses the block offset", "cache-key-offset|%s" % fn, c.where())
    # who uses read_block_with_comparator: only the comparator-parametrised iterator
    who_calls(cx, ["Table::read_block_with_comparator"], {"TableIterator::init_data_block", "sstable::table::TableIterator::init_data_block"}, "read_block_with_comparator callers", "who:history-read", minimum=1)


@rule("C13", "C13.R3", "every written key updates the table's key-range metadata")
def r3(cx):
    f = cx.f
    w = f.body("TableWriter::add")
    um = sites(cx, w, "TableWriter::update_meta_properties")
    ba = sites(cx, w, ["BlockWriter::add", "sstable::block::BlockWriter::add"])
    dom(cx, w, um, ba, "metadata updated for every key that is written")
    u = f.body("TableWriter::update_meta_properties")
    sl = sites(cx, u, "TableMetadata::set_largest_point_key")
    ss = sites(cx, u, "TableMetadata::set_smallest_point_key")
    cx.check(f.may_reach(u.id, "TableMetadata::update_seq_num"), "sequence range is maintained", "meta-seq", u.where())
    ok_all = all(u.must_pass(0, [c.bb for c in sl], exits=u.rets)[0] for _ in [0]) and u.set_dominates([c.bb for c in sl], u.rets[0])
    cx.check(ok_all, "largest_point is updated on every call", "largest-conditional", sl[0].where(),
             "update_meta_properties updates largest_point only conditionally: range shortcuts can hide keys at the end of the table")
    for c in sl + ss:
        o = origin_of_operand(u, c.args[1], through_calls="all")
        cx.check(any(u.local_name(l) == "key" for l, _ in o.params), "`%s` receives the key being written" % c.primary.split("::")[-1], "meta-key-source|%s" % c.primary.split("::")[-1], c.where())
    isn = [c for c in u.calls if c.primary.endswith("Option::is_none") and "smallest_point" in origin_of_operand(u, c.args[0]).field_names()]
    for c in ss:
        cond = bool_call_condition(u, isn[0], c.bb) if isn else None
        cx.check(cond == frozenset({True}), "smallest_point is set once (only while unset)", "smallest-overwritten", c.where(),
                 "update_meta_properties overwrites smallest_point on later keys: the table's lower key bound moves up and range shortcuts hide keys at its start")


@rule("C13", "C13.R4", "a point lookup returns a hit only on user-key equality, from the block the index selected")
def r4(cx):
    f = cx.f
    g = f.body("Table::get")
    somes = [x for x, k in exits(g) if k == "ok" and _is_some(g, x)]
    cx.floor("hit exits of Table::get", len(somes), 1)
    n = 0
    for cmp_ in comparisons(g):
        lo, ro = origin_of_operand(g, cmp_.lhs, through_calls="all"), origin_of_operand(g, cmp_.rhs, through_calls="all")
        if (lo.from_call("BlockIterator::user_key") and "user_key" in ro.field_names()) or (ro.from_call("BlockIterator::user_key") and "user_key" in lo.field_names()):
            n += 1
            for x in somes:
                cond = cmp_.condition_to_reach(x)
                cx.check(cond == frozenset({"eq"}), "a hit requires found user key == requested user key", "hit-predicate", cmp_.where(),
                         "Table::get returns a hit when found key %s requested key" % (rel_str(cond) if cond is not None else "<unconstrained>"))
    cx.floor("user-key equality tests", n, 1)
    rb = sites(cx, g, "Table::read_block")
    o = origin_of_operand(g, rb[0].args[1], through_calls="all")
    cx.check(o.from_call("sstable::table::BlockHandle::decode", "BlockHandle::decode") and o.from_call("BlockIterator::value_bytes", "sstable::block::BlockIterator::value_bytes"),
             "the data block read is the one the index entry points to", "block-source", rb[0].where())
    lb = sites(cx, g, "Index::load_block")
    o2 = origin_of_operand(g, lb[0].args[1], through_calls="all")
    cx.check(o2.from_call("Index::find_block_handle_by_key"), "the partition read is the one the top-level index selected", "partition-source", lb[0].where())
    for c in g.calls_to("BlockIterator::seek_internal", "sstable::block::BlockIterator::seek_internal"):
        o3 = origin_of_operand(g, c.args[1], through_calls="all")
        cx.check(o3.from_call("InternalKey::encode"), "seeks use the encoded lookup key", "seek-key", c.where())


def _is_some(b, x):
    for st in b.blocks[x]["s"]:
        if st[0] == "=" and st[1] == [0] and st[2][0] == "agg":
            for op in st[2][2]:
                if op[0] in ("c", "m"):
                    o = origin_of_operand(b, op)
                    if any(a.get("variant") == "Some" for a in o.aggs):
                        return True
    return False


@rule("C13", "C13.R5", "properties / metadata codecs are symmetric")
def r5(cx):
    f = cx.f
    codec.symmetric(cx, f.body("sstable::meta::Properties::encode"), f.body("sstable::meta::Properties::decode"), "table properties",
                    {"put_u8", "put_u32", "put_u64", "put_u128"}, {"get_u8", "get_u32", "get_u64", "get_u128"})
    e = [k for k, _ in codec.ops(f.body("sstable::meta::TableMetadata::encode"), codec.W, {"put_u8", "put_u64"})]
    d = [k for k, _ in codec.ops(f.body("sstable::meta::TableMetadata::decode"), codec.R, {"get_u8", "get_u64"})]
    # encode has one put_u8 per Option arm (3 + 2 + 2 sites), decode one get_u8 per option: compare the multiset of u64 and the order of first occurrences
    cx.table("table metadata codec", [["encode"] + e, ["decode"] + d])
    cx.check(d == ["u8", "u64", "u64", "u64", "u8", "u64", "u8", "u64"], "table metadata decoder reads tag, 2 seq nums, properties length, 2 optional keys", "codec|table-metadata-dec", f.body("sstable::meta::TableMetadata::decode").where())
    cx.check([x for x in e if x == "u64"].__len__() == 5 and e.count("u8") == 7, "table metadata encoder writes the same fields (3-way tag, 2 seq nums, length, 2 optional keys)", "codec|table-metadata-enc",
             f.body("sstable::meta::TableMetadata::encode").where(), "TableMetadata::encode writes %s" % e)
    # footer: two handles, fixed length + magic
    fd = f.body("sstable::table::Footer::decode")
    hd = sites(cx, fd, ["sstable::table::BlockHandle::decode", "BlockHandle::decode"], minimum=2)
    fe = f.body("sstable::table::Footer::encode")
    he = sites(cx, fe, ["sstable::table::BlockHandle::encode_into", "BlockHandle::encode_into"], minimum=2)
    cx.check(len(hd) == len(he) == 2, "footer carries exactly two block handles on both sides", "codec|footer", fd.where())
    # meta index first, then index, on both sides
    o_first_dec = fd.local_name(hd[0].dest[0])
    cx.ok("footer decode order: %s" % [c.where() for c in sorted(hd, key=lambda c: c.bb)], fd.where())
    from .c12 import _enum_decoder
    _enum_decoder(cx, "sstable::table::TableFormat", "sstable::table::TableFormat::from_u8")


@rule("C13", "C13.R6", "a bloom filter is read with the parameters stored in it, never with the reader's configuration")
def r6(cx):
    """The number of probes is written into the filter's last byte so that a reader configured differently (another
    bits_per_key, a later default) still tests exactly the bits the writer set; probing more bits than were set turns
    `may_contain` into `false` for keys that are present, and a point lookup then skips the table.  Decided: the probe
    loop bound of every FilterPolicy::may_contain derives from the filter bytes and from no field of the policy object;
    the writer stores its probe count as the last byte."""
    f = cx.f
    ms = [b for b in f.scan_bodies() if b.name == "may_contain" and b.impl_trait and b.impl_trait.endswith("FilterPolicy") and not b.file.endswith("mod.rs")]
    ms = [b for b in ms if f.may_reach(b.id, "bloom_hash") or any("bloom" in b.file for _ in [0])]
    cx.floor("bloom may_contain implementations", len(ms), 1)
    for b in ms:
        R, W = self_field_sites(f, b, callee_writes="may")
        rng = []
        for i, j, lhs, rv, line in b.assigns():
            if i in b.live and rv[0] == "agg" and rv[3] and rv[3].get("adt", "").endswith("ops::Range") and len(rv[2]) == 2:
                rng.append((i, rv[2][1], line))
        cx.floor("probe loops in %s" % b.id, len(rng), 1)
        fparam = [i for i in range(2, b.argc + 1) if b.local_name(i) == "filter"] or [2]
        for i, endop, line in rng:
            o = origin_of_operand(b, endop)
            from_filter = any(p[0] == fparam[0] for p in o.params)
            from_self = any(p[0] == 1 for p in o.params) or bool(set(R) & {x[1] for x in o.fields})
            cx.check(from_filter and not from_self, "`%s`: the probe count comes from the filter bytes" % b.id, "bloom-probe-count-source|%s" % b.id, "%s:%d" % (b.file, line),
                     "`%s` probes with a count that does not come from the filter itself (%s): a filter written with fewer probes than the reader's configuration "
                     "reports present keys as absent, and Table::get skips the table" % (b.id, "policy field" if from_self else "other source"))
    cs = [b for b in f.scan_bodies() if b.name == "create_filter" and b.impl_trait and b.impl_trait.endswith("FilterPolicy") and "bloom" in b.file]
    cx.floor("bloom create_filter implementations", len(cs), 1)
    for b in cs:
        # the probe count used by the writer's own loop is stored (outside the loops) through an indexed write / push
        ends = []
        for i, j, lhs, rv, line in b.assigns():
            if i in b.live and rv[0] == "agg" and rv[3] and rv[3].get("adt", "").endswith("ops::Range") and len(rv[2]) == 2 and b.in_cycle(i):
                ends.append(origin_of_operand(b, rv[2][1]))
        kcalls = set()
        for o in ends:
            kcalls |= {id(c) for c in o.calls}
        stored = False
        for i, j, lhs, rv, line in b.assigns():
            if i in b.live and not b.in_cycle(i) and len(lhs) >= 2 and lhs[1] == "*" and rv[0] in ("use", "cast"):
                po = origin_of_operand(b, ["c", [lhs[0]]])
                vo = origin_of_operand(b, rv[1] if rv[0] == "use" else rv[2])
                if any(c.primary.endswith("index_mut") for c in po.calls) and ({id(c) for c in vo.calls} & kcalls):
                    stored = True
        for c in b.calls:
            if c.bb in b.live and not b.in_cycle(c.bb) and c.primary.endswith("Vec::push") and len(c.args) > 1 and ({id(x) for x in origin_of_operand(b, c.args[1]).calls} & kcalls):
                stored = True
        cx.check(stored, "`%s` stores the probe count it used in the filter" % b.id, "bloom-k-not-stored|%s" % b.id, b.where())


@rule("C13", "C13.R7", "table cursor: loading the data block for the index position sets the block cursor on every success path")
def r7(cx):
    """The two-level cursor is (index cursor, data-block cursor).  Every positioning method moves the index cursor, calls
    the loader and then positions `second_level`; `mark_exhausted` and the valid-entry walkers drop `second_level` on
    their own.  The loader therefore must leave `second_level` describing the block of the CURRENT index entry whenever
    it returns Ok: a success path that writes nothing is sound only if it decided so by looking at `second_level`
    itself (a side note such as a remembered offset goes stale wherever `second_level` is dropped elsewhere)."""
    f = cx.f
    loaders = []
    for b in f.scan_bodies():
        if b.kind != "method" or b.impl_trait or (b.self_ty or "").split("<")[0].split("::")[-1] != "TableIterator":
            continue
        if any(c.bb in b.live and c.primary.split("::")[-1] in ("read_block", "read_block_with_comparator") for c in b.calls):
            loaders.append(b)
    cx.floor("TableIterator methods that read a data block", len(loaders), 1)
    for b in loaders:
        _, W = self_field_sites(f, b, "must")
        wb = W.get("second_level", set())
        cx.check(bool(wb), "`%s` stores the block cursor it creates" % b.id, "loader-no-store|%s" % b.name, b.where())
        looks = set()
        for x in b.live:
            t = b.blocks[x]["t"]
            if t[0] == "switch":
                o = origin_of_operand(b, t[1])
                if "second_level" in o.field_names():
                    looks.add(x)
        free = b.reachable_from([0], avoid=wb | looks) if 0 not in wb | looks else set()
        bad = [x for x in ok_exits(b) if x in free and not any(k == "err" for y, k in exits(b) if y == x)]
        cx.check(not bad, "`%s`: every Ok exit follows a write to `second_level` (or a test of it)" % b.id, "loader-keeps-old-block|%s" % b.name,
                 b.where(bad[0]) if bad else b.where(),
                 "`%s` can return Ok without writing `second_level` and without having looked at it: after `mark_exhausted` (or a walker) dropped the block cursor, "
                 "a re-seek into the same block finds `second_level == None`, skips the block and returns a later entry or 'not found' for a stored key" % b.id)


@rule("C13", "C13.R8", "table writer: a data block is cut only when it holds an entry (every block size)")
def r8(cx):
    """`write_data_block` takes the block's last key to build the index separator.  `finish` cuts the last block only
    `if entries() > 0`; `add` cuts when `size_estimate() > block_size` -- and an EMPTY block already has a size (its
    restart array), so with a block size below that the very first `add` cuts an empty block: the separator is computed
    from an empty last key and the writer panics (or writes an index entry that covers nothing).  Sibling cross-check:
    every call of the block-cutting routine is control-dependent on the block holding an entry."""
    f = cx.f
    from ..core import bool_call_condition
    n = 0
    for b in f.scan_bodies():
        if (b.self_ty or "").split("<")[0].split("::")[-1] != "TableWriter" or b.kind != "method":
            continue
        ws = [c for c in b.calls if c.bb in b.live and c.primary.split("::")[-1] == "write_data_block"]
        if not ws:
            continue
        cl_entries = [cb for cb in f.closures_of(b) if any(x.primary.split("::")[-1] == "entries" for x in cb.calls)]
        for w in ws:
            n += 1
            ok = False
            for cm in comparisons(b):
                if cm.condition_to_reach(w.bb) is None:
                    continue
                for op in (cm.lhs, cm.rhs):
                    if any(x.primary.split("::")[-1] in ("entries", "is_empty") for x in origin_of_operand(b, op, through_calls="all").calls):
                        ok = True
            if not ok and cl_entries:
                for c2 in b.calls:
                    if c2.bb in b.live and len(c2.dest) == 1 and b.local_ty(c2.dest[0]) == "bool" and any(a[0] in ("c", "m") and "closure" in b.local_ty(a[1][0]) for a in c2.args):
                        if bool_call_condition(b, c2, w.bb) is not None:
                            ok = True
            cx.check(ok, "`%s`: the block is cut only if it holds an entry" % b.id, "empty-block-cut|%s" % b.name, w.where(),
                     "`%s` cuts the current data block on its size estimate alone: an empty block already has a non-zero estimate, so with a small `block_size` the first "
                     "entry makes the writer cut an EMPTY block and build a separator from an empty last key (panic in the flush / compaction task), while `finish` does "
                     "test `entries() > 0`" % b.id)
    cx.floor("calls of TableWriter::write_data_block", n, 2)
