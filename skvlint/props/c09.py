"""C09 — range cursors enumerate exactly the live keys, in order, in both directions."""
from ..registry import rule
from ..core import (origin_of_operand, AnchorMissing, comparisons, rel_str, mirror, feasible_reach, bool_call_condition, bool_edges, const_eval)
from .common import *
from . import bounds
from ..e3 import Region, name_of

EXPLANATION = ("Structural necessary conditions for range cursors: user bounds are translated to internal-key corners that include / "
               "exclude every version of the boundary key (decision table vs oracle); an absent bound reaches the snapshot and the "
               "write-set as absent, and write-set ranges are never built from inverted bounds; on a change of direction every source "
               "that reported `exhausted` is re-positioned before the merge continues, and in the k-way merge a source entirely below "
               "the turning point is positioned at its last entry when going backward; the table iterator's bound predicates equal "
               "their oracle tables and are tested after every move.  The cursor's full state machine over all programs is NOT decided.")
ASSUMPTIONS = ["MIR models control/data flow faithfully"]


@rule("C09", "C09.R1", "bound translation: internal-key corners include / exclude all versions of the boundary key")
def r1(cx):
    f = cx.f
    b = f.body("user_range_to_internal_range")
    leaves = Region(b, 0).run()
    SEQMAX, TSMAX = f.const("INTERNAL_KEY_SEQ_NUM_MAX"), f.const("INTERNAL_KEY_TIMESTAMP_MAX")
    rows = []
    okk = True
    seen = set()
    for lf in leaves:
        lo, up = lf.cond.get("variant(p1)"), lf.cond.get("variant(p2)")
        ret = lf.ret
        if ret is None or ret[0] != "tup" or len(ret[1]) != 2:
            okk = False
            continue
        for side, var, val in (("lower", lo, ret[1][0]), ("upper", up, ret[1][1])):
            nm = name_of(val)
            rows.append([side, str(var), nm])
            seen.add((side, var))
            first_corner = "%d,InternalKeyKind::Max(),%d" % (SEQMAX, TSMAX)
            last_corner = ",0,InternalKeyKind::Set(),0)"
            if var == "Unbounded":
                good = nm.startswith("Bound::Unbounded")
            elif (side, var) in (("lower", "Included"), ("upper", "Excluded")):
                # the corner that sorts BEFORE every version of the key
                good = nm.startswith("Bound::%s(" % var) and first_corner in nm
            else:
                # the corner that sorts AFTER every version of the key
                good = nm.startswith("Bound::%s(" % var) and nm.endswith(last_corner + ")")
            if not good:
                okk = False
    cx.table("user_range_to_internal_range", rows)
    cx.check(okk and len(seen) == 6, "each (side, bound kind) maps to the corner that puts all versions of the boundary key on the right side", "bound-translation", b.where(),
             "user_range_to_internal_range table differs from the oracle: %s" % rows)
    # Snapshot::range: lower is Included, upper is Excluded, absent stays Unbounded
    sb = f.body("Snapshot::range")
    c = sites(cx, sb, "user_range_to_internal_range")[0]
    for idx, want in ((0, "Included"), (1, "Excluded")):
        o = origin_of_operand(sb, c.args[idx], through_calls="all")
        ctor = {x.get("variant") for x in o.aggs if x.get("adt") in ("std::ops::Bound", "std::collections::Bound")} | \
            {k["fn"]["p"].split("::")[-1] for k in o.consts if "fn" in k}
        cx.check(want in ctor and "Unbounded" in ctor and ({"Included", "Excluded"} - {want}).isdisjoint(ctor),
                 "Snapshot::range passes the %s bound as %s (absent => Unbounded)" % ("lower" if idx == 0 else "upper", want), "snapshot-range-kind|%d" % idx, c.where(),
                 "Snapshot::range builds its %s bound from %s" % ("lower" if idx == 0 else "upper", sorted(ctor)))


@rule("C09", "C09.R2", "absent bounds stay absent; write-set ranges are never built from inverted bounds")
def r2(cx):
    f = cx.f
    rb = f.body("Transaction::range_with_options")
    bad = [c for c in rb.calls if c.bb in rb.live and c.primary.split("::")[-1] in ("unwrap_or_default", "unwrap_or", "unwrap_or_else") and
           origin_of_operand(rb, c.args[0], through_calls="all").field_names() & {"lower_bound", "upper_bound"}]
    cx.check(not bad, "range_with_options hands Option bounds on unchanged", "absent-bound-defaulted", bad[0].where() if bad else rb.where(),
             "range_with_options replaces an absent bound by an empty key (%s): no upper bound gives an empty scan, no lower bound inverts the range" % (bad[0].primary if bad else ""))
    nb = f.body("TransactionRangeIterator::new_with_options")
    sr = sites(cx, nb, "Snapshot::range")[0]
    for idx, nm in ((1, "start_key"), (2, "end_key")):
        o = origin_of_operand(nb, sr.args[idx], through_calls="all")
        forced = any(a.get("variant") == "Some" for a in o.aggs)
        cx.check(any(nb.local_name(l) == nm for l, _ in o.params) and not forced, "the snapshot cursor receives `%s` as an Option (absent stays absent)" % nm, "snapshot-bound-forced|%s" % nm, sr.where(),
                 "TransactionRangeIterator wraps `%s` in Some(..) unconditionally: an absent bound reaches the snapshot as an empty key" % nm)
    # every BTreeMap::range over the write-set with caller-derived bounds is guarded by an order test
    n = 0
    for fn in ("TransactionRangeIterator::new_with_options", "Transaction::history_with_options"):
        b = f.body(fn)
        for c in b.calls:
            if c.bb in b.live and c.primary.endswith("BTreeMap::range") and "write_set" in origin_of_operand(b, c.args[0], through_calls="all").field_names():
                n += 1
                guarded = False
                for cmp_ in comparisons(b):
                    if cmp_.op not in ("Gt", "Ge", "Lt", "Le") or cmp_.bb not in b.live:
                        continue
                    lo, ro = origin_of_operand(b, cmp_.lhs, through_calls="all"), origin_of_operand(b, cmp_.rhs, through_calls="all")
                    ln = {b.local_name(l) for l, _ in lo.params}
                    rn = {b.local_name(l) for l, _ in ro.params}
                    if not ((ln & {"start_key", "start"}) and (rn & {"end_key", "end"}) or (rn & {"start_key", "start"}) and (ln & {"end_key", "end"})):
                        continue
                    start_left = bool(ln & {"start_key", "start"})
                    # on the edge(s) where start > end the range call must be unreachable, or be given a non-inverted range
                    for sw, e in cmp_.switches():
                        for tgt, lab in e.items():
                            inv = "gt" if start_left else "lt"
                            if lab == frozenset({inv}):
                                r = feasible_reach(b, [tgt], avoid=[sw])
                                if c.bb not in r:
                                    guarded = True
                                else:
                                    # reachable: accepted only if the range argument is rebuilt on that edge (e.g. start..start)
                                    ao = origin_of_operand(b, c.args[1], through_calls="all")
                                    if len(ao.aggs) >= 2 and any(x.get("adt", "").endswith("ops::Range") for x in ao.aggs):
                                        guarded = True
                    if b.set_dominates([cmp_.bb], c.bb) and not cmp_.switches():
                        guarded = True
                cx.check(guarded, "`%s`: the write-set range is built only after comparing the two bounds" % fn, "unchecked-btree-range|%s" % fn, c.where(),
                         "`%s` calls BTreeMap::range with caller-supplied bounds without an order test: start > end panics as soon as the write-set is not empty" % fn)
    cx.floor("write-set range sites", n, 2)


@rule("C09", "C09.R3", "a change of direction re-positions every exhausted source")
def r3(cx):
    f = cx.f
    # (a) transaction cursors: merge of snapshot cursor and write-set
    n = 0
    for ty, inner, reseek in (("TransactionRangeIterator", "snapshot_iter", {"SnapshotIterator::seek_first", "SnapshotIterator::seek_last", "SnapshotIterator::seek", "LSMIterator::seek_first", "LSMIterator::seek_last", "LSMIterator::seek"}),
                              ("TransactionHistoryIterator", "inner", {"HistoryIterator::seek_first", "HistoryIterator::seek_last", "HistoryIterator::seek", "LSMIterator::seek_first", "LSMIterator::seek_last", "LSMIterator::seek"})):
        for meth, pos in (("next", "position_to_min"), ("prev", "position_to_max")):
            cands = [x for x in f.bodies_like("%s::%s" % (ty, meth)) if x.self_ty and ty in x.self_ty and not x.impl_trait] or \
                    [x for x in f.bodies_like("%s::%s" % (ty, meth)) if x.self_ty and ty in x.self_ty]
            cands = [x for x in cands if x.calls_to("%s::%s" % (ty, pos))]
            if not cands:
                raise AnchorMissing("%s::%s (with %s) not found" % (ty, meth, pos))
            b = cands[0]
            n += 1
            # the validity test of the inner (snapshot-side) cursor inside the direction-change region
            vs = [c for c in b.calls if c.bb in b.live and c.primary.split("::")[-1] == "valid" and inner in origin_of_operand(b, c.args[0]).field_names()]
            wsreset = [c for c in b.calls if c.bb in b.live and c.primary.split("::")[-1] in ("seek_ws_first", "seek_ws_last")]
            if not vs or not wsreset:
                raise AnchorMissing("%s::%s: direction-change region not recognised" % (ty, meth))
            v0 = sorted(vs, key=lambda c: c.bb)[0]
            e, sw = bool_edges(b, v0.dest[0], v0.target)
            if e is None:
                raise AnchorMissing("%s::%s: inner.valid() is not branched on" % (ty, meth))
            invalid_edge = [s for s, lab in e.items() if False in lab]
            pm = sites(cx, b, "%s::%s" % (ty, pos))
            rs = [c for c in b.calls if c.bb in b.live and (c.names & reseek) and inner in origin_of_operand(b, c.args[0]).field_names()]
            r = feasible_reach(b, invalid_edge, avoid={c.bb for c in rs})
            miss = [p for p in pm if p.bb in r]
            cx.check(not miss, "%s::%s: when the snapshot-side cursor is exhausted at a direction change it is re-positioned before merging" % (ty, meth),
                     "flip-no-reseek|%s::%s" % (ty, meth), v0.where(),
                     "%s::%s: on a direction change with the snapshot-side cursor exhausted, only the write-set side is reset (%s); the exhausted cursor is never re-seeked, so keys "
                     "it holds on the other side of the turning point are skipped or the wrong key is returned" % (ty, meth, wsreset[0].primary.split("::")[-1]))
    cx.floor("transaction cursor direction-change sites", n, 4)
    # (b) k-way merges: going backward, a source with no key >= target must be positioned at its last entry
    m = 0
    for fn in ("KMergeIterator::switch_to_backward", "MergingIterator::switch_to_backward"):
        b = f.body(fn)
        sk = [c for c in b.calls if c.bb in b.live and c.primary.split("::")[-1] == "seek" and "LSMIterator" in (c.callee.get("trait") or "")]
        sl = [c for c in b.calls if c.bb in b.live and c.primary.split("::")[-1] == "seek_last" and "LSMIterator" in (c.callee.get("trait") or "")]
        if not sk:
            raise AnchorMissing("%s: seek(target) not found" % fn)
        m += 1
        # result of seek(target)? -> the bool payload of the Continue arm
        c0 = sk[0]
        tgt_bool = _try_bool(b, c0)
        if tgt_bool is None:
            raise AnchorMissing("%s: result of seek(target) not branched on" % fn)
        e, sw = tgt_bool
        false_edge = [s for s, lab in e.items() if False in lab]
        loop_heads = [c.bb for c in b.calls if c.bb in b.live and b.in_cycle(c.bb) and c.primary.split("::")[-1] == "next" and "Enumerate" in c.primary or (c.bb in b.live and b.in_cycle(c.bb) and c.primary.endswith("Iterator>::next"))]
        r = feasible_reach(b, false_edge, avoid={c.bb for c in sl})
        leak = [h for h in loop_heads if h in r] + [x for x in b.rets if x in r]
        cx.check(bool(sl) and not leak, "%s: a source with no key at/after the turning point is positioned at its last entry" % fn, "backward-switch-drops-source|%s" % fn, c0.where(),
                 "%s: when seek(target) finds nothing the source is left exhausted instead of seek_last(): all its keys lie before the turning point, so they vanish from the backward scan "
                 "(missing keys, deleted keys reappear)" % fn)
    for fn in ("KMergeIterator::switch_to_forward", "MergingIterator::switch_to_forward", "KMergeIterator::switch_to_backward", "MergingIterator::switch_to_backward"):
        b = f.body(fn)
        step = [c for c in b.calls if c.bb in b.live and c.primary.split("::")[-1] in ("next", "prev") and "LSMIterator" in (c.callee.get("trait") or "")]
        sk = [c for c in b.calls if c.bb in b.live and c.primary.split("::")[-1] == "seek" and "LSMIterator" in (c.callee.get("trait") or "")]
        cx.check(bool(step) and bool(sk) and all(b.in_cycle(c.bb) for c in sk), "%s: every source is stepped (current) or re-seeked (others) inside the loop over all sources" % fn,
                 "switch-shape|%s" % fn, b.where())
    cx.floor("k-way backward switches", m, 2)


def _try_bool(b, call):
    """for `x.f()?` returning Result<bool>: (edges, switch block) of the branch on the unwrapped bool"""
    if call.target is None:
        return None
    # find the Try::branch on the result, then the Continue payload local, then the switch on it
    for c in b.calls:
        if c.bb in b.live and c.primary.endswith("Try>::branch") and c.args and c.args[0][0] in ("c", "m") and c.args[0][1][0] == call.dest[0]:
            # locals assigned from (branch_result as Continue).0
            for i, j, lhs, rv, _ in b.assigns():
                if rv[0] == "use" and rv[1][0] in ("c", "m") and rv[1][1][0] == c.dest[0] and len(lhs) == 1 and b.local_ty(lhs[0]) == "bool":
                    e, sw = bool_edges(b, lhs[0], i)
                    if e is not None:
                        return e, sw
    return None


@rule("C09", "C09.R4", "table iterator bound predicates equal their oracle tables and are tested after every move")
def r4(cx):
    f = cx.f
    is_key = lambda n: n.startswith("p2")
    bounds.check_bound_predicate(cx, "TableIterator::satisfies_lower_bound", ".0", is_key,
                                 {"Included": frozenset({"gt", "eq"}), "Excluded": frozenset({"gt"}), "Unbounded": True},
                                 "satisfies_lower_bound (key vs lower bound)", "table-iter|lower")
    bounds.check_bound_predicate(cx, "TableIterator::satisfies_upper_bound", ".1", is_key,
                                 {"Included": frozenset({"lt", "eq"}), "Excluded": frozenset({"lt"}), "Unbounded": True},
                                 "satisfies_upper_bound (key vs upper bound)", "table-iter|upper")
    # after every move the relevant bound is tested and a failing test exhausts the cursor
    table = [("<TableIterator as LSMIterator>::next", "TableIterator::advance_internal", "satisfies_upper_bound"),
             ("<TableIterator as LSMIterator>::prev", "TableIterator::prev_internal", "satisfies_lower_bound"),
             ("<TableIterator as LSMIterator>::seek", "TableIterator::seek_internal", "satisfies_upper_bound"),
             ("TableIterator::seek_to_first", None, "satisfies_upper_bound"),
             ("TableIterator::seek_to_last", None, "satisfies_lower_bound")]
    for fn, move, pred in table:
        b = f.body(fn)
        pc = b.calls_to("TableIterator::%s" % pred)
        me = b.calls_to("TableIterator::mark_exhausted")
        cx.check(bool(pc) and bool(me), "%s tests %s and can exhaust the cursor" % (fn.split("::")[-1].rstrip(">"), pred), "bound-not-tested|%s" % fn, b.where(),
                 "%s no longer tests %s after moving: the cursor can return keys outside its bounds" % (fn, pred))
        for c in pc:
            e, sw = bool_edges(b, c.dest[0], c.target) if c.target is not None else (None, None)
            if e is None:
                cx.bad("bound-result-unused|%s" % fn, "%s: the result of %s is not branched on" % (fn, pred), c.where())
                continue
            fe = [t for t, lab in e.items() if lab == frozenset({False})]
            te = [t for t, lab in e.items() if lab == frozenset({True})]
            rf = feasible_reach(b, fe, avoid=[sw])
            rt = feasible_reach(b, te, avoid=[sw])
            cx.check(any(m.bb in rf for m in me) and not any(m.bb in rt for m in me), "%s: a key failing %s exhausts the cursor (and a passing key does not)" % (fn.split("::")[-1].rstrip(">"), pred),
                     "bound-polarity|%s" % fn, c.where(), "%s: mark_exhausted is wired to the wrong outcome of %s" % (fn, pred))
        if move:
            mv = sites(cx, b, move)
            dom(cx, b, mv, pc, "%s: the bound is tested after the move" % fn.split("::")[-1].rstrip(">"))
    # mirror pairs have the same call skeleton under the direction-swap renaming
    swap = {"next": "prev", "prev": "next", "seek_to_first": "seek_to_last", "seek_to_last": "seek_to_first", "satisfies_upper_bound": "satisfies_lower_bound",
            "satisfies_lower_bound": "satisfies_upper_bound", "advance": "retreat", "first": "last", "last": "first"}
    for a, b_ in (("TableIterator::advance_to_valid_entry", "TableIterator::retreat_to_valid_entry"),):
        ba, bb_ = f.body(a), f.body(b_)
        def skel(b):
            return sorted(c.primary.split("::")[-1] for c in b.calls if c.bb in b.live and c.callee.get("local") or c.callee.get("rlocal"))
        sa = sorted(swap.get(x, x) for x in skel(ba))
        sb = skel(bb_)
        cx.check(sa == sb, "%s and %s are mirror images (same calls under first/last, next/prev, upper/lower swap)" % (a.split("::")[-1], b_.split("::")[-1]), "mirror|%s" % a, ba.where(),
                 "mirror pair differs: %s vs %s" % (sa, sb))


# the filtering cursors that carry per-key state between steps; (type, forward step, backward step)
CARRYING = (("SnapshotIterator", "skip_to_valid_forward", "skip_to_valid_backward"),
            ("HistoryIterator", "skip_to_valid_forward", "collect_user_key_backward"))
# carried fields that need no reset, with the reason (confirmed by reading the code)
GUARDED = {
    ("SnapshotIterator", "buffered_back_key"): "only read while has_buffered_back is set; the flag is reset (checked below)",
    ("SnapshotIterator", "buffered_back_value"): "only read while has_buffered_back is set; the flag is reset (checked below)",
    ("SnapshotIterator", "current_back_key"): "only read while has_current_back is set; the flag is reset (checked below)",
    ("SnapshotIterator", "current_back_value"): "only read while has_current_back is set; the flag is reset (checked below)",
}


def _step_fn(f, ty, named, impl_body):
    if f.has_body("%s::%s" % (ty, named)):
        return named
    cands = []
    for c in impl_body.calls:
        if c.bb not in impl_body.live:
            continue
        for t in c.targets:
            cid = f.canon_to_id.get(t)
            if cid is None:
                continue
            tb = f.bodies[cid]
            if tb.kind == "method" and not tb.impl_trait and (tb.self_ty or "").split("<")[0].split("::")[-1] == ty:
                cands.append((c, tb))
    last = [(c, tb) for c, tb in cands if not any(c2.bb in impl_body.reachable_after([c.bb]) and c2 is not c for c2, _ in cands)]
    names_ = sorted({tb.name for _, tb in last})
    if len(names_) != 1:
        raise AnchorMissing("%s: step function `%s` not found and no unique last self-call in %s (%s)" % (ty, named, impl_body.id, names_))
    return names_[0]


def _resets(b, Wm, fld, steps):
    w = Wm.get(fld, set())
    return bool(w) and all(b.set_dominates(w - {s_.bb}, s_.bb) for s_ in steps)


@rule("C09", "C09.R5", "absolute repositioning (seek / seek_first / seek_last) discards the state carried from the previous position")
def r5(cx):
    """The step function of a filtering cursor reads fields that it also writes (`last key handled`, barrier flags, counters,
    look-ahead buffers): state carried from one step to the next.  After seek/seek_first/seek_last the underlying merge
    iterator stands at an unrelated position, so every carried field must have been reset on every path before the step
    function runs -- otherwise the first key at the new position can be taken for `already handled` and is skipped.
    Buffers that are only read under a flag are exempt (table GUARDED); every bool flag a step function may set is reset
    by all three repositioning calls."""
    f = cx.f
    n = 0
    for ty, fwd, bwd in CARRYING:
        impl = {}
        for m in ("seek", "seek_first", "seek_last"):
            c = [b for b in f.scan_bodies() if b.name == m and b.impl_trait and b.impl_trait.endswith("LSMIterator")
                 and (b.self_ty or "").split("<")[0].split("::")[-1] == ty]
            if len(c) != 1:
                raise AnchorMissing("%s: %d implementations of LSMIterator::%s" % (ty, len(c), m))
            impl[m] = c[0]
        # the step functions are named in the table, but a wrapper may be inlined / renamed: fall back to the method of the
        # same type that the absolute repositioner calls LAST (its result is what the repositioner returns)
        fwd = _step_fn(f, ty, fwd, impl["seek_first"])
        bwd = _step_fn(f, ty, bwd, impl["seek_last"])
        fields = {x[0]: x[1] for x in f.adt(ty)["variants"][0]["fields"]} if isinstance(f.adt(ty)["variants"], list) else {x[0]: x[1] for x in f.adt(ty)["variants"]["fields"]}
        flags = set()
        for step, methods in ((fwd, ("seek", "seek_first")), (bwd, ("seek_last",))):
            sb = f.body("%s::%s" % (ty, step))
            R, W = self_field_sites(f, sb, callee_writes="may")
            flags |= {x for x in W if fields.get(x) == "bool"}
            # the wrapped iterator is repositioned by the seek itself
            carried = sorted(x for x in set(R) & set(W) if not any(k in x for k in ("iter", "inner")) and (ty, x) not in GUARDED)
            cx.note("%s::%s carries %s (guarded, exempt: %s)" % (ty, step, carried, sorted(x for x in set(R) & set(W) if (ty, x) in GUARDED)))
            if step == fwd:
                cx.floor("%s: carried forward-state fields" % ty, len(carried), 1)
            for m in methods:
                b = impl[m]
                steps = sites(cx, b, "%s::%s" % (ty, step))
                _, Wm = self_field_sites(f, b)
                for fld in carried:
                    n += 1
                    cx.check(_resets(b, Wm, fld, steps), "%s::%s resets `%s` before %s()" % (ty, m, fld, step), "stale-carried-state|%s::%s|%s" % (ty, m, fld), steps[0].where(),
                             "%s::%s repositions the underlying iterator but keeps `%s` from the previous position; %s() reads it, so the "
                             "first key at the new position can be skipped as `already handled` (a live key is not enumerated)" % (ty, m, fld, step))
        for m in ("seek", "seek_first", "seek_last"):
            b = impl[m]
            steps = [c for c in b.calls if c.bb in b.live and c.names & {"%s::%s" % (ty, fwd), "%s::%s" % (ty, bwd)}]
            _, Wm = self_field_sites(f, b)
            for fld in sorted(flags):
                n += 1
                cx.check(_resets(b, Wm, fld, steps), "%s::%s resets the flag `%s`" % (ty, m, fld), "stale-flag|%s::%s|%s" % (ty, m, fld), b.where(),
                         "%s::%s leaves the flag `%s` as the previous position set it: the buffers it guards are served / compared at the new position" % (ty, m, fld))
        # siblings: seek and seek_first are both absolute forward repositioners and must reset the same fields
        _, Ws = self_field_sites(f, impl["seek"])
        _, Wf = self_field_sites(f, impl["seek_first"])
        ignore = {x for x in set(Ws) | set(Wf) if any(k in x for k in ("iter", "inner"))}
        d = (set(Wf) - set(Ws)) - ignore
        cx.check(not d, "%s: seek() writes every field seek_first() writes" % ty, "seek-vs-seek_first|%s" % ty, impl["seek"].where(),
                 "%s::seek leaves %s untouched although seek_first resets it" % (ty, sorted(d)))
    cx.floor("carried-state reset obligations", n, 12)


def rule_ws_seek_absolute(cx):
    """`seek`, `seek_first`, `seek_last` of the write-set overlay cursors are absolute: the new write-set position is computed
    from the target and the (sorted) pending entries only.  A helper that reads the previous position (`ws_pos`) while
    computing the new one makes `seek(earlier_key)` after a forward run miss pending writes (read-your-writes broken)."""
    f = cx.f
    n = 0
    for ty in ("TransactionRangeIterator", "TransactionHistoryIterator"):
        for m in ("seek_ws", "seek_ws_first", "seek_ws_last"):
            b = f.body("%s::%s" % (ty, m))
            R, W = self_field_sites(f, b, callee_writes="may")
            moved = sorted(x for x in W if x.startswith("ws_"))
            cx.check(bool(moved), "%s::%s sets the write-set position" % (ty, m), "ws-seek-no-write|%s::%s" % (ty, m), b.where())
            for fld in moved:
                n += 1
                cx.check(fld not in R, "%s::%s computes `%s` without reading its previous value" % (ty, m, fld), "ws-seek-relative|%s::%s|%s" % (ty, m, fld), b.where(),
                         "%s::%s reads the previous write-set position `%s` while repositioning: an absolute seek to an earlier key after a forward run keeps the cursor "
                         "behind the target, so pending writes (overwrites, deletes, new keys) before it are not overlaid" % (ty, m, fld))
    cx.floor("write-set absolute-seek obligations", n, 6)
    # siblings: the two overlay cursors position their write-set side with the same search
    for m in ("seek_ws", "seek_ws_first", "seek_ws_last"):
        a, b_ = f.body("TransactionRangeIterator::%s" % m), f.body("TransactionHistoryIterator::%s" % m)
        ca = sorted(c.primary for c in a.calls if c.bb in a.live and not c.expansion)
        cb = sorted(c.primary for c in b_.calls if c.bb in b_.live and not c.expansion)
        cx.check(ca == cb, "range and history overlay cursors implement %s with the same calls" % m, "ws-seek-siblings|%s" % m, a.where(),
                 "TransactionRangeIterator::%s and TransactionHistoryIterator::%s differ (%s vs %s)" % (m, m, ca, cb))


@rule("C09", "C09.R6", "write-set side of the overlay cursors: absolute seeks ignore the previous position")
def r6(cx):
    rule_ws_seek_absolute(cx)


@rule("C09", "C09.R7", "memtable cursor: every positioning method applies the bound of its direction")
def r7(cx):
    """SkiplistIterator keeps `lower` / `upper`; nothing above it re-checks bounds.  Every method that moves `nd` forward
    (from get_next / a >= search) must consult `upper` afterwards, every method that moves it backward (get_prev) must
    consult `lower` -- siblings of one interface must agree (first/advance/seek_ge; last/prev_internal)."""
    f = cx.f
    fw = bw = 0
    for b in f.scan_bodies():
        if b.kind != "method" or b.impl_trait or (b.self_ty or "").split("<")[0].split("::")[-1] != "SkiplistIterator":
            continue
        S = self_aliases(b)
        writes = []
        for i, j, lhs, rv, line in b.assigns():
            if i in b.live and lhs[0] in S and any(isinstance(p, list) and p[0] == "f" and p[2] == "nd" for p in lhs[1:]) and rv[0] == "use":
                o = origin_of_operand(b, rv[1])
                names_ = {c.primary.split("::")[-1] for c in o.calls}
                if {"tail", "head"} & {x[1] for x in o.fields}:
                    continue  # parking the cursor on a sentinel is the clamp itself, not a move
                d = "fwd" if names_ & {"get_next", "seek_for_base_splice", "find_splice"} else ("bwd" if names_ & {"get_prev"} else None)
                if d:
                    writes.append((i, d, line))
        if not writes:
            continue
        R, W = self_field_sites(f, b, callee_writes="may")
        for i, d, line in writes:
            fld = "upper" if d == "fwd" else "lower"
            if d == "fwd":
                fw += 1
            else:
                bw += 1
            after = b.reachable_after([i]) | {i}
            ok = any(x in after for x in R.get(fld, ()))
            cx.check(ok, "`%s` consults `%s` after moving %s" % (b.id, fld, "forward" if d == "fwd" else "backward"), "skiplist-bound-unchecked|%s|%s" % (b.name, fld), "%s:%d" % (b.file, line),
                     "`%s` positions the memtable cursor (%s) and returns without consulting `%s`: a key at or past the bound is reported as valid, and no "
                     "layer above re-checks bounds, so a range cursor returns a key outside [start, end)" % (b.id, "forward" if d == "fwd" else "backward", fld))
    cx.floor("forward positioning sites of SkiplistIterator", fw, 3)
    cx.floor("backward positioning sites of SkiplistIterator", bw, 2)


@rule("C09", "C09.R8", "memtable cursor: the cached node of the opposite bound never ends a positioning search")
def r8(cx):
    """`upper_node` / `lower_node` cache the first node found outside a bound so that it need not be compared again.  A
    search that moves backward over nodes >= upper (seek_last) must be able to step over the cached `upper_node`; if a loop
    exit of such a search depends on `upper_node` (e.g. through `is_valid()`), a cursor that ran off the upper end earlier
    stops on the cached node and reports an empty range.  Symmetric for forward searches and `lower_node`."""
    f = cx.f
    n = 0
    for b in f.scan_bodies():
        if b.kind != "method" or b.impl_trait or (b.self_ty or "").split("<")[0].split("::")[-1] != "SkiplistIterator":
            continue
        for lookup, other in (("get_prev", "upper_node"), ("get_next", "lower_node")):
            mv = [c for c in b.calls if c.bb in b.live and c.primary.split("::")[-1] == lookup and b.in_cycle(c.bb)]
            for c in mv:
                cyc = loop_of(b, c.bb)
                for x in sorted(cyc):
                    t = b.blocks[x]["t"]
                    if t[0] != "switch" or not any(y not in cyc and not b.blocks[y]["c"] for y in b.succ[x]):
                        continue
                    n += 1
                    o = origin_of_operand(b, t[1])
                    reads = set(o.field_names())
                    for cc in o.calls:
                        for tg in cc.targets:
                            cid = f.canon_to_id.get(tg)
                            if cid and f.bodies[cid].self_ty == b.self_ty:
                                R, _ = self_field_summary(f, f.bodies[cid], "may")
                                reads |= R
                    cx.check(other not in reads, "`%s`: the %s search is not ended by the cached `%s`" % (b.id, "backward" if lookup == "get_prev" else "forward", other),
                             "bound-cache-ends-search|%s|%s" % (b.name, other), b.where(x),
                             "`%s` leaves its %s search on a condition that reads `%s` (the cached first node beyond the OTHER bound): once an earlier run cached that node the "
                             "search stops on it and the cursor reports no entry although in-range keys exist" % (b.id, "backward" if lookup == "get_prev" else "forward", other))
    cx.floor("loop exits of SkiplistIterator searches", n, 1)


LSM_MOVES = ("seek", "seek_first", "seek_last", "next", "prev")


@rule("C09", "C09.R9", "every cursor: the bool a positioning method returns is computed after the last change to what valid() reads")
def r9(cx):
    """All cursor layers drive their children by the returned bool (`if iter.seek(k)? { step back } else { iter.seek_last() }`,
    `while it.next()? {..}`), the public API by `valid()`.  The two agree only if the returned value is not older than the last
    write to a field `valid()` depends on: a value taken from a call and returned AFTER a later write to such a field (e.g.
    `mark_exhausted()` when the seek overshot the upper bound) makes a merge keep / drop the wrong child."""
    f = cx.f
    impls = {}
    for b in f.scan_bodies():
        if b.impl_trait and b.impl_trait.split("::")[-1].split("<")[0] == "LSMIterator":
            impls.setdefault(b.self_ty, {})[b.name.split("::")[-1]] = b
    n = 0
    for ty, ms in sorted(impls.items()):
        v = ms.get("valid")
        if v is None:
            continue
        V, _ = self_field_summary(f, v, "may")
        for mname in LSM_MOVES:
            b = ms.get(mname)
            if b is None:
                continue
            _, W = self_field_sites(f, b, "may")
            mut = set()
            for fld in V:
                mut |= W.get(fld, set())
            for i, j, lhs, rv, line in b.assigns():
                if i not in b.live or lhs != [0] or rv[0] != "agg" or not rv[2]:
                    continue
                ex = rv[3] or {}
                if "Ok" not in str(ex):
                    continue
                n += 1
                o = origin_of_operand(b, rv[2][0], through_calls=False)
                for c in o.calls:
                    after_c = b.reachable_after([c.bb])
                    stale = [m for m in sorted(mut) if m != c.bb and m in after_c and i in b.reachable_after([m], avoid={c.bb}) | {m}]
                    cx.check(not stale, "`%s`: the returned bool (from `%s`) is not older than the last write to a field valid() reads" % (b.id, short(c)),
                             "result-older-than-valid|%s|%s" % (ty.split("<")[0].split("::")[-1], mname), b.where(stale[0]) if stale else b.where(i),
                             "`%s` returns the bool it got from `%s` although a field that `valid()` reads (%s) is written afterwards: the caller's "
                             "`if it.%s(..)?` and `it.valid()` disagree, and a merge that re-positions children by the returned bool keeps an exhausted "
                             "child or drops a live one" % (b.id, short(c), ", ".join(sorted(V)), mname))
    cx.floor("Ok(bool) returns of LSMIterator positioning methods", n, 49)


@rule("C09", "C09.R10", "an inverted user range is an empty cursor: a table window [first, last) computed from two bounds is never sliced unguarded")
def r10(cx):
    """`find_first_overlapping_table(range)` and `find_last_overlapping_table(range)` are two independent binary searches;
    for a range whose lower bound lies above its upper bound the first index exceeds the second, and `&tables[first..last]`
    panics.  Where both bounds of the range come from ONE key (point lookup) the window cannot invert; where the range is
    the caller's (cursor construction) the slice must be taken with a guard (`first <= last` test, `get(first..last)`)."""
    f = cx.f
    n = 0
    for b in f.scan_bodies():
        if "::tests::" in b.id or "test" in b.file:
            continue
        fo = {c.primary.split("::")[-1]: c for c in b.calls if c.bb in b.live and c.primary.split("::")[-1] in ("find_first_overlapping_table", "find_last_overlapping_table")}
        if len(fo) < 2:
            continue
        # does the range come from one key only?  (user_range_to_internal_range(Included(k), Included(k)))
        single = False
        o = origin_of_operand(b, fo["find_first_overlapping_table"].args[1], through_calls=False)
        for c in o.calls:
            if c.primary.split("::")[-1] == "user_range_to_internal_range" and len(c.args) == 2:
                ps = [origin_of_operand(b, a, through_calls="all").params for a in c.args]
                single = bool(ps[0]) and ps[0] == ps[1] and len(ps[0]) == 1
        for c in b.calls:
            if c.bb not in b.live or c.primary.split("::")[-1] != "index" or "Range<usize>" not in (c.callee.get("a") or ""):
                continue
            ro = origin_of_operand(b, c.args[1], through_calls="all")
            if not (fo["find_first_overlapping_table"] in ro.calls and fo["find_last_overlapping_table"] in ro.calls):
                continue
            n += 1
            # clamped: `last.max(first)` / `first.min(last)`
            guarded = False
            for mc in ro.calls:
                if mc.primary.split("::")[-1] in ("max", "min") and len(mc.args) == 2:
                    s = [origin_of_operand(b, a, through_calls="all").calls for a in mc.args]
                    if any(fo["find_first_overlapping_table"] in x for x in s) and any(fo["find_last_overlapping_table"] in x for x in s):
                        guarded = True
            for cm in comparisons(b):
                if cm.condition_to_reach(c.bb) is None:
                    continue
                s = [origin_of_operand(b, op, through_calls=False).calls for op in (cm.lhs, cm.rhs)]
                if any(fo["find_first_overlapping_table"] in x for x in s) and any(fo["find_last_overlapping_table"] in x for x in s):
                    guarded = True
            cx.check(single or guarded, "`%s`: the table window is sliced only when it cannot be inverted" % b.id, "table-window-unguarded|%s" % b.name, c.where(),
                     "`%s` slices `tables[first..last]` with both indexes found by independent searches over the CALLER's range: for a range whose start lies above its end "
                     "(tx.range(\"m\", \"c\")) first > last and the slice panics instead of the cursor being empty" % b.id)
    cx.floor("table-window computations (first/last overlapping table)", n, 1)


@rule("C09", "C09.R11", "k-way merges: the count of live sources follows the LAST positioning of each source")
def r11(cx):
    """`active_count` is what `find_winner` / `advance_winner` use to report `exhausted`; a source that is positioned on an
    entry but not counted makes the cursor stop early.  Each positioning of a child (`seek`, `seek_last`, `next`, `prev`,
    ...) returns whether it landed on an entry: in every function that updates the count, that answer must reach a branch
    (directly, or through a later `valid()` of the child) before the count is touched -- a positioning whose result is
    dropped, followed by a count decision taken from an OLDER answer, loses the source."""
    f = cx.f
    n = 0
    for b in f.scan_bodies():
        ty = (b.self_ty or "").split("<")[0].split("::")[-1]
        if ty not in ("KMergeIterator", "MergingIterator") or b.kind != "method":
            continue
        # the count field = the integer-typed field of the merge struct (whatever its name)
        ad = f.adt(ty)
        vs = ad["variants"][0]["fields"] if isinstance(ad["variants"], list) else ad["variants"]["fields"]
        counters = {x[0] for x in vs if x[1] in ("usize", "u32", "u64", "i32", "isize")}
        cw = set()
        for i, j, lhs, rv, line in b.assigns():
            if i in b.live and any(isinstance(p_, list) and p_[0] == "f" and p_[2] in counters for p_ in lhs[1:]):
                cw.add(i)
        if not cw:
            continue
        moves = [c for c in b.calls if c.bb in b.live and c.primary.split("::")[-1] in LSM_MOVES and "LSMIterator" in (c.callee.get("trait") or "")]
        valids = {c.bb for c in b.calls if c.bb in b.live and c.primary.split("::")[-1] == "valid" and "LSMIterator" in (c.callee.get("trait") or "")}
        for c in moves:
            n += 1
            used = _try_bool(b, c) is not None
            if not used:
                # is the payload stored in a local that is branched on later (`positioned = iter.prev()?`)?
                for x in b.calls:
                    if x.bb in b.live and x.primary.endswith("Try>::branch") and x.args and x.args[0][0] in ("c", "m") and x.args[0][1][0] == c.dest[0]:
                        for i, j, lhs, rv, _ in b.assigns():
                            if rv[0] == "use" and rv[1][0] in ("c", "m") and rv[1][1][0] == x.dest[0] and len(lhs) == 1 and b.local_ty(lhs[0]) == "bool":
                                # a plain store into a user variable that some switch reads
                                for blk in b.live:
                                    t = b.blocks[blk]["t"]
                                    if t[0] == "switch" and t[1][0] in ("c", "m") and lhs[0] in {t[1][1][0]} | {q for q in _moved_from(b, t[1][1][0])}:
                                        used = True
            if used:
                cx.ok("`%s`: the answer of `%s` is branched on" % (b.id, c.primary.split("::")[-1]), c.where())
                continue
            r = b.reachable_after([c.bb], avoid=valids)
            stale = sorted(x for x in cw if x in r)
            cx.check(not stale, "`%s`: after `%s` (answer dropped) the source is re-examined before the count changes" % (b.id, c.primary.split("::")[-1]),
                     "source-count-stale|%s|%s" % (b.name, c.primary.split("::")[-1]), c.where(),
                     "`%s` positions a child with `%s` and drops the answer, then decides `active_count` from an older flag: a child that this call put on an entry is not "
                     "counted, `find_winner` reports the merge exhausted, and the cursor ends while that source still holds live keys below the turning point" % (
                         b.id, c.primary.split("::")[-1]))
    cx.floor("child positioning calls in count-maintaining merge functions", n, 12)


def _moved_from(b, l):
    """locals whose value is (transitively) moved / copied into `l`"""
    res, ch = {l}, True
    while ch:
        ch = False
        for i, j, lhs, rv, _ in b.assigns():
            if len(lhs) == 1 and lhs[0] in res and rv[0] == "use" and rv[1][0] in ("c", "m") and len(rv[1][1]) == 1 and rv[1][1][0] not in res:
                res.add(rv[1][1][0])
                ch = True
    return res
