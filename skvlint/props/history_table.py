"""per-entry transition table of HistoryIterator::skip_to_valid_forward (E3) versus the oracle derived from
the property statement: a hard delete hides itself and everything older; a replace is shown and hides everything
older; soft tombstones are shown iff requested; invisible / out-of-range entries are skipped without changing state."""
import itertools
from ..core import AnchorMissing
from ..e3 import Region, E3Error, name_of

ROLE_DOM = {"dup": [False, True], "same_key": [True, False], "visible": [True, False], "ts": ["none", "in", "above", "below"], "fvs": [False, True], "lihd": [False, True],
            "bs": [False, True], "hd": [False, True], "rp": [False, True], "tomb": [False, True], "incl": [False, True]}


def extract(f):
    b = f.body("HistoryIterator::skip_to_valid_forward")
    iv = [c for c in b.calls_to("HistoryIterator::inner_valid") if b.in_cycle(c.bb)]
    if not iv:
        raise AnchorMissing("history forward loop head not found")
    hi = f.adt("HistoryIterator")
    fields = [x[0] for x in hi["variants"][0]["fields"]]
    idx = {n: i for i, n in enumerate(fields)}
    for n in ("first_visible_seen", "latest_is_hard_delete", "barrier_seen"):
        if n not in idx:
            raise AnchorMissing("HistoryIterator.%s missing" % n)
    obs = {n: "_1*.%d" % idx[n] for n in ("first_visible_seen", "latest_is_hard_delete", "barrier_seen")}
    r = Region(b, iv[0].bb, stops={iv[0].bb: "next-entry"}, observe=obs, max_paths=400000,
               marks={"HistoryIterator::inner_next": "inner_next", "HistoryIterator::advance_to_next_user_key": "next_key"})
    return b, r.run()


def roles(cond):
    """raw atoms -> roles; returns (roles dict, gate dict) ; gate = conditions that must hold for the step semantics to apply"""
    r, gate = {}, {}
    for a, v in cond.items():
        if a == "inner_valid(p1)":
            gate["valid"] = v
        elif a.startswith("variant(branch("):
            gate.setdefault("try", True)
            if v != "Continue":
                gate["try"] = False
        elif a.startswith("branch(") and a.endswith(").0"):
            gate["next_key_found"] = v
        elif a == "variant(p1.limit)":
            gate["limit_some"] = (v == "Some")
        elif a.startswith("rel(p1.entries_returned,"):
            gate["under_limit"] = (v == "lt")
        elif a == "within_upper_bound(p1)":
            gate["in_upper"] = v
        elif a.startswith("user_key_within_lower_bound("):
            gate["in_lower"] = v
        elif a.startswith("rel(p1.current_user_key,"):
            r["same_key"] = (v == "eq")
        elif a.startswith("rel(p1.snapshot_seq_num,seq_num("):
            r["visible"] = v in ("eq", "gt")
        elif a == "variant(p1.ts_range)":
            r["ts_some"] = (v == "Some")
        elif a.startswith("rel(p1.ts_range@Some.0.1,timestamp("):
            r["ts_end"] = v  # end vs ts: lt => ts above end
        elif a.startswith("rel(p1.ts_range@Some.0.0,timestamp("):
            r["ts_start"] = v  # start vs ts: gt => ts below start
        elif a == "p1.first_visible_seen":
            r["fvs"] = v
        elif a == "p1.latest_is_hard_delete":
            r["lihd"] = v
        elif a == "p1.barrier_seen":
            r["bs"] = v
        elif a.startswith("is_hard_delete_marker("):
            r["hd"] = v
        elif a.startswith("is_replace("):
            r["rp"] = v
        elif a.startswith("is_tombstone("):
            r["tomb"] = v
        elif a == "p1.include_tombstones":
            r["incl"] = v
        elif a.startswith("rel(") and "last_version_seen" in a and "seq_num(" in a:
            # the current version equals the one examined last for this key (offered by two sources)
            r["dup"] = (v == "eq") if isinstance(v, str) else bool(v)
        else:
            raise E3Error("history step reads an input the oracle does not know: %s" % a)
    return r, gate


def oracle(t):
    """t: total assignment of ROLE_DOM -> (action, (fvs, lihd, bs))"""
    fvs, lihd, bs = (t["fvs"], t["lihd"], t["bs"]) if t["same_key"] else (False, False, False)
    if t.get("dup") and t["same_key"]:
        # the same version offered by a second source: listed once, changes nothing
        return "skip", (fvs, lihd, bs)
    if not t["visible"]:
        return "skip", (fvs, lihd, bs)
    if t["ts"] == "below":
        return "next_key", (fvs, lihd, bs)
    lihd1 = lihd or ((not fvs) and t["hd"])
    fvs1 = True
    if t["ts"] == "above":
        # a version newer than the window is not listed, but it is still a version of the key: a hard delete / replace
        # above the window erases the older versions that lie inside the window (they are physically gone after the next
        # compaction, so listing them makes the answer depend on compaction)
        if lihd1 or bs:
            return "skip", (fvs1, lihd1, bs)
        return "skip", (fvs1, lihd1, bs or t["hd"] or t["rp"])
    if lihd1:
        return "skip", (fvs1, lihd1, bs)
    if bs:
        return "skip", (fvs1, lihd1, bs)
    if t["hd"]:
        return "skip", (fvs1, lihd1, True)
    bs1 = bs or t["rp"]
    if (not t["incl"]) and t["tomb"]:
        return "skip", (fvs1, lihd1, bs1)
    return "yield", (fvs1, lihd1, bs1)


def leaf_action(lf):
    if lf.outcome == ("stop", "next-entry"):
        return "next_key" if "next_key" in lf.marks else ("skip" if "inner_next" in lf.marks else "spin")
    if lf.outcome == ("return",):
        n = name_of(lf.ret) if lf.ret is not None else ""
        if n == "Result::Ok(1)":
            return "yield"
        if n == "Result::Ok(0)":
            return "end"
        return "error"
    return str(lf.outcome)


ABOVE = {"bad": 0, "examples": []}


def compare(cx, f):
    ABOVE["bad"] = 0
    ABOVE["examples"] = []
    ABOVE["dup_tested"] = False
    b, leaves = extract(f)
    n = bad = 0
    examples = []
    rows = []
    for lf in leaves:
        r, gate = roles(lf.cond)
        if "dup" in r:
            ABOVE["dup_tested"] = True
        # only steps on a valid, in-bounds entry with successful inner calls follow the step semantics
        if gate.get("valid") is not True or gate.get("try") is False or gate.get("in_upper") is False or gate.get("in_lower") is False:
            continue
        if gate.get("limit_some") and gate.get("under_limit") is False:
            continue
        if "next_key_found" in gate and gate["next_key_found"] is False:
            continue
        act = leaf_action(lf)
        # ts role: the set of window positions this path is consistent with (a path that never branched on one of the two
        # comparisons leaves that side open)
        if r.get("ts_some") is False:
            ts_allowed = ["none"]
        elif "ts_some" not in r:
            ts_allowed = list(ROLE_DOM["ts"])
        else:
            al = {"in", "above", "below"}
            if r.get("ts_end") == "lt":
                al &= {"above"}
            elif r.get("ts_end") in ("gt", "eq"):
                al -= {"above"}
            if r.get("ts_start") == "gt":
                al &= {"below"}
            elif r.get("ts_start") in ("lt", "eq"):
                al -= {"below"}
            ts_allowed = [x for x in ROLE_DOM["ts"] if x in al]
        tsv = ts_allowed if len(ts_allowed) == 1 else None
        fixed = {k: v for k, v in r.items() if k in ROLE_DOM}
        if tsv and len(tsv) == 1:
            fixed["ts"] = tsv[0]
        free = [k for k in ROLE_DOM if k not in fixed]
        obs = lf.obs
        for combo in itertools.product(*[(ts_allowed if k == "ts" else ROLE_DOM[k]) for k in free]):
            t = dict(fixed)
            t.update(zip(free, combo))
            if t["hd"] and t["rp"]:
                continue
            if t["lihd"] and not t["fvs"]:
                continue
            if tsv is None and t["ts"] != "none" and "ts_some" not in r:
                # the leaf never looked at ts_range: only possible before the ts test (invisible entries)
                pass
            n += 1
            want_act, want_state = oracle(t)
            st0 = (t["fvs"], t["lihd"], t["bs"]) if t["same_key"] else (False, False, False)
            got_state = []
            for i, nm in enumerate(("first_visible_seen", "latest_is_hard_delete", "barrier_seen")):
                v = obs.get(nm)
                if v is None:
                    got_state.append((t["fvs"], t["lihd"], t["bs"])[i])
                elif v[0] == "c":
                    got_state.append(bool(v[1]))
                elif v[0] == "a":
                    got_state.append(t[{"p1.first_visible_seen": "fvs", "p1.latest_is_hard_delete": "lihd", "p1.barrier_seen": "bs"}.get(v[1], "fvs")])
                else:
                    got_state.append(None)
            ok = (act == want_act) and tuple(got_state) == want_state
            if not ok:
                if t["ts"] == "above":
                    # only the observable part counts here: does the step leave the key in a state that hides older versions?
                    hide_got = bool(got_state[1]) or bool(got_state[2])
                    hide_want = want_state[1] or want_state[2]
                    if act == want_act and hide_got == hide_want:
                        continue
                    ABOVE["bad"] += 1
                    if len(ABOVE["examples"]) < 3:
                        ABOVE["examples"].append({"inputs": t, "code": [act, got_state], "oracle": [want_act, list(want_state)]})
                    continue
                bad += 1
                if len(examples) < 3:
                    examples.append({"inputs": t, "code": [act, got_state], "oracle": [want_act, list(want_state)]})
        rows.append([str(dict(sorted(fixed.items()))), act, str({k: (name_of(v) if v else None) for k, v in obs.items()})])
    return b, leaves, n, bad, examples, rows
