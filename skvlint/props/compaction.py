"""decision table of CompactionIterator::process_accumulated_versions (per accumulated version),
extracted with E3 and mapped to role names; shared by C01.R3, C06.R1, C10.R2, C10.R5"""
import itertools
from ..core import AnchorMissing, origin_of_operand, rvalue_places
from ..e3 import Region, E3Error

ROLES = ["try_ok", "cur_vis", "newer_some", "same_boundary", "must_preserve", "versioning", "bottom", "is_latest",
         "hard_delete", "replace", "latest_del_bottom", "has_replace", "older_than_replace", "retention_pos", "expired"]
DOMAIN = {
    "cur_vis": ["Bounded", "Newer", "NoActive"], "newer_some": [False, True], "same_boundary": [False, True],
    "versioning": [False, True], "bottom": [False, True], "is_latest": [False, True], "hard_delete": [False, True],
    "replace": [False, True], "latest_del_bottom": [False, True], "has_replace": [False, True],
    "retention_pos": [False, True], "expired": [False, True],
    # NOT necessarily an input of the code: whether this version lies below (is older than) the newest REPLACE of the key.
    # A replace erases what came before it, never what was written after it.
    "older_than_replace": [False, True],
}

_cache = {}


def role_of(atom, value):
    """raw atom name (structural: callee names, field names) -> (role, normalised value) or None"""
    if "must_preserve_for_snapshot(" in atom:
        return "must_preserve", value
    if "same_visibility_boundary(" in atom:
        return "same_boundary", value
    if atom.startswith("is_hard_delete_marker("):
        return "hard_delete", value
    if atom.startswith("is_replace("):
        return "replace", value
    if atom.endswith(".enable_versioning"):
        return "versioning", value
    if atom.endswith(".is_bottom_level"):
        return "bottom", value
    if atom == "rel(0,i)" or atom == "rel(0,@idx)":
        return "is_latest", value == "eq"
    if atom.startswith("rel(0,") and atom.endswith(".retention_period_ns)"):
        return "retention_pos", value == "lt"
    if atom.startswith("rel(") and ".retention_period_ns," in atom and "saturating_sub" in atom:
        return "expired", value == "lt"
    if atom.startswith("variant(branch(find_earliest_visible_snapshot") and atom.endswith(").0)"):
        return "cur_vis", {"BoundedBySnapshot": "Bounded", "NewerThanAllSnapshots": "Newer", "NoActiveSnapshots": "NoActive"}[value]
    if atom.startswith("variant(branch(find_earliest_visible_snapshot"):
        return "try_ok", value == "Continue"
    if atom == "variant(@newer_vis)":
        return "newer_some", value == "Some"
    # the retention test moved into a helper (`older_version_expired(self, ts)` = retention period set AND age beyond it)
    if atom.startswith("older_version_expired(") or (("expired(" in atom or "is_stale(" in atom) and ".timestamp" in atom):
        return "expired_by_retention", value
    if atom == "@latest_del_bottom":
        return "latest_del_bottom", value
    if atom == "@has_replace":
        return "has_replace", value
    # `newest_replace_idx.is_some_and(|r| i > r)`: this version lies below the newest replace
    if "@replace_idx" in atom and ("is_some_and" in atom or atom.startswith("rel(")):
        if atom.startswith("rel("):
            return "older_than_replace", value in ("gt",) if atom.startswith("rel(i,") or atom.startswith("rel(@idx,") else value in ("lt",)
        return "older_than_replace", value
    if atom == "variant(@replace_idx)":
        return "has_replace", value == "Some"
    return None


def table(f):
    """returns (rows, info): rows = list of (cond: role->value (partial), output: bool)"""
    key = id(f)
    GUARANTEE_ON[0] = drop_all_consults_oldest_snapshot(f)  # (per fact set: several trees are analysed in one process)
    if key in _cache:
        return _cache[key]
    b = f.body("CompactionIterator::process_accumulated_versions")
    hd = [c for c in b.calls_to("InternalKey::is_hard_delete_marker") if b.in_cycle(c.bb)]
    nx = [c for c in b.calls if b.in_cycle(c.bb) and c.primary.split("::")[-1] == "next" and ("range" in c.primary or "Iterator" in c.primary)]
    if not hd or not nx:
        raise AnchorMissing("process_accumulated_versions: per-version loop not found")
    # locals defined before the loop that the decision reads: identify by provenance, not by name
    names = {}
    for l, (ty, nm) in enumerate(b.locals):
        if ty == "bool" and nm:
            ds = b.defs().get(l, [])
            if not ds or any(b.in_cycle(d[1]) for d in ds):
                continue
            # only inputs the per-version decision actually reads
            read_in_loop = False
            for i2, j2, lhs2, rv2, _ in b.assigns():
                if b.in_cycle(i2) and any(pl[0] == l for pl in rvalue_places(rv2)):
                    read_in_loop = True
            for blk in b.live:
                t = b.blocks[blk]["t"]
                if b.in_cycle(blk) and t[0] == "switch" and t[1][0] in ("c", "m") and t[1][1][0] == l:
                    read_in_loop = True
            if not read_in_loop:
                continue
            o = origin_of_operand(b, ["c", [l]], through_calls="all")
            if o.from_call("std::iter::Iterator::any"):
                names[l] = "@has_replace"
            elif o.from_call("InternalKey::is_hard_delete_marker") or any(
                    (not b.in_cycle(c.bb)) and c.primary.split("::")[-1] == "is_hard_delete_marker" and any(d[1] in b.reachable_after([c.bb]) for d in ds) for c in b.calls if c.bb in b.live):
                # (a conjunction is lowered to control flow: the marker test may be a control dependence of the definition)
                names[l] = "@latest_del_bottom"
        if ty.startswith("std::option::Option<") and "SnapshotVisibility" in ty and nm:
            names[l] = "@newer_vis"
        if ty.replace(" ", "") == "std::option::Option<usize>" and nm:
            ds = b.defs().get(l, [])
            if ds and not any(b.in_cycle(d[1]) for d in ds) and origin_of_operand(b, ["c", [l]], through_calls="all").from_call("std::iter::Iterator::position"):
                names[l] = "@replace_idx"
    if sorted(names.values()) not in (["@has_replace", "@latest_del_bottom", "@newer_vis"], ["@latest_del_bottom", "@newer_vis", "@replace_idx"]):
        raise AnchorMissing("process_accumulated_versions: pre-loop inputs not identified (%s)" % sorted(names.values()))
    # the loop index
    for l, (ty, nm) in enumerate(b.locals):
        if ty == "usize" and nm == "i":
            names.setdefault(l, "i")
    pushes = {}
    r = Region(b, hd[0].bb, stops={nx[0].bb: "next"}, marks={"std::vec::Vec::push": "push"}, max_paths=400000, local_names=names)
    leaves = r.run()
    # which push? output_versions vs others: check receiver of push calls on the path -- there is one push site on output_versions
    push_sites = [c for c in b.calls_to("std::vec::Vec::push") if b.in_cycle(c.bb)]
    out_sites = [c for c in push_sites if "output_versions" in origin_of_operand(b, c.args[0]).field_names()]
    if len(out_sites) != 1:
        raise AnchorMissing("expected one push on output_versions in the loop, found %d" % len(out_sites))
    rows = []
    unknown = set()
    for lf in leaves:
        if lf.outcome != ("stop", "next"):
            # the `?` error path of find_earliest_visible_snapshot
            continue
        cond = {}
        for a, v in lf.cond.items():
            rv = role_of(a, v)
            if rv is None:
                unknown.add(a)
                continue
            if rv[0] != "try_ok":
                cond[rv[0]] = rv[1]
        out = out_sites[0].bb in lf.trace
        rows.append((cond, out, lf))
    GUARANTEE_ON[0] = drop_all_consults_oldest_snapshot(f)
    info = {"paths": len(leaves), "rows": len(rows), "unknown_atoms": sorted(unknown), "region_start": b.where(hd[0].bb), "drop_all_consults_oldest_snapshot": GUARANTEE_ON[0]}
    if unknown:
        raise E3Error("decision region reads inputs the table does not know: %s" % sorted(unknown))
    _cache[key] = (rows, info)
    return rows, info


_GUARANTEE = {}


def drop_all_consults_oldest_snapshot(f):
    """Structural premise for one feasibility constraint: the pre-loop flag `the latest version is a hard delete at the
    bottom level: drop the whole key` (the one the decision reads) is only TRUE when the oldest open snapshot already sees
    that delete -- the flag's value derives from, or its true-definition is control-dependent on, a test that reads the
    snapshot list together with the latest version's sequence number.  Then every older version lies in the same
    visibility boundary as the delete (or no snapshot is open), i.e. it is superseded for every reader."""
    key = id(f)
    if key in _GUARANTEE:
        return _GUARANTEE[key]
    from ..core import comparisons, bool_edges, edge_condition
    b = f.body("CompactionIterator::process_accumulated_versions")

    def preloop_bools():
        for l, (ty, nm) in enumerate(b.locals):
            if ty == "bool" and nm:
                ds = b.defs().get(l, [])
                if ds and not any(b.in_cycle(d[1]) for d in ds):
                    yield l, ds

    def consults(l):
        o = origin_of_operand(b, ["c", [l]], through_calls="all")
        if "snapshots" not in o.field_names():
            return False
        if any(x.primary.split("::")[-1] == "seq_num" for x in o.calls):
            return True
        for bb_ in [b] + list(f.closures_of(b)):
            for cm in comparisons(bb_):
                los = [origin_of_operand(bb_, cm.lhs, through_calls="all"), origin_of_operand(bb_, cm.rhs, through_calls="all")]
                if cm.kind != "ord" and cm.op in ("Ge", "Le", "Gt", "Lt") and any(any(x.primary.split("::")[-1] == "seq_num" for x in oo.calls) for oo in los):
                    return True
        return False

    # the drop-all flag = the pre-loop bool read inside the loop whose definition involves the hard-delete marker test
    ok = False
    for L, ds in preloop_bools():
        read_in_loop = any(b.in_cycle(blk) and b.blocks[blk]["t"][0] == "switch" and b.blocks[blk]["t"][1][0] in ("c", "m") and b.blocks[blk]["t"][1][1][0] == L for blk in b.live) or \
            any(b.in_cycle(i2) and any(pl[0] == L for pl in rvalue_places(rv2)) for i2, j2, lhs2, rv2, _ in b.assigns())
        marker = any((not b.in_cycle(c.bb)) and c.primary.split("::")[-1] == "is_hard_delete_marker" and any(d[1] in b.reachable_after([c.bb]) or d[1] == c.bb for d in ds)
                     for c in b.calls if c.bb in b.live)
        if not (read_in_loop and marker):
            continue
        if consults(L):
            ok = True  # the snapshot test is the value the flag is copied from (last conjunct)
            continue
        # ... or an earlier conjunct: the block that gives L a non-constant / true value is reached only when a flag that
        # consults the snapshots is true
        true_defs = [d[1] for d in ds if not (d[0] == "assign" and d[3][0] == "use" and d[3][1][0] == "k" and str(d[3][1][1].get("v")) in ("0", "false"))]
        for G, gds in preloop_bools():
            if G == L or not consults(G):
                continue
            for gd in gds:
                starts = [gd[2].target] if gd[0] == "call" and gd[2].target is not None else [gd[1]]
                for st_ in starts:
                    e, sw = bool_edges(b, G, st_)
                    if e is None or b.in_cycle(sw):
                        continue
                    if true_defs and all(edge_condition(b, sw, e, td) == frozenset({True}) for td in true_defs):
                        ok = True
    _GUARANTEE[key] = ok
    return ok


GUARANTEE_ON = [False]


def feasible(t):
    """invariants between the inputs that hold by construction outside the region"""
    if GUARANTEE_ON[0] and t["latest_del_bottom"]:
        # the oldest open snapshot sees the delete: all versions of the key share its visibility boundary
        if t["cur_vis"] == "Newer":
            return False
        if t["cur_vis"] == "Bounded" and not t["is_latest"] and not t["same_boundary"]:
            return False
    if t["must_preserve"] != (t["cur_vis"] == "Bounded"):
        return False
    if t["newer_some"] == t["is_latest"]:
        return False  # newer_version_visibility is None exactly on the first (latest) version
    if t["latest_del_bottom"] and not t["bottom"]:
        return False
    if t["latest_del_bottom"] and t["is_latest"] and not t["hard_delete"]:
        return False
    if t["is_latest"] and t["hard_delete"] and t["bottom"] and not t["latest_del_bottom"] and not GUARANTEE_ON[0]:
        return False
    if GUARANTEE_ON[0] and t["is_latest"] and t["hard_delete"] and t["bottom"] and not t["latest_del_bottom"] and t["cur_vis"] == "NoActive":
        return False  # without an open snapshot the drop-all flag is set
    if t["replace"] and not t["has_replace"]:
        return False
    if t["replace"] and t["hard_delete"]:
        return False
    if t["older_than_replace"] and not t["has_replace"]:
        return False
    if t["older_than_replace"] and t["is_latest"]:
        return False
    if t["has_replace"] and t["is_latest"] and not t["replace"] and False:
        return False
    return True


def decide(rows, total):
    """output decision of the table for a total assignment (None if no row matches)"""
    hits = [out for cond, out, _ in rows if all(total.get(k) == v for k, v in cond.items())]
    if not hits:
        return None
    if len(set(hits)) != 1:
        return "ambiguous"
    return hits[0]


def totals():
    keys = list(DOMAIN)
    for combo in itertools.product(*[DOMAIN[k] for k in keys]):
        t = dict(zip(keys, combo))
        t["must_preserve"] = (t["cur_vis"] == "Bounded")
        t["expired_by_retention"] = t["retention_pos"] and t["expired"]  # derived: what a helper returns when the code asks it
        if feasible(t):
            yield t


def superseded(t):
    """ORACLE (from the properties, not from the code): a version may be dropped as `superseded by a newer one in the same
    visibility boundary` only when versioning is off.  With versioning on an older version is history: C10 forbids losing
    it inside the retention window whether or not a snapshot happens to be open during the compaction.  (Until D20 was
    repaired this function mirrored the code: `allowed whenever a snapshot is open`.)"""
    allows = not t["versioning"]
    return t["newer_some"] and allows and (not t["is_latest"]) and t["same_boundary"]


def unneeded_by_snapshots(t):
    """a newer version in the same visibility boundary exists: no snapshot reads this one (whatever versioning says)"""
    return t["newer_some"] and (not t["is_latest"]) and t["same_boundary"]


def check_obligation(cx, rows, name, premise, expect_output, key, msg, where=None, known_exception=None):
    """for every feasible total assignment satisfying premise: table output == expect_output"""
    n = bad = 0
    witnesses = []
    for t in totals():
        if not premise(t):
            continue
        n += 1
        d = decide(rows, t)
        if d != expect_output:
            bad += 1
            if len(witnesses) < 3:
                witnesses.append({k: t[k] for k in sorted(t)})
    cx.check(bad == 0 and n > 0, "%s (%d feasible input combinations)" % (name, n), key, where,
             "%s: %d of %d feasible input combinations decide otherwise, e.g. %s" % (msg, bad, n, witnesses[:1]), witnesses=witnesses, combinations=n)
    return n, bad
