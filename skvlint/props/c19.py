"""C19 — one live instance per database directory."""
from ..registry import rule
from ..core import strip_generics, origin_of_operand, AnchorMissing, const_eval, feasible_reach
from .common import *
from .walrules import FS_MUTATORS

EXPLANATION = ("Structural necessary conditions of the directory lock: opening acquires the lock before any call that can "
               "reach a file-system mutation; a refused acquisition performs no destructive file operation before the OS lock "
               "is held (constant arguments of the OpenOptions chain + dominance by the try-lock success edge); close() "
               "mutates nothing after releasing the lock; dropping releases it.  Cross-process behaviour of the OS lock is NOT decided.")
ASSUMPTIONS = ["fs2::try_lock_exclusive provides an exclusive advisory lock", "MIR models control flow faithfully"]

MUT = set(FS_MUTATORS) | {"std::fs::set_permissions", "std::io::Write::write_all", "std::fs::File::sync_all"}
DESTRUCTIVE = {"std::fs::rename", "std::fs::remove_file", "std::fs::remove_dir_all", "std::fs::File::set_len", "std::fs::write",
               "std::io::Write::write_all", "std::io::Write::write", "std::fs::File::create"}


def mutating_calls(f, body, exclude=()):
    res = []
    for c in body.calls:
        if c.bb not in body.live:
            continue
        if c.names & set(exclude):
            continue
        if f.call_may_reach(c, MUT):
            res.append(c)
    return res


@rule("C19", "C19.R1", "the directory lock is taken before anything that can modify the directory")
def r1(cx):
    f = cx.f
    b = f.body("CoreInner::new")
    acq = sites(cx, b, "LockFile::acquire")
    e = result_edges(b, acq[0])
    if e is None:
        raise AnchorMissing("CoreInner::new does not branch on LockFile::acquire's result")
    ok, err = e
    r = feasible_reach(b, err)
    muts = mutating_calls(f, b, exclude={"LockFile::acquire", "LockFile::new"})
    cx.floor("file-system touching calls in CoreInner::new", len(muts), 3)
    for c in muts:
        cx.check(b.set_dominates([acq[0].bb], c.bb) and c.bb not in r, "`%s` runs only after the lock was acquired" % c.primary, "before-lock|CoreInner::new|%s" % c.primary, c.where(),
                 "CoreInner::new reaches `%s` (can modify the directory) without holding the directory lock" % c.primary)
    cx.check(not any(c.bb in r for c in muts), "a refused lock leaves CoreInner::new without touching the directory", "refused-open-touches", acq[0].where())
    cb = f.body("Core::new")
    ci = sites(cx, cb, "CoreInner::new")
    for c in mutating_calls(f, cb, exclude={"CoreInner::new"}):
        cx.check(cb.set_dominates([ci[0].bb], c.bb), "Core::new: `%s` after CoreInner::new (lock held)" % c.primary, "before-lock|Core::new|%s" % c.primary, c.where(),
                 "Core::new reaches `%s` before the directory lock is held" % c.primary)
    tb = f.body("Tree::new")
    cn = sites(cx, tb, "Core::new")
    allowed = {"Tree::create_directory_structure"}
    for c in mutating_calls(f, tb, exclude={"Core::new"}):
        if c.names & allowed:
            # listed exception: creating missing directories is idempotent and non-destructive
            cb2 = f.body("Tree::create_directory_structure")
            bad = [x for x in cb2.calls if x.bb in cb2.live and f.call_may_reach(x, DESTRUCTIVE)]
            cx.check(not bad, "exception: create_directory_structure only creates missing directories", "exception-invalid|create_directory_structure", cb2.where(),
                     "create_directory_structure now reaches `%s`" % (bad[0].primary if bad else ""))
            continue
        cx.check(tb.set_dominates([cn[0].bb], c.bb), "Tree::new: `%s` after Core::new" % c.primary, "before-lock|Tree::new|%s" % c.primary, c.where(),
                 "Tree::new reaches `%s` (can modify the directory) before the lock is held" % c.primary)
    # the lock lives as long as the core: it is stored in CoreInner
    for i, j, lhs, rv, line in b.assigns():
        if rv[0] == "agg" and rv[3] and rv[3].get("adt") == "lsm::CoreInner":
            fields = rv[3]["fields"]
            o = origin_of_operand(b, rv[2][fields.index("lockfile")], through_calls="all")
            cx.check(o.from_call("LockFile::new"), "the acquired LockFile is kept inside CoreInner", "lock-not-kept", "%s:%d" % (b.file, line),
                     "the LockFile stored in CoreInner is not the one that was acquired: the lock is released as soon as CoreInner::new returns")


@rule("C19", "C19.R2", "a refused open touches nothing")
def r2(cx):
    f = cx.f
    b = f.body("LockFile::acquire")
    tl = [c for c in b.calls if c.bb in b.live and c.primary.split("::")[-1] in ("try_lock_exclusive", "lock_exclusive")]
    if not tl:
        raise AnchorMissing("LockFile::acquire no longer takes an exclusive OS lock")
    e = result_edges(b, tl[0])
    if e is None:
        raise AnchorMissing("LockFile::acquire does not branch on the try-lock result")
    ok, err = e
    rerr = feasible_reach(b, err)
    # OpenOptions chain constants
    for c in b.calls:
        if c.bb not in b.live:
            continue
        meth = c.primary.split("::")[-1]
        if c.primary.startswith("std::fs::OpenOptions::") and meth in ("truncate", "create_new"):
            v = const_eval(f, b, c.args[1])
            cx.check(v == 0, "the lock file is opened without %s" % meth, "open-%s" % meth, c.where(),
                     "LockFile::acquire opens the LOCK file with %s(true) before the OS lock is held: a refused open wipes the file the live instance wrote" % meth)
    destructive = [c for c in b.calls if c.bb in b.live and f.call_may_reach(c, DESTRUCTIVE)]
    cx.floor("writes to the lock file", len(destructive), 1)
    for c in destructive:
        cx.check(b.set_dominates(ok, c.bb) and c.bb not in rerr, "`%s` happens only after the OS lock was obtained" % c.primary, "write-before-lock|%s" % c.primary, c.where(),
                 "LockFile::acquire performs `%s` before (or without) holding the OS lock" % c.primary)
    # a refused lock returns an error and does not keep the handle
    cx.check(not any(x in rerr for x, k in exits(b) if k == "ok"), "a refused lock is reported as an error", "refused-ok", tl[0].where())
    for i, j, lhs, rv, line in b.assigns():
        fs = [p for p in lhs[1:] if isinstance(p, list) and p[0] == "f"]
        if fs and fs[-1][2] == "file":
            cx.check(b.set_dominates(ok, i), "the handle is stored only after the lock was obtained", "handle-before-lock", "%s:%d" % (b.file, line))
    who_calls(cx, ["LockFile::acquire"], {"CoreInner::new"}, "LockFile::acquire callers", "who:acquire")


@rule("C19", "C19.R3", "the lock is released last, and on drop")
def r3(cx):
    f = cx.f
    b = f.coroutine_of("Core::close")
    rel = sites(cx, b, "LockFile::release")
    after = b.reachable_after([rel[0].bb])
    for c in mutating_calls(f, b, exclude={"LockFile::release"}):
        cx.check(c.bb not in after, "close(): `%s` is not run after the lock was released" % c.primary, "mutation-after-release|%s" % c.primary, c.where(),
                 "Core::close reaches `%s` after releasing the directory lock: another instance may already own the directory" % c.primary)
    wc = sites(cx, b, "Wal::close")
    dom(cx, b, wc, rel, "WAL closed before the lock is released")
    db = f.body("<LockFile as Drop>::drop")
    cx.check(f.may_reach(db.id, "LockFile::release"), "dropping the LockFile releases the lock", "drop-no-release", db.where())
    rb = f.body("LockFile::release")
    tk = [c for c in rb.calls if c.primary.endswith("Option::take") or c.primary.endswith("::take")]
    cx.check(bool(tk) or bool([c for c in rb.calls if "unlock" in c.primary]), "release() drops/unlocks the file handle", "release-noop", rb.where(),
             "LockFile::release no longer drops the handle or unlocks the file")
    # the LOCK path must keep naming the inode every opener locks: it is never unlinked / renamed
    for b2 in f.scan_bodies():
        if b2.self_ty == "lockfile::LockFile" or (b2.impl_trait and b2.self_ty == "lockfile::LockFile"):
            bad = [c for c in b2.calls if c.bb in b2.live and f.call_may_reach(c, {"std::fs::remove_file", "std::fs::rename", "std::fs::remove_dir_all"})]
            cx.check(not bad, "`%s` never unlinks or renames the LOCK file" % b2.id, "lock-unlinked|%s" % b2.id, bad[0].where() if bad else b2.where(),
                     "`%s` removes/renames the LOCK file: an opener that already opened the old inode and one that creates a fresh file both obtain the lock" % b2.id)
    allowed = {"Core::close", "<LockFile as Drop>::drop", "lockfile::LockFile::drop"}
    # a release-on-failed-open guard: the Drop impl of a type that is only ever constructed in Core::new (C19.R6 checks that
    # it is disarmed on the success path)
    for gb in f.scan_bodies():
        if gb.name == "drop" and gb.impl_trait and gb.impl_trait.endswith("Drop") and gb.calls_to("LockFile::release") and "LockFile" not in (gb.self_ty or ""):
            ty = gb.self_ty
            ctor = {f.fn_of(x).id for x in f.scan_bodies() for i, j, lhs, rv, line in x.assigns() if rv[0] == "agg" and rv[3] and rv[3].get("adt") == ty}
            if ctor and ctor <= {"lsm::Core::new"}:
                allowed |= set(f.aliases_of(f.canon[gb.id]))
    who_calls(cx, ["LockFile::release"], allowed, "LockFile::release callers", "who:release", minimum=2)


SUBDIR = {"sstable_dir", "wal_dir", "manifest_dir", "vlog_dir", "versioned_index_dir", "sstable_file_path", "vlog_file_path", "manifest_file_path", "join"}


@rule("C19", "C19.R4", "only LockFile touches files directly in the database root (the LOCK inode outlives restore, clean-up and repair)")
def r4(cx):
    """The exclusive lock lives on the inode of `<root>/LOCK`.  Anything that unlinks, renames over or recreates a file
    directly in the root while the store is open detaches the lock from the path: the next opener creates a fresh LOCK,
    locks it and runs recovery against the live instance.  Decided crate-wide: every remove_file / remove_dir_all /
    rename / File::create / hard_link / copy whose path derives from `Options.path` goes through a sub-directory accessor
    or a join first."""
    f = cx.f
    pats = ("std::fs::remove_file", "std::fs::remove_dir_all", "std::fs::remove_dir", "std::fs::rename", "std::fs::File::create", "std::fs::copy", "std::fs::hard_link", "std::fs::write")
    n = 0
    for c in f.callers_of(*pats):
        if c.body.file.endswith("lockfile.rs"):
            continue
        n += 1
        owner = f.fn_of(c.body).id
        for ai, a in enumerate(c.args[:2]):
            o = origin_of_operand(c.body, a, through_calls="all")
            root = any(name == "path" and own.endswith("Options") for own, name in o.fields)
            if not root:
                if ai == 0:
                    cx.ok("`%s`: %s path does not derive from the database root" % (owner, c.primary.split("::")[-1]), c.where())
                continue
            via = {x.primary.split("::")[-1] for x in o.calls} & SUBDIR
            cx.check(bool(via), "`%s`: %s below the root goes through %s" % (owner, c.primary.split("::")[-1], sorted(via)), "root-file-touched|%s|%s" % (owner, c.primary.split("::")[-1]), c.where(),
                     "`%s` calls %s on a path taken directly from the database root (no sub-directory in between): the LOCK file lives there; unlinking or replacing it while the "
                     "store is open lets a second instance open the same directory" % (owner, c.primary))
    cx.floor("file-system mutation sites outside lockfile.rs", n, 15)


@rule("C19", "C19.R5", "a cloneable store handle closes the store only when the last handle goes away")
def r5(cx):
    """`Tree` is `Clone` (handles share one `Arc<Core>`), and dropping a `Tree` closes the core, which releases the
    directory lock.  If every drop does that, dropping one clone unlocks the directory under the handles that are still
    alive, and a second instance can open it.  Decided: when the handle type implements Clone, the part of its Drop that
    reaches Core::close is control dependent on a test of a handle count (atomic fetch_sub / Arc::strong_count)."""
    from ..core import comparisons
    f = cx.f
    cl = [b for b in f.scan_bodies() if b.name == "clone" and b.impl_trait and b.impl_trait.endswith("Clone") and (b.self_ty or "").endswith("lsm::Tree")]
    dr = [b for b in f.scan_bodies() if b.name == "drop" and b.impl_trait and b.impl_trait.endswith("Drop") and (b.self_ty or "").endswith("lsm::Tree")]
    if len(dr) != 1:
        raise AnchorMissing("expected one Drop impl for lsm::Tree, found %d" % len(dr))
    b = dr[0]
    closes = []
    for c in b.calls:
        if c.bb in b.live and f.call_may_reach(c, {"Core::close"}):
            closes.append(c)
    for i, j, lhs, rv, line in b.assigns():
        if i in b.live and rv[0] == "agg" and rv[1] in ("closure", "coroutine", "coroutine_closure") and rv[3]:
            cb = f.bodies.get(rv[3]["def"])
            if cb is not None and (f.may_reach(cb.id, "Core::close") or any(f.may_reach(x.id, "Core::close") for x in f.closures_of(cb))):
                closes.append(type("S", (), {"bb": i, "where": (lambda self_=None, b=b, line=line: "%s:%d" % (b.file, line)), "primary": "spawned close task"})())
    cx.check(bool(closes), "dropping a Tree closes the store", "drop-never-closes", b.where(), "Drop for Tree no longer reaches Core::close")
    if not cl:
        cx.ok("lsm::Tree is not Clone: every drop is the last handle", b.where())
        return
    guards = []
    for cm in comparisons(b):
        o = origin_of_operand(b, cm.lhs)
        o2 = origin_of_operand(b, cm.rhs)
        if any(x.primary.split("::")[-1] in ("fetch_sub", "strong_count", "fetch_add") for x in o.calls + o2.calls):
            guards.append(cm)
    for s_ in closes:
        ok = any(g.condition_to_reach(s_.bb) is not None for g in guards)
        cx.check(ok, "the close in Drop for Tree is guarded by a last-handle test", "clone-drop-closes-store", s_.where(),
                 "`Tree` is Clone, and dropping any clone closes the shared core and releases the directory lock while other handles are alive: a second instance "
                 "can then open the same directory next to the surviving handle")
    # and Clone registers the new handle with the same counter
    if guards:
        for c in cl:
            cx.check(bool([x for x in c.calls if x.bb in c.live and x.primary.split("::")[-1] in ("fetch_add", "clone")]), "Clone for Tree registers the new handle", "clone-unregistered", c.where())


def _own_drop_releases(f, ty, dropimpls):
    """the Drop impl of the dropped value's OWN type (not one nested behind Arc/Rc, whose destructor only runs for the last
    reference) reaches LockFile::release"""
    base = ty.split("<")[0]
    for d in dropimpls:
        dc = strip_generics(d)
        if dc.startswith("<%s as " % base) or dc.startswith("<%s<" % base):
            cid = f.canon_to_id.get(dc)
            if cid and (f.may_reach(cid, "LockFile::release") or any(c.names & {"LockFile::release"} for c in f.bodies[cid].calls)):
                return True
    return False


@rule("C19", "C19.R6", "an open that fails after taking the directory lock gives the lock back")
def r6(cx):
    """Core::new takes the lock inside CoreInner::new and then spawns background tasks that hold Arc<CoreInner>; if a later
    step fails (corrupt WAL in absolute-consistency mode, manifest error, orphan clean-up error) the Arc is kept alive by
    the parked tasks and the LockFile is never dropped: no store is open, yet the directory stays locked for the life of
    the process.  Decided: every error exit of Core::new that lies after the successful CoreInner::new passes an explicit
    release -- a call that reaches LockFile::release, or the drop of a guard value whose own Drop impl does."""
    f = cx.f
    b = f.body("Core::new")
    acq = sites(cx, b, "CoreInner::new")
    cx.check(f.may_reach(f.body("CoreInner::new").id, "LockFile::acquire"), "CoreInner::new takes the directory lock", "open-no-lock", acq[0].where())
    re_ = result_edges(b, acq[0])
    if not re_:
        raise AnchorMissing("Core::new: result of CoreInner::new is not branched on")
    okb, errb = re_
    # (may-reach would count every callee that merely drops an Arc<CoreInner>: destructor edges; an explicit release is a
    #  call that certainly releases)
    rel = {c.bb for c in b.calls if c.bb in b.live and (c.names & {"LockFile::release"} or f.call_must_reach(c, {"LockFile::release"})) and not c.names & {"CoreInner::new"}}
    guards = []
    for bb_, pl, ty, di in b.drops:
        if bb_ in b.live and not ty.startswith("std::sync::Arc<") and not ty.startswith("std::rc::Rc<") and "ControlFlow" not in ty and _own_drop_releases(f, ty, di):
            rel.add(bb_)
            guards.append((bb_, pl, ty))
    errs = [x for x, k in exits(b) if k == "err"]
    r = b.reachable_from(okb, avoid=rel)
    # (`?` writes Err into the return place first and runs the scope's drops afterwards: the release may lie between the
    #  block that builds the error and the actual return)
    bad = sorted(x for x in errs if x in r and x not in rel and any(t in b.reachable_from([x], avoid=rel) for t in b.rets))
    cx.check(not bad, "every failing exit of Core::new after the lock was taken releases it (%d release points)" % len(rel), "failed-open-keeps-lock", b.where(bad[0]) if bad else b.where(),
             "Core::new can return Err after CoreInner::new took the directory lock without releasing it; the background tasks spawned during open keep Arc<CoreInner> "
             "alive, so the LockFile is never dropped: the directory cannot be opened again in this process although no store is open on it")
    # a release-on-failure guard must be disarmed on the success path
    oks = [x for x, k in exits(b) if k in ("ok", "tail")]
    for bb_, pl, ty in guards:
        dis = []
        for i, j, lhs, rv, line in b.assigns():
            if i in b.live and lhs[0] == pl[0] and len(lhs) > 1:
                if rv[0] == "agg" and rv[3] and rv[3].get("variant") == "None":
                    dis.append(i)
                elif rv[0] == "use" and any(a.get("variant") == "None" for a in origin_of_operand(b, rv[1]).aggs):
                    dis.append(i)
        cx.check(bool(dis) and all(b.set_dominates(dis, x) for x in oks), "the release-on-failure guard (%s) is disarmed before Core::new returns Ok" % ty.split("::")[-1], "open-guard-not-disarmed", b.where(bb_),
                 "the guard that releases the lock on a failed open is still armed when Core::new succeeds: a successful open would unlock the directory")


@rule("C19", "C19.R7", "Tree::new: a failure after Core::new succeeded closes what was opened")
def r7(cx):
    """Once Core::new has returned Ok the store is open: the directory is locked and the background tasks hold
    Arc<CoreInner>.  A later failing step of Tree::new (the directory fsync) that just returns the error drops the `Core`
    value, which has no destructor: nothing ever releases the lock.  Decided: every error exit after the successful
    Core::new passes an explicit release or the drop of a value whose own Drop closes the store (a `Tree`)."""
    f = cx.f
    b = f.body("Tree::new")
    acq = sites(cx, b, "Core::new")
    re_ = result_edges(b, acq[0])
    if not re_:
        raise AnchorMissing("Tree::new: result of Core::new is not branched on")
    okb, errb = re_
    rel = {c.bb for c in b.calls if c.bb in b.live and (c.names & {"LockFile::release", "Core::close"} or f.call_must_reach(c, {"LockFile::release"})) and not c.names & {"Core::new"}}
    for bb_, pl, ty, di in b.drops:
        if bb_ in b.live and not ty.startswith("std::sync::Arc<") and "ControlFlow" not in ty and _own_drop_releases(f, ty, di):
            rel.add(bb_)
    errs = [x for x, k in exits(b) if k == "err"]
    r = b.reachable_from(okb, avoid=rel)
    bad = sorted(x for x in errs if x in r and x not in rel and any(t in b.reachable_from([x], avoid=rel) for t in b.rets))
    cx.check(not bad, "every failing exit of Tree::new after Core::new succeeded closes the store (%d release points)" % len(rel), "failed-open-keeps-lock|Tree::new", b.where(bad[0]) if bad else b.where(),
             "Tree::new can return Err after Core::new opened the store (lock taken, background tasks running) by merely dropping the `Core` value, which has no destructor: "
             "the directory stays locked for the life of the process although no store is open on it")
