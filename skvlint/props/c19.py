"""C19 — one live instance per database directory."""
from ..registry import rule
from ..core import origin_of_operand, AnchorMissing, const_eval, feasible_reach
from .common import *
from .walrules import FS_MUTATORS

EXPLANATION = ("Structural necessary conditions of the directory lock: opening acquires the lock before any call that can "
               "reach a file-system mutation; a refused acquisition performs no destructive file operation before the OS lock "
               "is held (constant arguments of the OpenOptions chain + dominance by the try-lock success edge); close() "
               "mutates nothing after releasing the lock; dropping releases it.  Cross-process behaviour of the OS lock is NOT decided.")
ASSUMPTIONS = ["fs2::try_lock_exclusive provides an exclusive advisory lock", "MIR models control flow faithfully"]

MUT = set(FS_MUTATORS) | {"std::fs::set_permissions", "std::io::Write::write_all", "std::fs::File::sync_all"}
DESTRUCTIVE = {"std::fs::rename", "std::fs::remove_file", "std::fs::remove_dir_all", "std::fs::File::set_len", "std::fs::write",
               "std::io::Write::write_all", "std::io::Write::write", "std::fs::File::create"}


def mutating_calls(f, body, exclude=()):
    res = []
    for c in body.calls:
        if c.bb not in body.live:
            continue
        if c.names & set(exclude):
            continue
        if f.call_may_reach(c, MUT):
            res.append(c)
    return res


@rule("C19", "C19.R1", "the directory lock is taken before anything that can modify the directory")
def r1(cx):
    f = cx.f
    b = f.body("CoreInner::new")
    acq = sites(cx, b, "LockFile::acquire")
    e = result_edges(b, acq[0])
    if e is None:
        raise AnchorMissing("CoreInner::new does not branch on LockFile::acquire's result")
    ok, err = e
    r = feasible_reach(b, err)
    muts = mutating_calls(f, b, exclude={"LockFile::acquire", "LockFile::new"})
    cx.floor("file-system touching calls in CoreInner::new", len(muts), 3)
    for c in muts:
        cx.check(b.set_dominates([acq[0].bb], c.bb) and c.bb not in r, "`%s` runs only after the lock was acquired" % c.primary, "before-lock|CoreInner::new|%s" % c.primary, c.where(),
                 "CoreInner::new reaches `%s` (can modify the directory) without holding the directory lock" % c.primary)
    cx.check(not any(c.bb in r for c in muts), "a refused lock leaves CoreInner::new without touching the directory", "refused-open-touches", acq[0].where())
    cb = f.body("Core::new")
    ci = sites(cx, cb, "CoreInner::new")
    for c in mutating_calls(f, cb, exclude={"CoreInner::new"}):
        cx.check(cb.set_dominates([ci[0].bb], c.bb), "Core::new: `%s` after CoreInner::new (lock held)" % c.primary, "before-lock|Core::new|%s" % c.primary, c.where(),
                 "Core::new reaches `%s` before the directory lock is held" % c.primary)
    tb = f.body("Tree::new")
    cn = sites(cx, tb, "Core::new")
    allowed = {"Tree::create_directory_structure"}
    for c in mutating_calls(f, tb, exclude={"Core::new"}):
        if c.names & allowed:
            # listed exception: creating missing directories is idempotent and non-destructive
            cb2 = f.body("Tree::create_directory_structure")
            bad = [x for x in cb2.calls if x.bb in cb2.live and f.call_may_reach(x, DESTRUCTIVE)]
            cx.check(not bad, "exception: create_directory_structure only creates missing directories", "exception-invalid|create_directory_structure", cb2.where(),
                     "create_directory_structure now reaches `%s`" % (bad[0].primary if bad else ""))
            continue
        cx.check(tb.set_dominates([cn[0].bb], c.bb), "Tree::new: `%s` after Core::new" % c.primary, "before-lock|Tree::new|%s" % c.primary, c.where(),
                 "Tree::new reaches `%s` (can modify the directory) before the lock is held" % c.primary)
    # the lock lives as long as the core: it is stored in CoreInner
    for i, j, lhs, rv, line in b.assigns():
        if rv[0] == "agg" and rv[3] and rv[3].get("adt") == "lsm::CoreInner":
            fields = rv[3]["fields"]
            o = origin_of_operand(b, rv[2][fields.index("lockfile")], through_calls="all")
            cx.check(o.from_call("LockFile::new"), "the acquired LockFile is kept inside CoreInner", "lock-not-kept", "%s:%d" % (b.file, line),
                     "the LockFile stored in CoreInner is not the one that was acquired: the lock is released as soon as CoreInner::new returns")


@rule("C19", "C19.R2", "a refused open touches nothing")
def r2(cx):
    f = cx.f
    b = f.body("LockFile::acquire")
    tl = [c for c in b.calls if c.bb in b.live and c.primary.split("::")[-1] in ("try_lock_exclusive", "lock_exclusive")]
    if not tl:
        raise AnchorMissing("LockFile::acquire no longer takes an exclusive OS lock")
    e = result_edges(b, tl[0])
    if e is None:
        raise AnchorMissing("LockFile::acquire does not branch on the try-lock result")
    ok, err = e
    rerr = feasible_reach(b, err)
    # OpenOptions chain constants
    for c in b.calls:
        if c.bb not in b.live:
            continue
        meth = c.primary.split("::")[-1]
        if c.primary.startswith("std::fs::OpenOptions::") and meth in ("truncate", "create_new"):
            v = const_eval(f, b, c.args[1])
            cx.check(v == 0, "the lock file is opened without %s" % meth, "open-%s" % meth, c.where(),
                     "LockFile::acquire opens the LOCK file with %s(true) before the OS lock is held: a refused open wipes the file the live instance wrote" % meth)
    destructive = [c for c in b.calls if c.bb in b.live and f.call_may_reach(c, DESTRUCTIVE)]
    cx.floor("writes to the lock file", len(destructive), 1)
    for c in destructive:
        cx.check(b.set_dominates(ok, c.bb) and c.bb not in rerr, "`%s` happens only after the OS lock was obtained" % c.primary, "write-before-lock|%s" % c.primary, c.where(),
                 "LockFile::acquire performs `%s` before (or without) holding the OS lock" % c.primary)
    # a refused lock returns an error and does not keep the handle
    cx.check(not any(x in rerr for x, k in exits(b) if k == "ok"), "a refused lock is reported as an error", "refused-ok", tl[0].where())
    for i, j, lhs, rv, line in b.assigns():
        fs = [p for p in lhs[1:] if isinstance(p, list) and p[0] == "f"]
        if fs and fs[-1][2] == "file":
            cx.check(b.set_dominates(ok, i), "the handle is stored only after the lock was obtained", "handle-before-lock", "%s:%d" % (b.file, line))
    who_calls(cx, ["LockFile::acquire"], {"CoreInner::new"}, "LockFile::acquire callers", "who:acquire")


@rule("C19", "C19.R3", "the lock is released last, and on drop")
def r3(cx):
    f = cx.f
    b = f.coroutine_of("Core::close")
    rel = sites(cx, b, "LockFile::release")
    after = b.reachable_after([rel[0].bb])
    for c in mutating_calls(f, b, exclude={"LockFile::release"}):
        cx.check(c.bb not in after, "close(): `%s` is not run after the lock was released" % c.primary, "mutation-after-release|%s" % c.primary, c.where(),
                 "Core::close reaches `%s` after releasing the directory lock: another instance may already own the directory" % c.primary)
    wc = sites(cx, b, "Wal::close")
    dom(cx, b, wc, rel, "WAL closed before the lock is released")
    db = f.body("<LockFile as Drop>::drop")
    cx.check(f.may_reach(db.id, "LockFile::release"), "dropping the LockFile releases the lock", "drop-no-release", db.where())
    rb = f.body("LockFile::release")
    tk = [c for c in rb.calls if c.primary.endswith("Option::take") or c.primary.endswith("::take")]
    cx.check(bool(tk) or bool([c for c in rb.calls if "unlock" in c.primary]), "release() drops/unlocks the file handle", "release-noop", rb.where(),
             "LockFile::release no longer drops the handle or unlocks the file")
    # the LOCK path must keep naming the inode every opener locks: it is never unlinked / renamed
    for b2 in f.scan_bodies():
        if b2.self_ty == "lockfile::LockFile" or (b2.impl_trait and b2.self_ty == "lockfile::LockFile"):
            bad = [c for c in b2.calls if c.bb in b2.live and f.call_may_reach(c, {"std::fs::remove_file", "std::fs::rename", "std::fs::remove_dir_all"})]
            cx.check(not bad, "`%s` never unlinks or renames the LOCK file" % b2.id, "lock-unlinked|%s" % b2.id, bad[0].where() if bad else b2.where(),
                     "`%s` removes/renames the LOCK file: an opener that already opened the old inode and one that creates a fresh file both obtain the lock" % b2.id)
    who_calls(cx, ["LockFile::release"], {"Core::close", "<LockFile as Drop>::drop", "lockfile::LockFile::drop"}, "LockFile::release callers", "who:release", minimum=2)


SUBDIR = {"sstable_dir", "wal_dir", "manifest_dir", "vlog_dir", "versioned_index_dir", "sstable_file_path", "vlog_file_path", "manifest_file_path", "join"}


@rule("C19", "C19.R4", "only LockFile touches files directly in the database root (the LOCK inode outlives restore, clean-up and repair)")
def r4(cx):
    """The exclusive lock lives on the inode of `<root>/LOCK`.  Anything that unlinks, renames over or recreates a file
    directly in the root while the store is open detaches the lock from the path: the next opener creates a fresh LOCK,
    locks it and runs recovery against the live instance.  Decided crate-wide: every remove_file / remove_dir_all /
    rename / File::create / hard_link / copy whose path derives from `Options.path` goes through a sub-directory accessor
    or a join first."""
    f = cx.f
    pats = ("std::fs::remove_file", "std::fs::remove_dir_all", "std::fs::remove_dir", "std::fs::rename", "std::fs::File::create", "std::fs::copy", "std::fs::hard_link", "std::fs::write")
    n = 0
    for c in f.callers_of(*pats):
        if c.body.file.endswith("lockfile.rs"):
            continue
        n += 1
        owner = f.fn_of(c.body).id
        for ai, a in enumerate(c.args[:2]):
            o = origin_of_operand(c.body, a, through_calls="all")
            root = any(name == "path" and own.endswith("Options") for own, name in o.fields)
            if not root:
                if ai == 0:
                    cx.ok("`%s`: %s path does not derive from the database root" % (owner, c.primary.split("::")[-1]), c.where())
                continue
            via = {x.primary.split("::")[-1] for x in o.calls} & SUBDIR
            cx.check(bool(via), "`%s`: %s below the root goes through %s" % (owner, c.primary.split("::")[-1], sorted(via)), "root-file-touched|%s|%s" % (owner, c.primary.split("::")[-1]), c.where(),
                     "`%s` calls %s on a path taken directly from the database root (no sub-directory in between): the LOCK file lives there; unlinking or replacing it while the "
                     "store is open lets a second instance open the same directory" % (owner, c.primary))
    cx.floor("file-system mutation sites outside lockfile.rs", n, 15)
