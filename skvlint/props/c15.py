"""C15 — a failed commit leaves no trace and does not poison later commits."""
from ..registry import rule
from ..core import origin_of_operand, AnchorMissing, result_fate, feasible_reach, result_err_type
from .common import *
from .pipeline import *

EXPLANATION = ("Necessary structural conditions on every failure path of the commit pipeline: an enqueued batch is "
               "always marked applied and drained (no zombie queue entry), failure arms roll back the oracle, signal "
               "the error before releasing the queue slot and return an error; the background-error gate and the "
               "shutdown test come first; a failure after the log was touched is made sticky or the segment is "
               "abandoned; no storage error is dropped on the commit path.  What recovery makes of a half-written "
               "record is NOT decided.")
ASSUMPTIONS = ["MIR is a faithful model of control flow; panics are not exits"]


@rule("C15", "C15.R1", "every enqueued batch is marked applied and drained on every exit; failure arms clean up")
def r1(cx):
    b = commit_body(cx)
    enq = sites(cx, b, "CommitQueue::enqueue")
    ma = sites(cx, b, "CommitBatch::mark_applied")
    pu = sites(cx, b, "CommitPipeline::publish")
    mpt(cx, b, enq, ma, "zombie prevention: mark_applied after enqueue")
    mpt(cx, b, enq, pu, "queue drained: publish after enqueue")
    dom(cx, b, ma[:0] or [c for c in ma], [], "")
    # publish only after mark_applied on every path
    for p in pu:
        cx.check(b.set_dominates([m.bb for m in ma], p.bb), "publish() runs only after this batch was marked applied",
                 "publish-before-mark", p.where())
    # the error signal of a failed commit: either the committer completes its own batch with Err, or it records the failure
    # in the batch (CommitBatch::fail) for whoever dequeues it; both must happen before the slot can be drained
    comp = [c for c in b.calls if c.bb in b.live and c.names & {"CommitBatch::complete", "CommitBatch::fail"}]
    if len(comp) < 2:
        raise AnchorMissing("commit(): %d error-signal site(s) (CommitBatch::complete / CommitBatch::fail), need >= 2" % len(comp))
    deferred = any(c.names & {"CommitBatch::fail"} for c in comp)
    never_after(cx, b, ma, comp, "error is signalled before the slot can be drained (complete(Err) before mark_applied)")
    if deferred:
        # the recorded failure is what the dequeuing thread completes the batch with
        pbody = cx.f.body("CommitPipeline::publish")
        for c in sites(cx, pbody, "CommitBatch::complete"):
            o = origin_of_operand(pbody, c.args[1])
            oc = [x for x in pbody.calls if x.bb in pbody.live and x.names & {"CommitBatch::outcome"}]
            uses = o.from_call("CommitBatch::outcome") or (bool(oc) and pbody.set_dominates([x.bb for x in oc], c.bb) and not any(a.get("variant") == "Ok" for a in o.aggs if a.get("adt") == "std::result::Result" and not o.calls))
            cx.check(uses, "publish() completes a dequeued batch with its recorded outcome", "publish-ignores-recorded-failure", c.where(),
                     "publish() completes a batch without consulting the failure recorded for it: a failed commit is reported as successful")
        ob = cx.f.body("CommitBatch::outcome")
        R, _ = self_field_sites(cx.f, ob, callee_writes="may")
        errs_ = [1 for i, j, lhs, rv, line in ob.assigns() if rv[0] == "agg" and rv[3] and rv[3].get("variant") == "Err"]
        cx.check("failure" in R and bool(errs_), "CommitBatch::outcome returns the recorded failure as Err", "outcome-drops-failure", ob.where())
        fb = cx.f.body("CommitBatch::fail")
        _, Wf = self_field_sites(cx.f, fb, callee_writes="may")
        cx.check("failure" in Wf or any(c.primary.endswith("Mutex::lock") for c in fb.calls), "CommitBatch::fail records the error in the batch", "fail-does-not-record", fb.where())
    rb = sites(cx, b, "CommitOracle::rollback", minimum=2)
    for pat, what in (("CommitEnv::write", "WAL write"), ("CommitEnv::apply", "memtable apply")):
        c = sites(cx, b, pat)[0]
        ok, err = arm_of_result(cx, b, c, pat)
        for what2, ss in (("oracle rollback", rb), ("complete(Err)", comp), ("mark_applied", ma), ("publish", pu)):
            T = set(b.blocks_of(ss))
            r = feasible_reach(b, err, avoid=T)
            ex = [x for x, _ in exits(b) if x in r and x not in T]
            cx.check(not ex, "failed %s: %s happens before returning" % (what, what2), "fail-arm|%s|%s" % (pat, what2), c.where(),
                     "after a failed %s, commit() can return without %s" % (what, what2))
        # the failure arm cannot return Ok
        r = feasible_reach(b, err)
        polls = [x for x in b.calls if "oneshot::Receiver" in x.primary and x.primary.endswith("poll")]
        okx = [x for x, k in exits(b) if k == "ok" and x in r]
        # (with the recorded-failure protocol the failing committer also awaits its receiver and returns what publish() sends)
        cx.check(not okx and (deferred or not any(p.bb in r for p in polls)), "failed %s: commit() returns an error" % what, "fail-arm-ok|%s" % pat, c.where(),
                 "after a failed %s, commit() can still return success" % what)
        # and apply is not attempted after a failed write
        if pat == "CommitEnv::write":
            ap = sites(cx, b, "CommitEnv::apply")
            cx.check(not any(a.bb in r for a in ap), "a batch whose WAL write failed is never applied to the memtable", "apply-after-failed-write", c.where())
    # rollback must name exactly the stamp publish() wrote: seq_num + count - 1 (highest seq of the batch)
    pb = cx.f.body("CommitOracle::publish")
    stamp_ok = False
    for c in pb.calls_to("std::collections::HashMap::insert"):
        o = origin_of_operand(pb, c.args[2])
        names_ = {pb.local_name(l) for l, _ in o.params}
        stamp_ok = {"seq_num", "count"} <= names_ and any(x.startswith("Add") for x in o.ops) and any(x.startswith("Sub") for x in o.ops)
    cx.check(stamp_ok, "publish() stamps keys with seq_num + count - 1", "publish-stamp-shape", pb.where())
    for c in rb:
        o = origin_of_operand(b, c.args[2])
        one = [k for k in o.consts if k.get("v") == "1"]
        good = o.from_call("std::sync::atomic::Atomic::fetch_add") and o.from_call("Batch::count") and one and \
            any(x.startswith("Add") for x in o.ops) and any(x.startswith("Sub") for x in o.ops)
        cx.check(bool(good), "rollback() is given the stamp publish() wrote (seq_num + count - 1)", "rollback-stamp", c.where(),
                 "the oracle rollback is called with a value that is not `allocated seq + count - 1`: publish() stamped the keys with the highest sequence number of the "
                 "batch, so the rollback of a multi-entry batch matches nothing and the failed commit keeps aborting other transactions")
    # the write-mutex is released before draining on the failure arm (publish never under write_mutex)
    g = write_mutex_guard(cx, b)
    for p in pu:
        cx.check(p.bb not in g.region, "publish() is not called while write_mutex is held", "publish-under-lock", p.where())


@rule("C15", "C15.R2", "shutdown and background-error gates precede the critical section")
def r2(cx):
    b = commit_body(cx)
    g = write_mutex_guard(cx, b)
    gate = sites(cx, b, "CommitEnv::check_background_error")
    dom(cx, b, gate, [g.call], "background-error gate before write_mutex")
    e = arm_of_result(cx, b, gate[0], "check_background_error")
    r = b.reachable_from(e[1])
    cx.check(g.call.bb not in r, "a reported background error refuses the commit", "bg-error-ignored", gate[0].where(),
             "commit() proceeds into the critical section although check_background_error failed")
    sh = [c for c in sites(cx, b, "std::sync::atomic::Atomic::load") if "shutdown" in origin_of_operand(b, c.args[0]).field_names()]
    cx.floor("shutdown test in commit()", len(sh), 1)
    dom(cx, b, sh, [g.call], "shutdown test before write_mutex")
    # LsmCommitEnv::check_background_error consults the error handler
    eb = cx.f.body("<LsmCommitEnv as CommitEnv>::check_background_error")
    cx.check(cx.f.may_reach(eb.id, "BackgroundErrorHandler::check_error"), "the gate consults the background error handler", "gate-source", eb.where())
    # set_error is sticky: check_error reads the same field set_error writes
    se, ce = cx.f.body("BackgroundErrorHandler::set_error"), cx.f.body("BackgroundErrorHandler::check_error")
    wf = {f for (_, f) in _fields_touched(se)}
    rf = {f for (_, f) in _fields_touched(ce)}
    cx.check(bool(wf & rf), "set_error and check_error use the same slot (%s)" % sorted(wf & rf), "sticky-slot", se.where())


def _fields_touched(b):
    res = set()
    for c in b.calls:
        for a in c.args[:1]:
            if a[0] in ("c", "m"):
                res |= origin_of_operand(b, a).fields
    return res


@rule("C15", "C15.R3", "a failure after the log was touched is sticky or the segment is abandoned")
def r3(cx):
    b = commit_body(cx)
    for pat, what in (("CommitEnv::write", "WAL append/sync"), ("CommitEnv::apply", "memtable apply")):
        c = sites(cx, b, pat)[0]
        ok, err = arm_of_result(cx, b, c, pat)
        r = b.reachable_from(err)
        sticky = [x for x in b.calls if x.bb in r and cx.f.call_may_reach(x, {"BackgroundErrorHandler::set_error", "Wal::rotate"})]
        # or inside the env implementation itself on its error exits
        inner = False
        for impl in cx.f.bodies_like(pat):
            if impl.impl_trait and cx.f.may_reach(impl.id, "BackgroundErrorHandler::set_error"):
                inner = True
        cx.check(bool(sticky) or inner, "a failed %s is recorded as a sticky background error (or the WAL segment is abandoned)" % what,
                 "not-sticky|%s" % pat, c.where(),
                 "a failed %s leaves no sticky error and keeps appending to the same WAL segment: the record of the failed "
                 "transaction (or a half-buffered one) stays in the log and is replayed by the next recovery, and later acknowledged "
                 "commits are appended behind it" % what)
        if what.startswith("WAL") and inner and not sticky:
            # The gate at the top of commit() is read BEFORE write_mutex: a committer that passed it while the failing commit
            # was still inside the critical section enters next and appends behind the torn record.  The sticky error has to be
            # consulted again inside the serialized section: in commit() between the lock and env.write, or in the
            # implementation before it appends.
            lock = [x for x in b.calls if x.primary.split("::")[-1] == "lock" and "Mutex" in x.primary and x.bb in b.live
                    and b.set_dominates({x.bb}, c.bb)]
            again = False
            if lock:
                Lb = set(b.blocks_of(lock))
                gates = [x for x in b.calls if cx.f.call_may_reach(x, {"BackgroundErrorHandler::check_error"}) or
                         x.primary.endswith("check_background_error")]
                for gcall in gates:
                    if gcall.bb in b.reachable_after(list(Lb)) and b.set_dominates({gcall.bb}, c.bb) and gcall.bb != c.bb:
                        again = True
            where_ = c.where()
            for impl in cx.f.bodies_like(pat):
                if not (impl.impl_trait and cx.f.may_reach(impl.id, "BackgroundErrorHandler::set_error")):
                    continue
                app = [x for x in impl.calls if x.bb in impl.live and cx.f.call_may_reach(x, {"Wal::append"})
                       or x.primary.endswith("Wal::append")]
                chk = [x for x in impl.calls if cx.f.call_may_reach(x, {"BackgroundErrorHandler::check_error"})
                       or x.primary.endswith("BackgroundErrorHandler::check_error")]
                cx.floor("append site in %s" % impl.id, len(app), 1)
                Cb = set(impl.blocks_of(chk))
                if chk and all(a.bb not in Cb and impl.set_dominates(Cb, a.bb) for a in app):
                    again = True
                where_ = impl.where()
            cx.check(again, "the sticky error is consulted again inside the serialized section, before the next record is appended",
                     "sticky-gate-not-rechecked|%s" % pat, where_,
                     "the background-error gate is only read before write_mutex: a commit that passed it while another commit's WAL "
                     "write was failing appends its record behind the torn one and is acknowledged, but recovery cuts the log at the "
                     "torn record")


@rule("C15", "C15.R4", "no storage error is dropped on the commit path")
def r4(cx):
    f = cx.f
    roots = [f.coroutine_of("Transaction::commit").id, f.body("Transaction::commit").id]
    seen = set()
    for r in roots:
        seen |= f.reach(r)
    n = 0
    for bid in sorted(seen):
        body = f.bodies[bid]
        if not any(body.file.endswith(x) for x in ("commit.rs", "lsm.rs", "wal/manager.rs", "wal/writer.rs", "wal/mod.rs",
                                                   "transaction.rs", "batch.rs", "memtable/mod.rs", "oracle.rs", "vfs.rs")):
            continue
        for c in body.calls:
            if c.bb not in body.live or c.expansion:
                continue
            fate = result_fate(body, c)
            if fate is None:
                continue
            et = result_err_type(c.ret_ty) or ""
            if not (et.endswith("error::Error") or et.endswith("io::Error") or "sstable::error" in et):
                continue
            n += 1
            if fate.startswith("dropped"):
                cx.bad("dropped-result|%s|%s" % (body.id, c.primary), "the Result of `%s` is %s in `%s` (commit path)" % (c.primary, fate, body.id), c.where())
            else:
                cx.ok("Result of `%s` in `%s` is %s" % (c.primary, body.id, fate), c.where())
    cx.floor("Result-returning calls on the commit path", n, 25)


@rule("C15", "C15.R5", "the oracle's undo record of a publish survives a key that occurs twice in the batch")
def r5(cx):
    """`publish` stamps every key of the batch and remembers, per key, the stamp it displaced so that `rollback` can put
    the last COMMITTED writer back when the commit fails after publish.  A batch may name a key twice (savepoint history):
    the second visit replaces the batch's own stamp, and recording THAT as the displaced value erases the undo record --
    after the failed commit the conflict map has forgotten the committed writer and a stale transaction passes `check`.
    Decided: every write into the undo map in `publish` is reached only under a test of the replaced stamp against the
    stamp being published."""
    f = cx.f
    from ..core import comparisons
    b = f.body("CommitOracle::publish")
    from .c04 import oracle_roles
    MAPF = oracle_roles(f)["map"]
    und = None
    rb = f.body("CommitOracle::rollback")
    # the undo map = the map field both publish writes and rollback reads, other than the conflict map itself
    Rr, _ = self_field_sites(f, rb, "may")
    cand = []
    for c in b.calls:
        if c.bb not in b.live or c.primary.split("::")[-1] != "insert" or not c.args:
            continue
        o = origin_of_operand(b, c.args[0], through_calls="all")
        fl = o.field_names()
        if MAPF in fl:
            continue
        cand.append((c, fl))
    cx.floor("undo-map writes in CommitOracle::publish", len(cand), 1)
    for c, fl in cand:
        ok = False
        for cm in comparisons(b):
            if cm.condition_to_reach(c.bb) is None:
                continue
            sides = [origin_of_operand(b, op, through_calls="all") for op in (cm.lhs, cm.rhs)]
            old = [s for s in sides if any(x.primary.split("::")[-1] == "insert" and MAPF in origin_of_operand(b, x.args[0], through_calls="all").field_names() for x in s.calls)]
            new = [s for s in sides if s.params and not s.calls or any(x.startswith("Add") or x.startswith("Sub") for x in s.ops)]
            if old and new:
                ok = True
        cx.check(ok, "publish records a displaced stamp only when it differs from the stamp being published", "undo-overwritten-by-duplicate-key|%s" % "/".join(sorted(fl - {"inner", "0", "data"}))[:40], c.where(),
                 "CommitOracle::publish records the displaced stamp without testing it against the stamp it is writing: the second occurrence of a key in one batch "
                 "overwrites the undo record with the batch's own stamp, `rollback` then forgets the last committed writer, and a failed commit lets a stale "
                 "transaction pass the conflict check (lost update)")


def _arena_fill_readers(cx):
    """functions (other than the allocator) that read the counter the arena's bump allocator advances"""
    f = cx.f
    ab = f.body("Arena::alloc")
    ctr = set()
    for c in ab.calls:
        if c.primary.split("::")[-1] in ("fetch_add", "compare_exchange", "compare_exchange_weak", "fetch_update") and c.args:
            ctr |= {fl for (_, fl) in origin_of_operand(ab, c.args[0]).fields}
    if not ctr:
        raise AnchorMissing("Arena::alloc: no atomic update of a field (bump allocator not recognised)")
    readers = set()
    for bid, body in f.bodies.items():
        if body.file != ab.file or bid == ab.id:
            continue
        for c in body.calls:
            if c.primary.split("::")[-1] == "load" and c.args and ctr & {fl for (_, fl) in origin_of_operand(body, c.args[0]).fields}:
                readers.add(bid)
    return ctr, readers


@rule("C15", "C15.R6", "a failed apply does not leave an unusable active memtable behind")
def r6(cx):
    """`Arena::alloc` advances its counter BEFORE it checks the capacity: an allocation that does not fit leaves the arena
    exhausted for good (by design -- the memtable is then rotated).  `LsmCommitEnv::apply` relies on `rotate_memtable` to
    install a fresh arena before its retry.  Necessary condition: every success path of the rotation either replaces the
    active memtable or has looked at the arena's fill state; a path that returns Ok on other grounds (e.g. `is_empty`)
    leaves an exhausted arena in place, and every later commit fails with ArenaFull."""
    f = cx.f
    ctr, readers = _arena_fill_readers(cx)
    cx.floor("readers of the arena fill counter %s" % sorted(ctr), len(readers), 1)
    ab = f.body("Arena::alloc")
    # premise: the allocator advances before it checks (otherwise a failed allocation leaves no trace and the rule is moot)
    premise = any(c.primary.split("::")[-1] == "fetch_add" and c.bb in ab.live for c in ab.calls)
    app = None
    for impl in f.bodies_like("CommitEnv::apply"):
        if impl.impl_trait and f.may_reach(impl.id, "CoreInner::rotate_memtable"):
            app = impl
    if app is None:
        raise AnchorMissing("no CommitEnv::apply implementation rotates the memtable")
    adds = [c for c in app.calls if c.bb in app.live and c.primary.endswith("MemTable::add")]
    cx.floor("MemTable::add sites in %s (first try + retry)" % app.id, len(adds), 2)
    rb = f.body("CoreInner::rotate_memtable")
    repl = [c for c in rb.calls if c.bb in rb.live and (c.primary.startswith("std::mem::replace") or c.primary.startswith("core::mem::replace")
                                                        or c.primary.endswith("DerefMut::deref_mut"))
            and c.args and "active_memtable" in origin_of_operand(rb, c.args[0]).field_names()]
    # the role of the field, not its name: the guard the function takes first
    if not repl:
        repl = [c for c in rb.calls if c.bb in rb.live and (c.primary.startswith("std::mem::replace") or c.primary.startswith("core::mem::replace"))]
    cx.floor("replacement of the active memtable in rotate_memtable", len(repl), 1)
    looked = [c for c in rb.calls if c.bb in rb.live and any(f.call_may_reach(c, {f.bodies[r].id}) or c.primary == f.bodies[r].id for r in readers)]
    T = set(rb.blocks_of(repl)) | set(rb.blocks_of(looked))
    r = feasible_reach(rb, [0], avoid=T)
    bad = [e for e, kind in exits(rb) if e in r and e not in T and kind != "err"]
    if not premise:
        cx.ok("Arena::alloc no longer advances its counter before checking: a failed allocation leaves no trace", ab.where())
        return
    cx.check(not bad, "every success path of rotate_memtable replaces the active memtable or has read the arena's fill state",
             "exhausted-arena-kept|CoreInner::rotate_memtable", rb.where(bad[0]) if bad else rb.where(),
             "rotate_memtable returns Ok on a path that neither installs a fresh memtable nor looks at the arena: after an insert that "
             "did not fit, the (still empty) memtable keeps an exhausted arena and every later commit fails with ArenaFull")
