"""codec symmetry: ordered primitive writes of an encoder vs primitive reads of its decoder"""
from ..core import AnchorMissing

W = {"write_u8": "u8", "write_u16": "u16", "write_u32": "u32", "write_u64": "u64", "write_u128": "u128",
     "write_i64": "i64", "write_varint": "varint", "put_u8": "u8", "put_u16": "u16", "put_u32": "u32", "put_u64": "u64", "put_u128": "u128", "write_all": "bytes", "extend_from_slice": "bytes", "push": "u8"}
R = {"read_u8": "u8", "read_u16": "u16", "read_u32": "u32", "read_u64": "u64", "read_u128": "u128",
     "read_i64": "i64", "decode_var": "varint", "get_u8": "u8", "get_u16": "u16", "get_u32": "u32", "get_u64": "u64", "get_u128": "u128", "read_varint": "varint", "read_exact": "bytes", "from_be_bytes": "be", "to_vec": "bytes"}


def rpo(body):
    seen, order = set(), []

    def dfs(b):
        stack = [(b, iter(body.succ[b]))]
        seen.add(b)
        while stack:
            x, it = stack[-1]
            adv = False
            for y in it:
                if y not in seen:
                    seen.add(y)
                    stack.append((y, iter(body.succ[y])))
                    adv = True
                    break
            if not adv:
                order.append(x)
                stack.pop()
    dfs(0)
    order.reverse()
    return {b: i for i, b in enumerate(order)}


def ops(body, table, only=None, receiver_filter=None):
    pos = rpo(body)
    res = []
    for c in body.calls:
        if c.bb not in body.live:
            continue
        meth = c.primary.split("::")[-1]
        if meth not in table:
            continue
        if only and meth not in only:
            continue
        if receiver_filter and not receiver_filter(c):
            continue
        res.append((pos.get(c.bb, 1 << 30), table[meth] + ("*" if body.in_cycle(c.bb) else ""), c))
    res.sort(key=lambda x: x[0])
    return [(k, c) for _, k, c in res]


def symmetric(cx, enc, dec, what, enc_only=None, dec_only=None, key=None):
    e = [k for k, _ in ops(enc, W, enc_only)]
    d = [k for k, _ in ops(dec, R, dec_only)]
    cx.table("%s codec" % what, [["encode"] + e, ["decode"] + d])
    cx.check(e == d and len(e) > 0, "%s: decoder reads %s in the order the encoder writes them" % (what, e), key or ("codec|%s" % what), enc.where(),
             "%s: encoder writes %s but decoder reads %s" % (what, e, d))
    return e, d
