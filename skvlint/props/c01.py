"""C01 — transactions read from a stable snapshot (read side of snapshot isolation)."""
from ..registry import rule
from ..core import (origin_of_operand, AnchorMissing, comparisons, rel_str, mirror, guard_regions, lock_wrappers,
                    strip_generics, last_seg)
from .common import *

EXPLANATION = ("Necessary structural conditions of snapshot reads: every comparison between an entry's sequence "
               "number and a reader's horizon has the shape visible <=> entry <= horizon (finite relation per site); "
               "every Snapshot value pairs one registration with one un-registration and the registry tolerates equal "
               "horizons; compaction receives the registered horizons unfiltered; point lookups search newest data "
               "first; a memtable leaves the active slot and enters the immutable queue under one lock; a transaction "
               "uses one horizon value for snapshot, tracker and conflict window.  That reads return exactly the right "
               "effects is NOT decided.")
ASSUMPTIONS = ["MIR is a faithful model of control/data flow", "crossbeam SkipSet / std collections behave as documented"]


def _accept_cond(cx, body, is_entry, is_horizon, targets, what, key):
    """for the comparison between an entry seq and a horizon in `body`: the relation under which
    each target block is reachable must be entry <= horizon"""
    n = 0
    for c in comparisons(body):
        lo, ro = origin_of_operand(body, c.lhs), origin_of_operand(body, c.rhs)
        if is_entry(lo) and is_horizon(ro):
            flip = False
        elif is_entry(ro) and is_horizon(lo):
            flip = True
        else:
            continue
        n += 1
        for t in targets:
            cond = c.condition_to_reach(t)
            if cond is not None and flip:
                cond = mirror(cond)
            cx.check(cond == frozenset({"lt", "eq"}), "%s: accepted only when entry_seq <= horizon" % what, key, c.where(),
                     "%s: an entry is accepted when entry_seq %s horizon (expected <=): the reader sees data committed after it began, "
                     "or misses data committed before" % (what, rel_str(cond) if cond is not None else "<unconstrained>"))
    return n


@rule("C01", "C01.R1", "every visibility filter has the shape: visible <=> entry_seq <= horizon")
def r1(cx):
    f = cx.f
    total = 0
    # 1. MemTable::get
    b = f.body("MemTable::get")
    somes = [i for i, k in exits(b) if k == "ok"]
    total += _accept_cond(cx, b, lambda o: "Shr" in o.ops, lambda o: any(b.local_name(l) == "seq_no" for l, _ in o.params),
                          somes, "MemTable::get", "vis|MemTable::get")
    # 2. SnapshotIterator::is_visible_ref returns the comparison itself
    b = f.body("SnapshotIterator::is_visible_ref")
    n = 0
    for c in comparisons(b):
        lo, ro = origin_of_operand(b, c.lhs), origin_of_operand(b, c.rhs)
        e_l, h_l = lo.from_call("InternalKeyRef::seq_num"), "snapshot_seq_num" in lo.field_names()
        e_r, h_r = ro.from_call("InternalKeyRef::seq_num"), "snapshot_seq_num" in ro.field_names()
        if not ((e_l and h_r) or (e_r and h_l)):
            continue
        n += 1
        from ..core import REL
        rel = frozenset(REL[c.op]) if c.op else None
        if e_r:
            rel = mirror(rel)
        ret = origin_of_operand(b, ["c", [0]])
        direct = c.dest == 0 or not (ret.ops - {c.op})
        cx.check(rel == frozenset({"lt", "eq"}) and "Not" not in ret.ops, "is_visible_ref returns entry_seq <= horizon", "vis|is_visible_ref", c.where(),
                 "is_visible_ref returns entry_seq %s horizon%s" % (rel_str(rel), " negated" if "Not" in ret.ops else ""))
    total += n
    # callers: an invisible entry is skipped
    sb = f.body("SnapshotIterator::skip_to_valid_forward")
    from ..core import bool_call_condition
    for c in sites(cx, sb, "SnapshotIterator::is_visible_ref"):
        oks = [i for i, k in exits(sb) if k in ("ok", "tail")]
        tgt = [i for i in oks if _returns_true(sb, i)]
        for t in tgt:
            cond = bool_call_condition(sb, c, t)
            cx.check(cond == frozenset({True}), "forward scan yields an entry only if is_visible_ref is true", "vis|skip_to_valid_forward", c.where(),
                     "the forward scan can yield an entry although is_visible_ref is %s" % (sorted(cond) if cond is not None else "not consulted"))
    for fn in ("SnapshotIterator::find_latest_visible_backward",):
        bb_ = f.body(fn)
        cs = bb_.calls_to("SnapshotIterator::is_visible_ref")
        cx.check(bool(cs), "backward scan consults is_visible_ref", "vis|backward-no-filter", bb_.where())
        total += len(cs)
    # 3. Snapshot::get_at
    b = f.body("Snapshot::get_at")
    tg = [c.bb for c in sites(cx, b, "CoreInner::resolve_value")]
    total += _accept_cond(cx, b, lambda o: o.from_call("InternalKeyRef::seq_num"), lambda o: "seq_num" in o.field_names(),
                          tg, "Snapshot::get_at", "vis|get_at")
    # 4. HistoryIterator::skip_to_valid_forward
    b = f.body("HistoryIterator::skip_to_valid_forward")
    tg = [i for i, k in exits(b) if k in ("ok",) and _returns_true(b, i)]
    total += _accept_cond(cx, b, lambda o: o.from_call("InternalKeyRef::seq_num"), lambda o: "snapshot_seq_num" in o.field_names(),
                          tg, "HistoryIterator forward", "vis|history-forward")
    # 5. HistoryIterator::collect_user_key_backward
    b = f.body("HistoryIterator::collect_user_key_backward")
    pushes = [c.bb for c in b.calls_to("std::vec::Vec::push")
              if any(b.local_name(l) == "versions" for l in _chain(b, c.args[0]))]
    if not pushes:
        raise AnchorMissing("collect_user_key_backward no longer collects into `versions`")
    total += _accept_cond(cx, b, lambda o: o.from_call("InternalKeyRef::seq_num"), lambda o: "snapshot_seq_num" in o.field_names(),
                          pushes, "HistoryIterator backward", "vis|history-backward")
    cx.floor("visibility comparison sites", total, 6)
    # the lookup key of Snapshot::get carries the snapshot's horizon
    gb = f.body("Snapshot::get")
    for c in sites(cx, gb, "InternalKey::new"):
        o = origin_of_operand(gb, c.args[1])
        cx.check("seq_num" in o.field_names() and not o.ops, "Snapshot::get looks tables up at (key, self.seq_num)", "get-lookup-seq", c.where())
    for c in sites(cx, gb, "MemTable::get", minimum=2):
        o = origin_of_operand(gb, c.args[2])
        cx.check("seq_num" in o.field_names() and any(a.get("variant") == "Some" for a in o.aggs), "memtable lookup is bounded by Some(self.seq_num)", "get-memtable-seq", c.where(),
                 "Snapshot::get reads a memtable without the snapshot bound")


def _chain(b, op):
    """locals on the backward ref/move chain of an operand"""
    seen, work = set(), [op[1][0]] if op[0] in ("c", "m") else []
    defs = b.defs()
    while work:
        l = work.pop()
        if l in seen:
            continue
        seen.add(l)
        for d in defs.get(l, ()):
            if d[0] == "assign" and d[3][0] in ("ref", "use", "cfd"):
                pl = d[3][2] if d[3][0] == "ref" else (d[3][1][1] if d[3][0] == "use" and d[3][1][0] in ("c", "m") else (d[3][1] if d[3][0] == "cfd" else None))
                if pl:
                    work.append(pl[0])
    return seen


def _returns_true(b, i):
    for st in b.blocks[i]["s"]:
        if st[0] == "=" and st[1] == [0] and st[2][0] == "agg":
            for op in st[2][2]:
                if op[0] == "k" and op[1].get("v") == "1":
                    return True
                if op[0] in ("c", "m"):
                    o = origin_of_operand(b, op)
                    if any(k.get("v") == "1" for k in o.consts) and not any(k.get("v") == "0" for k in o.consts):
                        return True
    return False


@rule("C01", "C01.R2", "every Snapshot pairs one registration with one un-registration; equal horizons are tolerated")
def r2(cx):
    f = cx.f
    db = f.body("<Snapshot as Drop>::drop")
    un = sites(cx, db, "SnapshotTracker::unregister")
    o = origin_of_operand(db, un[0].args[1])
    cx.check("seq_num" in o.field_names(), "Drop for Snapshot unregisters self.seq_num", "drop-unregister", un[0].where())
    # every construction of a Snapshot value is preceded by register(seq) with the same seq
    n = 0
    for body in f.scan_bodies():
        for i, j, lhs, rv, line in body.assigns():
            if rv[0] == "agg" and rv[3] and rv[3].get("adt") == "snapshot::Snapshot":
                n += 1
                reg = body.calls_to("SnapshotTracker::register")
                owner = f.fn_of(body).id
                ok = bool(reg) and body.set_dominates([c.bb for c in reg], i)
                if ok:
                    fields = rv[3]["fields"]
                    so = origin_of_operand(body, rv[2][fields.index("seq_num")])
                    ro = origin_of_operand(body, reg[0].args[1])
                    ok = bool(so.params & ro.params) or bool(set(map(id, so.calls)) & set(map(id, ro.calls)))
                cx.check(ok, "`%s` constructs a Snapshot after registering the same horizon" % owner, "unpaired-snapshot|%s" % owner,
                         "%s:%d" % (body.file, line),
                         "`%s` builds a Snapshot value without registering its horizon; when that value is dropped it un-registers a horizon "
                         "that a live transaction still relies on, so compaction may discard versions that transaction must see" % owner)
    cx.floor("Snapshot constructions", n, 1)
    # registry tolerates equal horizons: register(x) twice then unregister(x) once must leave x registered
    tr = f.adt("SnapshotTracker")
    fty = [fl[1] for fl in tr["variants"][0]["fields"] if fl[0] == "snapshots"]
    if not fty:
        raise AnchorMissing("SnapshotTracker.snapshots field missing")
    ty = fty[0]
    is_plain_set = "SkipSet<u64>" in ty or "BTreeSet<u64>" in ty or "HashSet<u64>" in ty
    cx.check(not is_plain_set, "the snapshot registry counts / distinguishes registrations with equal horizon", "registry-is-set", 
             "%s:%d" % (tr["file"], tr["line"]),
             "SnapshotTracker stores horizons in `%s`: two readers with the same horizon share one entry, so the first to finish "
             "un-registers the other as well (its sibling ActiveTxnTracker keys by (seq, id))" % ty)
    sib = f.adt("ActiveTxnTracker")
    sty = [fl[1] for fl in sib["variants"][0]["fields"]]
    cx.ok("sibling registry ActiveTxnTracker fields: %s" % sty, "%s:%d" % (sib["file"], sib["line"]))


@rule("C01", "C01.R4", "compaction receives every registered horizon, unfiltered")
def r4(cx):
    f = cx.f
    n = 0
    for c in f.callers_of("CompactionIterator::new"):
        n += 1
        o = origin_of_operand(c.body, c.args[-1])
        cx.check(o.from_call("SnapshotTracker::get_all_snapshots") and not any(
            x.primary.split("::")[-1] in ("filter", "retain", "truncate", "pop", "drain", "take", "skip", "split_off", "dedup") for x in o.calls),
            "CompactionIterator receives SnapshotTracker::get_all_snapshots() unmodified", "snapshots-provenance", c.where(),
            "the snapshot list handed to the compaction iterator does not come (unfiltered) from the snapshot tracker")
        # ... on EVERY path: no other producer of a snapshot vector (Vec::new(), a literal, a conditional default) may
        # reach the argument
        other = [x for x in o.calls if not (x.names & {"SnapshotTracker::get_all_snapshots"}) and x.ret_ty.startswith("std::vec::Vec<")]
        cx.check(not other and not any(a.get("adt", "").endswith("Vec") for a in o.aggs), "the snapshot list has no second source (%s)" % ", ".join(sorted({x.primary for x in other})),
                 "snapshots-second-source", c.where(),
                 "on some path the compaction iterator is given a snapshot list that does not come from the tracker (%s): compaction then runs as if no "
                 "reader were open and drops versions / tombstones an open transaction still needs" % ", ".join(sorted({x.primary for x in other})))
        # mutation of the vector between capture and use
        src = [x for x in o.calls if x.names & {"SnapshotTracker::get_all_snapshots"}]
        for s in src:
            holders = {s.dest[0]}
            for x in c.body.calls:
                if x is s or x is c:
                    continue
                if x.args and x.args[0][0] in ("c", "m"):
                    ao = origin_of_operand(c.body, x.args[0])
                    if s in ao.calls and x.primary.startswith("std::vec::Vec::") and x.primary.split("::")[-1] in (
                            "retain", "truncate", "pop", "clear", "drain", "remove", "swap_remove", "dedup", "split_off"):
                        cx.bad("snapshots-mutated|%s" % x.primary, "the captured snapshot list is modified (%s) before compaction uses it" % x.primary, x.where())
    cx.floor("CompactionIterator constructions", n, 1)
    gb = f.body("SnapshotTracker::get_all_snapshots")
    cx.check(not gb.calls_to("std::iter::Iterator::filter", "std::iter::Iterator::take", "std::iter::Iterator::skip"),
             "get_all_snapshots returns every registered horizon", "get_all-filtered", gb.where())


@rule("C01", "C01.R5", "point lookups search newest data first")
def r5(cx):
    f = cx.f
    b = f.body("Snapshot::get")
    gs = guard_regions(b, lock_wrappers(f))
    act = [g for g in gs if g.lock.endswith("active_memtable")]
    imm = [g for g in gs if g.lock.endswith("immutable_memtables")]
    man = [g for g in gs if g.lock.endswith("level_manifest")]
    if not (act and imm and man):
        raise AnchorMissing("Snapshot::get no longer reads active / immutable / manifest under their locks")
    mg = sites(cx, b, "MemTable::get", minimum=2)
    first = [c for c in mg if c.bb in act[0].region]
    second = [c for c in mg if c.bb in imm[0].region]
    tg = sites(cx, b, "Table::get", minimum=2)
    cx.floor("active memtable lookups", len(first), 1)
    cx.floor("immutable memtable lookups", len(second), 1)
    dom(cx, b, first, [imm[0].call], "active memtable is searched before the immutable queue is opened")
    dom(cx, b, [imm[0].call], second, "immutable lookups happen under the immutable-queue lock")
    dom(cx, b, [imm[0].call], [man[0].call], "immutable memtables are searched before the manifest is opened")
    dom(cx, b, [man[0].call], tg, "table lookups happen after the manifest was opened")
    never_after(cx, b, second, first, "active memtable is not consulted after the immutable queue")
    never_after(cx, b, tg, mg, "no memtable lookup after a table lookup")
    # immutable memtables are visited newest first: the iterator is reversed
    rev = [c for c in b.calls if c.primary.endswith("Iterator::rev") or c.primary.endswith("::rev")]
    revd = [c for c in rev if origin_of_operand(b, c.args[0]).from_call("ImmutableMemtables::iter")]
    cx.check(bool(revd), "immutable memtables are visited in reverse (newest first)", "imm-not-reversed", imm[0].call.where(),
             "Snapshot::get visits immutable memtables oldest first: an older version can shadow a newer one")
    ab = f.body("ImmutableMemtables::add")
    srt = [c for c in ab.calls if "sort" in c.primary.split("::")[-1]]
    cx.check(bool(srt) or bool(ab.calls_to("std::vec::Vec::push")), "ImmutableMemtables::add keeps the queue ordered (sorts by table id / appends)", "imm-order", ab.where())
    # levels are visited in ascending level order: the loop enumerates `levels` without rev
    cx.check(not any(origin_of_operand(b, c.args[0]).field_names() & {"levels"} for c in rev), "levels are visited from L0 upwards", "levels-reversed", b.where())


@rule("C01", "C01.R6", "one horizon per transaction; reads go through the transaction's snapshot")
def r6(cx):
    f = cx.f
    nb = f.body("Transaction::new")
    sq = sites(cx, nb, "Core::seq_num")
    cx.check(len(sq) == 1, "Transaction::new reads the horizon exactly once", "horizon-read-count", nb.where())
    for c in sites(cx, nb, "Snapshot::new"):
        o = origin_of_operand(nb, c.args[1])
        cx.check(sq[0] in o.calls and not o.ops, "the snapshot is taken at the horizon read at begin", "snapshot-horizon", c.where())
    # Snapshot::range / history_iter / get_at pass self.seq_num on
    rb = f.body("Snapshot::range")
    for c in sites(cx, rb, "SnapshotIterator::new_from"):
        o = origin_of_operand(rb, c.args[1])
        cx.check("seq_num" in o.field_names() and not o.ops, "range cursor inherits the snapshot horizon", "range-horizon", c.where())
    hb = f.body("Snapshot::history_iter")
    for c in sites(cx, hb, ["HistoryIterator::new", "HistoryIterator::new_lsm"], minimum=2):
        hit = any("seq_num" in origin_of_operand(hb, a).field_names() and not origin_of_operand(hb, a).ops for a in c.args[:2])
        cx.check(hit, "history cursor (%s) inherits the snapshot horizon" % c.primary.split("::")[-1], "history-horizon|%s" % c.primary.split("::")[-1], c.where())
    # SnapshotIterator stores the horizon it was given
    sb = f.body("SnapshotIterator::new_from")
    for i, j, lhs, rv, line in sb.assigns():
        if rv[0] == "agg" and rv[3] and rv[3].get("adt") == "snapshot::SnapshotIterator":
            fields = rv[3]["fields"]
            o = origin_of_operand(sb, rv[2][fields.index("snapshot_seq_num")])
            cx.check(any(sb.local_name(l) == "seq_num" for l, _ in o.params) and not o.ops, "cursor filters at the horizon it was created with", "cursor-horizon", "%s:%d" % (sb.file, line))


@rule("C01", "C01.R7", "a memtable leaves the active slot and enters the immutable queue under one lock")
def r7(cx):
    f = cx.f
    n = 0
    for fn in ("CoreInner::rotate_memtable", "CoreInner::flush_memtable_and_update_manifest"):
        b = f.body(fn)
        gs = [g for g in guard_regions(b, lock_wrappers(f)) if g.lock.endswith("active_memtable") and g.mode == "write"]
        if not gs:
            raise AnchorMissing("%s no longer takes the active memtable write lock" % fn)
        swap = sites(cx, b, "std::mem::replace")
        add = sites(cx, b, "ImmutableMemtables::add")
        for c in swap + add:
            n += 1
            cx.check(c.bb in gs[0].region, "%s: `%s` runs while the active-memtable write lock is held" % (fn.split("::")[-1], c.primary.split("::")[-1]),
                     "handover-gap|%s|%s" % (fn, c.primary.split("::")[-1]), c.where(),
                     "%s: `%s` runs outside the active-memtable write lock: between the swap and the enqueue a reader finds the rotated "
                     "memtable in neither place and misses committed data" % (fn, c.primary))
        dom(cx, b, swap, add, "%s: swap before enqueue" % fn.split("::")[-1])
        # the enqueued memtable is the one swapped out
        for a in add:
            o = origin_of_operand(b, a.args[-1])
            cx.check(any(x in swap for x in o.calls), "the enqueued memtable is the one swapped out", "handover-wrong-memtable|%s" % fn, a.where())
    cx.floor("hand-over sites", n, 4)
    # flush: the immutable memtable is removed only after the table is in the manifest
    fb = f.body("CoreInner::flush_immutable_to_sst")
    ap = sites(cx, fb, "LevelManifest::apply_changeset")
    rm = sites(cx, fb, "ImmutableMemtables::remove")
    dom(cx, fb, ap, rm, "flush: table installed in the manifest before the memtable is forgotten")
    gsm = [g for g in guard_regions(fb, lock_wrappers(f)) if g.lock.endswith("level_manifest") and g.mode == "write"]
    if not gsm:
        raise AnchorMissing("flush_immutable_to_sst no longer holds the manifest write lock")
    for c in ap + rm:
        cx.check(c.bb in gsm[0].region, "flush: `%s` happens under the manifest write lock" % c.primary.split("::")[-1], "flush-swap-unlocked|%s" % c.primary.split("::")[-1], c.where())


@rule("C01", "C01.R3", "compaction keeps every version an open snapshot reads (decision table)")
def r3(cx):
    from . import compaction as cp
    rows, info = cp.table(cx.f)
    cx.note("decision region %s: %d paths, %d rows" % (info["region_start"], info["paths"], info["rows"]))
    cx.table("compaction per-version decision", [[str(dict(sorted(c.items()))), str(o)] for c, o, _ in rows])
    cp.check_obligation(cx, rows, "a live version that an open snapshot reads and that is not superseded inside its visibility boundary is written to the output",
                        lambda t: (not t["hard_delete"]) and t["cur_vis"] == "Bounded" and not cp.unneeded_by_snapshots(t), True,
                        "snapshot-version-dropped",
                        "compaction drops a version that is the one an open snapshot reads (no newer version in the same visibility boundary): the reader loses its value "
                        "(all failing combinations have `latest version is a hard delete at the bottom level`, which discards every version of the key before snapshots are consulted)",
                        info["region_start"])
    cp.check_obligation(cx, rows, "a tombstone that an open snapshot reads (not superseded in its boundary, not the bottom-level drop-all case) is written to the output",
                        lambda t: t["hard_delete"] and not t["latest_del_bottom"] and t["cur_vis"] == "Bounded" and not cp.unneeded_by_snapshots(t) and (not t["is_latest"] or not t["bottom"]), True,
                        "snapshot-tombstone-dropped",
                        "compaction drops a hard-delete tombstone that is the version an open snapshot reads: that reader then finds an older value of the deleted key",
                        info["region_start"])
    cp.check_obligation(cx, rows, "a version is only treated as superseded when a newer version exists in the same visibility boundary",
                        lambda t: t["cur_vis"] == "Bounded" and t["is_latest"] and not t["hard_delete"], True, "latest-snapshot-version-dropped",
                        "the newest version visible to a snapshot is dropped", info["region_start"])
    # the boundary test itself: equal bounded snapshots / both newer / both none
    from ..e3 import Region
    sb = cx.f.body("CompactionIterator::same_visibility_boundary")
    leaves = Region(sb, 0, force_bool_return=True).run()
    tab = {}
    for lf in leaves:
        a = lf.cond.get("variant(p2)")
        b_ = lf.cond.get("variant(p3)")
        rel = [v for k, v in lf.cond.items() if k.startswith("rel(")]
        tab[(a, b_, rel[0] if rel else None)] = lf.ret[1] if lf.ret and lf.ret[0] == "c" else None
    cx.table("same_visibility_boundary", [[str(k), str(v)] for k, v in sorted(tab.items(), key=str)])
    good = True
    for (a, b_, rel), v in tab.items():
        if a == "BoundedBySnapshot" and b_ == "BoundedBySnapshot":
            want = 1 if rel == "eq" else 0
        elif a == b_ and a in ("NewerThanAllSnapshots", "NoActiveSnapshots"):
            want = 1
        elif a is None or b_ is None:
            want = 0
        else:
            want = 0
        if v != want:
            good = False
    cx.check(good and len(tab) >= 5, "same_visibility_boundary: equal bounded snapshot / both newer / both none, nothing else", "same-boundary-table", sb.where(),
             "same_visibility_boundary table differs from the oracle: %s" % sorted(tab.items(), key=str))
    mb = cx.f.body("CompactionIterator::must_preserve_for_snapshot")
    lv = Region(mb, 0, force_bool_return=True).run()
    t2 = {lf.cond.get("variant(p2)"): (lf.ret[1] if lf.ret and lf.ret[0] == "c" else None) for lf in lv}
    cx.check(t2.get("BoundedBySnapshot") == 1 and all(v == 0 for k, v in t2.items() if k != "BoundedBySnapshot") and len(t2) >= 2,
             "must_preserve_for_snapshot <=> visibility is bounded by a snapshot", "must-preserve-table", mb.where(), "must_preserve_for_snapshot table: %s" % t2)
