"""C07 — the store can always reopen what it wrote."""
from ..registry import rule
from ..core import origin_of_operand, AnchorMissing, comparisons, rel_str, mirror, feasible_reach
from .common import *
from .walrules import rule_seq_floor_on_open, rule_delete_tables_after_manifest, from_highest_segment_on_disk, rule_resume_offset_exact, rule_replay_never_gives_up_on_size
from . import codec

EXPLANATION = ("Structural necessary conditions of re-openability: the manifest decoder reads exactly what the encoder writes, "
               "in order; every validation the loader performs rejects only states the writer side can never produce (the stored "
               "last_sequence is a running maximum that table deletion never lowers, so only computed > stored may be rejected; "
               "levels >= 1 are ordered by key, so adjacent tables may not be required to have increasing sequence ranges); "
               "sequence counters and the active WAL segment restart above everything on disk; table ids come from the single "
               "persisted counter.  Reachability of layouts and idempotence of repeated recovery are NOT decided.")
ASSUMPTIONS = ["MIR models control/data flow faithfully", "byteorder read/write primitives are symmetric"]


@rule("C07", "C07.R1", "manifest decoder mirrors the encoder")
def r1(cx):
    f = cx.f
    enc = f.body("levels::write_manifest_to_disk")
    dec = f.body("LevelManifest::load_from_file")
    prim_w = {"write_u16", "write_u32", "write_u64"}
    prim_r = {"read_u16", "read_u32", "read_u64"}
    e = [(k, c) for k, c in codec.ops(enc, codec.W, prim_w)]
    d = [(k, c) for k, c in codec.ops(dec, codec.R, prim_r)]
    ek, dk = [k for k, _ in e], [k for k, _ in d]
    cx.table("manifest header codec", [["encode"] + ek, ["decode"] + dk])
    cx.check(ek == dk, "manifest header/trailer: decoder reads %s as written" % ek, "codec|manifest", enc.where(),
             "manifest: encoder writes %s but decoder reads %s" % (ek, dk))
    # field order: version, next_table_id, log_number, last_sequence
    wf = []
    for k, c in e[:4]:
        o = origin_of_operand(enc, c.args[1], through_calls="all")
        nm = sorted(o.field_names() & {"manifest_format_version", "next_table_id", "log_number", "last_sequence"})
        wf.append(nm[0] if nm else "?")
    cx.check(wf == ["manifest_format_version", "next_table_id", "log_number", "last_sequence"], "encoder header field order %s" % wf, "codec|manifest-fields-enc", enc.where())
    # decoder: the i-th read lands in the matching field of the constructed manifest
    for i, j, lhs, rv, line in dec.assigns():
        if rv[0] == "agg" and rv[3] and rv[3].get("adt") == "levels::LevelManifest":
            fields = rv[3]["fields"]
            want = {"manifest_format_version": 0, "next_table_id": 1, "log_number": 2, "last_sequence": 3}
            for fld, idx in want.items():
                o = origin_of_operand(dec, rv[2][fields.index(fld)], through_calls="all")
                cx.check(d[idx][1] in o.calls, "decoder: field `%s` is the %d. header value" % (fld, idx + 1), "codec|manifest-field|%s" % fld, "%s:%d" % (dec.file, line),
                         "LevelManifest.%s is not restored from header position %d" % (fld, idx + 1))
    # levels and snapshots sub-codecs
    le, ld = f.body("Levels::encode"), f.body("Levels::decode")
    codec.symmetric(cx, le, ld, "levels", {"write_u8", "write_u16", "write_u32", "write_u64"}, {"read_u8", "read_u16", "read_u32", "read_u64"})
    se, sd = f.body("SnapshotInfo::encode"), f.body("SnapshotInfo::decode")
    codec.symmetric(cx, se, sd, "snapshot info", {"write_u8", "write_u16", "write_u32", "write_u64"}, {"read_u8", "read_u16", "read_u32", "read_u64"})
    # write_manifest_to_disk reads next_table_id from the live counter
    cx.check(any("next_table_id" in origin_of_operand(enc, c.args[0]).field_names() for c in enc.calls_to("std::sync::atomic::Atomic::load")),
             "every manifest write persists the table-id counter", "next-table-id-not-persisted", enc.where())


@rule("C07", "C07.R2", "loader validations reject only states the writer can never produce")
def r2(cx):
    f = cx.f
    b = f.body("LevelManifest::load_from_file")
    # (a) last_sequence check
    n = 0
    for cmp_ in comparisons(b):
        lo, ro = origin_of_operand(b, cmp_.lhs, through_calls="all"), origin_of_operand(b, cmp_.rhs, through_calls="all")
        lmax = lo.from_call("std::iter::Iterator::max")
        rmax = ro.from_call("std::iter::Iterator::max")
        lst = lo.from_call("byteorder::ReadBytesExt::read_u64") and not lmax
        rst = ro.from_call("byteorder::ReadBytesExt::read_u64") and not rmax
        if not ((lmax and rst) or (rmax and lst)):
            continue
        n += 1
        errs = [x for x, k in exits(b) if k == "err"]
        # the error construction controlled by this comparison
        ctl = []
        for sw, e in cmp_.switches():
            for tgt, lab in e.items():
                r = feasible_reach(b, [tgt])
                okx = [x for x, k in exits(b) if k == "ok" and x in r]
                if not okx:
                    ctl.append(lab)
        rej = frozenset().union(*ctl) if ctl else frozenset()
        if rmax:
            rej = mirror(rej)
        cx.check(rej == frozenset({"gt"}), "the loader rejects only computed_max > stored last_sequence", "last-sequence-check", cmp_.where(),
                 "load_from_file rejects the manifest when computed max sequence %s stored last_sequence; the writer keeps last_sequence as a running maximum that "
                 "table deletion never lowers (a compaction that drops the newest tombstone leaves stored > computed), so a store it wrote itself fails to reopen" % rel_str(rej))
    cx.floor("last_sequence validation", n, 1)
    # writer side: last_sequence only grows (guarded assignment) or is restored by revert
    ab = f.body("LevelManifest::apply_changeset")
    asg = []
    for i, j, lhs, rv, line in ab.assigns():
        fs = [p for p in lhs[1:] if isinstance(p, list) and p[0] == "f"]
        if fs and fs[-1][2] == "last_sequence" and fs[-1][3].endswith("LevelManifest"):
            asg.append((i, line))
    cx.floor("last_sequence assignments in apply_changeset", len(asg), 1)
    for i, line in asg:
        okk = False
        for cmp_ in comparisons(ab):
            lo, ro = origin_of_operand(ab, cmp_.lhs), origin_of_operand(ab, cmp_.rhs)
            if "last_sequence" in ro.field_names() and "largest_seq_num" in lo.field_names():
                cond = cmp_.condition_to_reach(i)
                okk = cond == frozenset({"gt"})
            elif "last_sequence" in lo.field_names() and "largest_seq_num" in ro.field_names():
                cond = cmp_.condition_to_reach(i)
                okk = cond is not None and mirror(cond) == frozenset({"gt"})
        cx.check(okk, "apply_changeset raises last_sequence only when a table's largest seq exceeds it (running max)", "last-sequence-writer", "%s:%d" % (ab.file, line),
                 "apply_changeset no longer maintains last_sequence as a running maximum")
    # (b) adjacent-pair validation on key-ordered levels
    vb = f.body("LevelManifest::validate_table_sequence_numbers")
    m = 0
    for cmp_ in comparisons(vb):
        lo, ro = origin_of_operand(vb, cmp_.lhs, through_calls="all"), origin_of_operand(vb, cmp_.rhs, through_calls="all")
        seqf = {"smallest_seq_num", "largest_seq_num"}
        if not (lo.field_names() & seqf and ro.field_names() & seqf):
            continue
        cross = bool(lo.index_locals) and bool(ro.index_locals) and lo.index_locals != ro.index_locals
        if not cross:
            m += 1
            cx.ok("per-table sanity check smallest <= largest", cmp_.where())
            continue
        m += 1
        # does it control an error exit?
        rejects = False
        for sw, e in cmp_.switches():
            for tgt, lab in e.items():
                r = feasible_reach(vb, [tgt])
                if not any(x in r for x, k in exits(vb) if k == "ok"):
                    rejects = True
        cx.check(not rejects, "no cross-table sequence ordering is demanded on key-ordered levels", "cross-table-seq-check", cmp_.where(),
                 "validate_table_sequence_numbers rejects a level >= 1 whose adjacent tables (ordered by key) do not have increasing sequence ranges; "
                 "compaction rewrites tables in key order with arbitrary sequence ranges, so a level the store produced itself fails to load")
    cx.floor("sequence comparisons in validate_table_sequence_numbers", m, 1)
    lb = f.body("Level::insert_sorted_by_key")
    cx.ok("levels >= 1 are ordered by key: %s" % lb.where(), lb.where())


@rule("C07", "C07.R3", "sequence counters restart above everything recovered")
def r3(cx):
    rule_seq_floor_on_open(cx)


@rule("C07", "C07.R4", "the active WAL segment is never below the highest segment on disk")
def r4(cx):
    f = cx.f
    rule_resume_offset_exact(cx)
    rule_replay_never_gives_up_on_size(cx)
    b = f.body("Wal::open_with_min_log_number")
    for c in sites(cx, b, "Wal::create_writer"):
        o = origin_of_operand(b, c.args[1], through_calls="all")
        cx.check(o.from_call("std::cmp::max", "std::cmp::Ord::max") and from_highest_segment_on_disk(f, o) and any(l == 2 or b.local_name(l) == "min_log_number" for l, _ in o.params),
                 "active segment = max(min_log_number, highest on disk)", "active-segment-floor", c.where())
    cb = f.body("CoreInner::new")
    for c in sites(cx, cb, "Wal::open_with_min_log_number"):
        o = origin_of_operand(cb, c.args[1])
        cx.check(o.from_call("LevelManifest::get_log_number"), "the WAL is opened at the manifest's log_number", "wal-open-lower-bound", c.where())
    for c in sites(cx, cb, "MemTable::set_wal_number"):
        o = origin_of_operand(cb, c.args[1])
        cx.check(o.from_call("Wal::get_active_log_number"), "the first memtable is paired with the active segment", "initial-pairing", c.where())


@rule("C07", "C07.R5", "table ids come from the single persisted counter")
def r5(cx):
    f = cx.f
    cs = f.callers_of("LevelManifest::next_table_id")
    cx.floor("next_table_id call sites", len(cs), 5)
    nb = f.body("LevelManifest::next_table_id")
    fa = sites(cx, nb, "std::sync::atomic::Atomic::fetch_add")
    cx.check("next_table_id" in origin_of_operand(nb, fa[0].args[0]).field_names(), "next_table_id() advances the persisted counter", "next-id-source", nb.where())
    # every flush_immutable_to_sst call gets its id from next_table_id() or from an immutable-queue entry
    for c in f.callers_of("CoreInner::flush_immutable_to_sst"):
        o = origin_of_operand(c.body, c.args[2], through_calls="all")
        good = o.from_call("LevelManifest::next_table_id") or "table_id" in o.field_names()
        cx.check(good, "flush in `%s` uses an id from next_table_id() / the immutable queue" % f.fn_of(c.body).id, "table-id-source|%s" % f.fn_of(c.body).id, c.where(),
                 "`%s` flushes a memtable under a table id that does not come from the manifest's counter" % f.fn_of(c.body).id)
    for c in f.callers_of("ImmutableMemtables::add"):
        o = origin_of_operand(c.body, c.args[1], through_calls="all")
        cx.check(o.from_call("LevelManifest::next_table_id"), "immutable queue entries get their id from next_table_id()", "imm-id-source|%s" % f.fn_of(c.body).id, c.where())
    mb = f.body("Compactor::merge_tables")
    for c in sites(cx, mb, "Compactor::write_merged_table"):
        o = origin_of_operand(mb, c.args[2], through_calls="all")
        cx.check(o.from_call("LevelManifest::next_table_id"), "compaction output id comes from next_table_id()", "compaction-id-source", c.where())
    # writers of the counter
    from .pipeline import atomic_field_ops
    for body, c, meth in atomic_field_ops(cx, "next_table_id"):
        owner = f.fn_of(body).id
        cx.check(owner in ("levels::LevelManifest::next_table_id",) and meth == "fetch_add", "counter modified only by next_table_id()", "who:next_table_id|%s.%s" % (owner, meth), c.where(),
                 "the table-id counter is modified by `%s` (%s)" % (owner, meth))


@rule("C07", "C07.R6", "the manifest on disk never references a table file that was already deleted")
def r6(cx):
    rule_delete_tables_after_manifest(cx)
    f = cx.f
    # flush: the table file exists (written + fsynced) before the manifest lists it
    b = f.body("CoreInner::flush_immutable_to_sst")
    fl = sites(cx, b, "MemTable::flush")
    wr = sites(cx, b, "levels::write_manifest_to_disk")
    dom(cx, b, fl, wr, "a flushed table is on disk before the manifest lists it")
    mb = f.body("Compactor::merge_tables")
    wm = sites(cx, mb, "Compactor::write_merged_table")
    um = [c for c in mb.calls if c.bb in mb.live and f.call_must_reach(c, {"levels::write_manifest_to_disk"})]
    dom(cx, mb, wm, um, "a compaction output is on disk before the manifest lists it")


@rule("C07", "C07.R7", "a value-log file that is empty when the writer adopts it gets its header before any entry")
def r7(cx):
    """Recovery adopts the highest-numbered value-log file as the active one, and a crash between `create` and the header
    write leaves a zero-length file.  VLogWriter::new must therefore write the header whenever the file length is 0 (not
    only when the file did not exist): every path that reaches the Ok return without the header write has taken the
    `length != 0` edge of a comparison of the file's length with 0."""
    from ..core import comparisons
    f = cx.f
    b = f.body("VLogWriter::new")
    enc = sites(cx, b, "VLogFileHeader::encode")
    hw = [c for c in b.calls if c.bb in b.live and c.primary.endswith("Write>::write_all") and any(x in enc for x in origin_of_operand(b, c.args[1]).calls)]
    cx.floor("header writes in VLogWriter::new", len(hw), 1)
    cut = set()
    ncmp = 0
    for cm in comparisons(b):
        lo, ro = origin_of_operand(b, cm.lhs), origin_of_operand(b, cm.rhs)
        for x, y, yop in ((lo, ro, cm.rhs), (ro, lo, cm.lhs)):
            if x.from_call("std::fs::Metadata::len") and not x.ops and const_value(yop) == 0:
                ncmp += 1
                for sw, e in cm.switches():
                    for tgt, lab in e.items():
                        if "eq" not in lab:
                            cut.add((sw, tgt))
    oks = [x for x, k in exits(b) if k in ("ok", "tail")]
    r = reach_cut(b, [0], avoid={c.bb for c in hw}, cut_edges=cut)
    bad = [x for x in oks if x in r]
    cx.check(not bad, "VLogWriter::new: without the header write, Ok is only reachable when the file length is non-zero (%d length tests)" % ncmp,
             "vlog-empty-file-no-header", b.where(),
             "VLogWriter::new can adopt an existing zero-length value-log file without writing the file header: entries are appended at offset 0, tables "
             "pointing at them are committed, and the next open rejects the file (`Invalid VLog magic number`) -- a state the store produced cannot be reopened")
    # the header is flushed before the writer is handed out
    fl = [c for c in b.calls if c.bb in b.live and c.primary.endswith("Write>::flush")]
    for c in hw:
        mpt(cx, b, [c], fl, "the header is flushed before VLogWriter::new returns", to=oks, key="vlog-header-unflushed")


def _try_break_edges(b, call):
    """CFG edges (switch block, target) taken when `call(..)?` short-circuits (Break arm of Try::branch on the call's result)"""
    cur = call.target
    holders = {call.dest[0]} if len(call.dest) == 1 else set()
    for _ in range(8):
        if cur is None:
            return []
        bl = b.blocks[cur]
        for st in bl["s"]:
            if st[0] == "=" and len(st[1]) == 1 and st[2][0] == "use" and st[2][1][0] in ("c", "m") and st[2][1][1][0] in holders:
                holders.add(st[1][0])
        t = bl["t"]
        if t[0] == "call":
            c = b.call_at[cur]
            if any(n.endswith("Try::branch") for n in c.names) and c.args and c.args[0][0] in ("c", "m") and c.args[0][1][0] in holders:
                sw = c.target
                t2 = b.blocks[sw]["t"]
                if t2[0] != "switch":
                    return []
                brk = [(sw, x) for v, x in t2[2] if v != "0"]
                if not any(v == "0" for v, _ in t2[2]):
                    brk = []
                elif not brk:
                    brk = [(sw, t2[3])]
                return brk
            cur = c.target
            continue
        if t[0] in ("goto", "falseedge", "falseunwind", "drop"):
            cur = b.succ[cur][0] if b.succ[cur] else None
            continue
        return []
    return []


@rule("C07", "C07.R8", "the manifest's table enumeration ends only past the last level")
def r8(cx):
    """Orphan clean-up at open, value-log GC, compaction input lookup and checkpoints all enumerate the live tables through
    LevelManifest::iter().  A table that the enumeration skips is deleted as an orphan although the manifest references it
    (the next open fails).  Necessary condition: `LevelManifestIterator::next` returns None only through the failed lookup of
    the *level* index (`levels.get(current_level)?`); an empty level in the middle must not end the enumeration."""
    f = cx.f
    bs = [b for b in f.scan_bodies() if b.name == "next" and "LevelManifestIterator" in (b.self_ty or "")]
    if len(bs) != 1:
        raise AnchorMissing("LevelManifestIterator::next: %d bodies" % len(bs))
    b = bs[0]
    gets = [c for c in b.calls if c.bb in b.live and c.primary.split("::")[-1] == "get" and c.args]
    lv = []
    for c in gets:
        fn_ = origin_of_operand(b, c.args[0]).field_names()
        if "levels" in fn_ and "tables" not in fn_:
            lv.append(c)
    cx.floor("level lookups in LevelManifestIterator::next", len(lv), 1)
    cut = set()
    from ..core import option_edges
    for c in lv:
        cut |= set(_try_break_edges(b, c))
        # ... or through an explicit `match levels.get(i) { None => return None, .. }`
        if len(c.dest) == 1 and c.target is not None:
            e, sw = option_edges(b, c.dest[0], c.target)
            if e:
                for tgt, lab in e.items():
                    if lab == frozenset({"0"}):
                        cut.add((sw, tgt))
    cx.check(bool(cut), "the level lookup ends the enumeration (`?` or an explicit None arm)", "manifest-iter-no-level-exit", b.where())
    nones = [x for x, k in exits(b) if k in ("none", "err")]
    r = reach_cut(b, [0], cut_edges=cut)
    bad = [x for x in nones if x in r]
    cx.check(not bad, "LevelManifestIterator::next yields None only when the level index is past the last level", "manifest-iter-ends-early", b.where(bad[0]) if bad else b.where(),
             "LevelManifestIterator::next can return None while deeper levels have not been visited (e.g. at an empty level): get_all_tables() misses their tables, "
             "orphan clean-up at the next open deletes files the manifest references, and the following open fails")
    # advancing to the next level resets the table index
    inc = [i for i, j, lhs, rv, line in b.assigns() if i in b.live and any(isinstance(p, list) and p[0] == "f" and p[2] == "current_level" for p in lhs[1:])]
    rst = [i for i, j, lhs, rv, line in b.assigns() if i in b.live and any(isinstance(p, list) and p[0] == "f" and p[2] == "current_idx" for p in lhs[1:]) and rv[0] == "use" and rv[1][0] == "k"]
    cx.check(bool(inc) and bool(rst) and all(any(x in b.reachable_from([i]) for x in rst) for i in inc), "moving to the next level restarts at its first table", "manifest-iter-index", b.where())
    # consumers: orphan clean-up builds its live set from the full enumeration
    ob = f.body("CoreInner::cleanup_orphaned_sst_files")
    cx.check(f.may_reach(ob.id, "LevelManifest::get_all_tables") or f.may_reach(ob.id, "LevelManifest::iter"), "orphan clean-up takes the live set from the manifest enumeration", "orphan-live-set", ob.where())


@rule("C07", "C07.R9", "a table written under one valid configuration opens under another: configuration-dependent lookups in the meta index never assert")
def r9(cx):
    """Table::new looks up optional parts of a table (the filter block) in the meta index under a name that comes from the
    reader's OPTIONS (`filter.<policy name>`).  A seek in the meta index lands on the next greater key when the name is
    absent; comparing the found key with the configured name must yield `absent`, not a panic: a table written with
    filter_policy = None (or another policy) is a state the store produced under a valid configuration.  Decided: in the
    functions Table::new reaches, no assert/panic compares a key read from a block with a value derived from an Options
    field."""
    f = cx.f
    tb = f.body("Table::new")
    reach = f.reach(tb.id) | {tb.id}
    n = 0
    for bid in sorted(reach):
        b = f.bodies[bid]
        if not b.file.endswith("sstable/table.rs"):
            continue
        for c in b.calls:
            if c.bb not in b.live or not ("assert_failed" in c.primary or "panic" in c.primary.split("::")[-1]):
                continue
            srcs = [origin_of_operand(b, a, through_calls="all") for a in c.args if a[0] in ("c", "m")]
            from_block = any(any(x.primary.split("::")[-1] in ("key", "user_key") for x in o.calls) for o in srcs)
            from_opts = any(any(nm in ("filter_policy",) or own.endswith("Options") for own, nm in o.fields) for o in srcs)
            if not from_block:
                continue
            n += 1
            cx.check(not from_opts, "`%s`: no assertion compares a meta-index key with a configured name" % b.id, "config-dependent-assert|%s" % b.name, c.where(),
                     "`%s` asserts that the key found in the meta index equals a name derived from the reader's Options: a table written without that part (filter_policy = None, "
                     "another policy) makes Tree::new PANIC instead of opening the table without a filter" % b.id)
    cx.floor("assertions on meta-index keys reachable from Table::new", n, 1)
