"""C11 — separated large values stay intact and reachable."""
from ..registry import rule
from ..core import origin_of_operand, AnchorMissing, comparisons, rel_str, mirror, feasible_reach, guard_regions, lock_wrappers
from .common import *
from .walrules import rule_flush_ordering
from . import codec

EXPLANATION = ("Structural necessary conditions for separated values: value-log data is fsynced before the table that points "
               "to it is installed, including the file that was active before a rotation; a value-log file is deleted only when "
               "its id is below the minimum `oldest_vlog_file_id` over all live tables and it is not the active file, the bound is "
               "computed from the manifest under its write lock after the change set, and 0 means 'no references'; every value "
               "written to a table has its pointer folded into that table's minimum regardless of the entry kind; index entries are "
               "removed before the files they point to; the pointer codec is symmetric.  Byte-for-byte equality and readers holding "
               "old tables are NOT decided.")
ASSUMPTIONS = ["MIR models control/data flow faithfully", "BufWriter::flush + File::sync_all make data durable"]


@rule("C11", "C11.R1", "value log is synced before the table pointing into it is installed")
def r1(cx):
    rule_flush_ordering(cx)
    f = cx.f
    mb = f.body("MemTable::flush")
    vs = sites(cx, mb, "VLog::sync")
    oks = [x for x, k in exits(mb) if k in ("ok", "tail")]
    # on the vlog-present path the sync dominates Ok: the call sits under `if let Some(vlog)`; check via separate-to-vlog use
    sep = [c for c in mb.calls if c.bb in mb.live and cx.f.call_may_reach(c, {"VLog::append"})]
    cx.floor("value separation sites in MemTable::flush", len(sep), 1)
    never_after(cx, mb, vs, sep, "no value is appended to the value log after it was synced for this table")
    sb = f.body("VLog::sync")
    fl = sites(cx, sb, "vlog::VLogWriter::flush")
    sa = sites(cx, sb, "std::fs::File::sync_all")
    fdom(cx, sb, fl, sa, "VLog::sync flushes the buffer before fsync")
    fd = sites(cx, sb, "vlog::VLogWriter::sync_fd")
    o = origin_of_operand(sb, sa[0].args[0], through_calls="all")
    cx.check(any(x in fd for x in o.calls), "the fsynced descriptor belongs to the writer that was flushed", "vlog-sync-wrong-fd", sa[0].where())


@rule("C11", "C11.R2", "a value-log file is fsynced before the writer moves on to the next file")
def r2(cx):
    f = cx.f
    b = f.body("VLog::append")
    nw = sites(cx, b, "vlog::VLogWriter::new")
    # the assignment that replaces the writer
    repl = []
    for i, j, lhs, rv, line in b.assigns():
        if rv[0] == "agg" and rv[3] and rv[3].get("adt") == "std::option::Option" and rv[3].get("variant") == "Some":
            o = origin_of_operand(b, rv[2][0])
            if any(x in nw for x in o.calls):
                repl.append((i, line))
    cx.floor("writer replacement in VLog::append", len(repl), 1)
    syncs = [c for c in b.calls if c.bb in b.live and f.call_may_reach(c, {"std::fs::File::sync_all", "std::fs::File::sync_data"})
             and not (c.names & {"vlog::VLogWriter::new"})]
    # "there is no previous writer" edges: the None arm of a match on the guarded Option<VLogWriter>
    from ..core import option_edges
    none_edges = set()
    for c in b.calls:
        if c.bb in b.live and c.primary in ("std::option::Option::as_mut", "std::option::Option::as_ref", "std::option::Option::take") and c.target is not None:
            if any("VLogWriter" in b.local_ty(a[1][0]) for a in c.args if a[0] in ("c", "m")):
                e, sw = option_edges(b, c.dest[0], c.target)
                if e:
                    none_edges |= {s for s, lab in e.items() if lab == frozenset({"0"})}
    for i, line in repl:
        avoid = {c.bb for c in syncs} | none_edges
        ok = bool(syncs) and i not in b.reachable_from([0], avoid=avoid)
        cx.check(ok, "the previous value-log file is fsynced before it is replaced", "rotation-without-sync", "%s:%d" % (b.file, line),
                 "VLog::append replaces the active writer without fsyncing the file it leaves: VLog::sync later syncs only the new file, so a table can be installed "
                 "whose pointers lead into a file that was never fsynced (lost at power failure)")
    # the new file is registered before it becomes active; active id updated
    reg = sites(cx, b, "VLog::register_vlog_file")
    for i, line in repl:
        cx.check(b.set_dominates([c.bb for c in reg], i), "the new file is registered before it becomes the active writer", "rotate-unregistered", "%s:%d" % (b.file, line))
    st = [c for c in b.calls_to("std::sync::atomic::Atomic::store") if "active_writer_id" in origin_of_operand(b, c.args[0]).field_names()]
    cx.check(bool(st), "rotation publishes the new active file id", "active-id-not-updated", b.where())
    # the whole rotation + append runs under the writer lock
    gs = [g for g in guard_regions(b, lock_wrappers(f)) if g.lock == "VLog.writer" and g.mode == "write"]
    ap = sites(cx, b, "vlog::VLogWriter::append")
    cx.check(bool(gs) and any(ap[0].bb in g.region for g in gs), "entries are appended under the writer lock", "append-unlocked", ap[0].where())


@rule("C11", "C11.R3", "files are deleted only below the live minimum, never the active file; 0 means no references")
def r3(cx):
    f = cx.f
    b = f.body("VLog::cleanup_obsolete_files")
    rm = sites(cx, b, "std::fs::remove_file")
    # the filter closure: id < min && id != active
    preds = f.closures_of(b)
    lt = ne = False
    for cb in preds:
        for cmp_ in comparisons(cb):
            lo, ro = origin_of_operand(cb, cmp_.lhs), origin_of_operand(cb, cmp_.rhs)
            un = lo.upvar_names | ro.upvar_names
            from ..core import REL
            rel = frozenset(REL[cmp_.op])
            side_r = bool(ro.upvar_names)
            if "min_oldest_vlog" in un:
                r2 = rel if side_r else mirror(rel)
                lt = r2 == frozenset({"lt"})
                cx.check(lt, "delete candidates satisfy id < min_oldest_vlog", "cleanup-min-predicate", cmp_.where(),
                         "cleanup_obsolete_files selects files with id %s min_oldest_vlog (expected <): a file still referenced by a live table can be deleted" % rel_str(r2))
            if "active" in un:
                ne = rel == frozenset({"lt", "gt"})
                cx.check(ne, "the active file is never a delete candidate (id != active)", "cleanup-active-predicate", cmp_.where(),
                         "cleanup_obsolete_files compares id %s active" % rel_str(rel))
    cx.check(lt and ne, "the delete filter has both conjuncts (id < min, id != active)", "cleanup-predicate-missing", b.where(),
             "cleanup_obsolete_files lost a conjunct of `id < min_oldest_vlog && id != active`")
    # deletion only of collected ids
    for c in rm:
        cx.check(b.in_cycle(c.bb), "files are removed inside the loop over the collected candidates", "cleanup-shape", c.where())
    # bound provenance at each call site of cleanup_vlog_and_index
    cs = f.callers_of("lsm::cleanup_vlog_and_index")
    cx.floor("cleanup_vlog_and_index call sites", len(cs), 3)
    for c in cs:
        body = c.body
        o = origin_of_operand(body, c.args[2])
        cx.check(o.from_call("LevelManifest::min_oldest_vlog_file_id") and not o.ops, "`%s`: the bound is the manifest's min_oldest_vlog_file_id" % f.fn_of(body).id,
                 "cleanup-bound-source|%s" % f.fn_of(body).id, c.where(),
                 "`%s` calls value-log clean-up with a bound that is not LevelManifest::min_oldest_vlog_file_id()" % f.fn_of(body).id)
        src = [x for x in o.calls if x.names & {"LevelManifest::min_oldest_vlog_file_id"}]
        owner = f.fn_of(body).id
        if owner.endswith("cleanup_orphaned_vlog_files"):
            gs = [g for g in guard_regions(body, lock_wrappers(f)) if g.lock.endswith("level_manifest")]
            cx.check(bool(gs) and all(x.bb in gs[0].region for x in src), "startup clean-up reads the bound under the manifest lock", "cleanup-bound-unlocked|%s" % owner, c.where())
            continue
        ap = body.calls_to("LevelManifest::apply_changeset")
        wr = body.calls_to("levels::write_manifest_to_disk")
        gs = [g for g in guard_regions(body, lock_wrappers(f)) if g.lock.endswith("level_manifest") and g.mode == "write"]
        ok = bool(ap) and bool(wr) and bool(gs) and all(body.set_dominates([w.bb for w in wr], x.bb) and x.bb in gs[0].region for x in src)
        cx.check(ok, "`%s`: the bound is computed under the manifest write lock after the change set reached the disk" % owner, "cleanup-bound-early|%s" % owner, c.where(),
                 "`%s` computes the value-log clean-up bound before the manifest change is durable (or outside the manifest lock): files referenced by the table set "
                 "on disk can be deleted" % owner)
    # min == 0 => nothing deleted
    cb = f.body("lsm::cleanup_vlog_and_index")
    vc = sites(cx, cb, "VLog::cleanup_obsolete_files")
    z = False
    for cmp_ in comparisons(cb):
        if const_value(cmp_.rhs) == 0 and any(cb.local_name(l) == "min_oldest_vlog" for l, _ in origin_of_operand(cb, cmp_.lhs).params):
            cond = cmp_.condition_to_reach(vc[0].bb)
            z = cond is not None and "eq" not in cond
    cx.check(z, "a bound of 0 (no table references the value log) deletes nothing", "cleanup-zero-bound", cb.where(),
             "cleanup_vlog_and_index runs the clean-up with bound 0")
    # min over all tables
    mb = f.body("LevelManifest::min_oldest_vlog_file_id")
    cx.check(bool([c for c in mb.calls if c.primary.endswith("Iterator::min")]) and f.may_reach(mb.id, "LevelManifest::iter"),
             "min_oldest_vlog_file_id is the minimum over every table of the manifest", "min-shape", mb.where())


@rule("C11", "C11.R4", "every pointer written to a table is folded into the table's oldest_vlog_file_id")
def r4(cx):
    f = cx.f
    b = f.body("TableWriter::add")
    dec = sites(cx, b, "vlog::ValueLocation::decode")
    add = sites(cx, b, ["sstable::block::BlockWriter::add", "BlockWriter::add"])
    dom(cx, b, dec, add, "every value (whatever the entry kind) is examined for a value pointer before it is written")
    o = origin_of_operand(b, dec[0].args[0])
    cx.check(any(b.local_name(l) == "val" for l, _ in o.params), "the examined bytes are the value being written", "pointer-probe-source", dec[0].where())
    pd = sites(cx, b, "vlog::ValuePointer::decode")
    # controlled only by is_value_pointer / decode success, not by the key
    for c in pd:
        for cmp_ in comparisons(b):
            lo, ro = origin_of_operand(b, cmp_.lhs), origin_of_operand(b, cmp_.rhs)
            if (lo.from_call("InternalKey::kind") or ro.from_call("InternalKey::kind") or "trailer" in (lo.field_names() | ro.field_names())) and \
                    cmp_.condition_to_reach(c.bb) is not None:
                cx.bad("pointer-bookkeeping-by-kind", "the pointer bookkeeping of TableWriter::add depends on the entry kind", cmp_.where())
    mins = [c for c in b.calls + [x for cb in f.closures_of(b) for x in cb.calls] if c.primary.endswith("Ord::min") or c.primary.endswith("cmp::min")]
    # ... or with an explicit comparison: the value stored back is chosen by `new id < current minimum`
    by_cmp = False
    for bb_ in [b] + list(f.closures_of(b)):
        for cm in comparisons(bb_):
            if cm.kind == "ord" or cm.op not in ("Lt", "Le", "Gt", "Ge"):
                continue
            sides = [origin_of_operand(bb_, cm.lhs, through_calls="all"), origin_of_operand(bb_, cm.rhs, through_calls="all")]
            has_new = any("file_id" in o_.field_names() and o_.from_call("vlog::ValuePointer::decode") for o_ in sides)
            has_cur = any("min_vlog_file_id" in o_.field_names() for o_ in sides)
            if has_new and has_cur:
                by_cmp = True
    cx.check(bool(mins) or by_cmp, "file ids are combined with min() / an explicit `<` against the current minimum", "pointer-min", b.where(), "TableWriter::add no longer keeps the minimum referenced file id")
    fb = f.body("TableWriter::finish")
    okf = False
    for i, j, lhs, rv, line in fb.assigns():
        fs = [p for p in lhs[1:] if isinstance(p, list) and p[0] == "f"]
        if fs and fs[-1][2] == "oldest_vlog_file_id":
            o = origin_of_operand(fb, rv[1] if rv[0] == "use" else (rv[2] if rv[0] == "cast" else ["k", {}]), through_calls="all")
            okf = "min_vlog_file_id" in o.field_names()
    cx.check(okf, "finish() stores the collected minimum in the table properties", "oldest-vlog-not-stored", fb.where())
    enc, dec_ = f.body("vlog::ValuePointer::encode"), f.body("vlog::ValuePointer::decode")
    e = [k for k, _ in codec.ops(enc, codec.W)]
    d = [k for k, _ in codec.ops(dec_, codec.R)]
    cx.table("value pointer codec", [["encode"] + e, ["decode"] + d])
    cx.check(len(e) > 0 and len(d) > 0, "value pointer codec present (%d writes / %d reads)" % (len(e), len(d)), "pointer-codec", enc.where())


@rule("C11", "C11.R5", "index entries are removed before the files they point to")
def r5(cx):
    f = cx.f
    b = f.body("lsm::cleanup_vlog_and_index")
    ix = sites(cx, b, "lsm::cleanup_stale_versioned_index")
    vc = sites(cx, b, "VLog::cleanup_obsolete_files")
    dom(cx, b, ix, vc, "stale index entries are removed before value-log files")
    # the index clean-up is complete before the files go: its scan of the index is exhaustive (no cap, no early break) and
    # every collected key is deleted
    sb = f.body("lsm::cleanup_stale_versioned_index")
    rng = sites(cx, sb, ["BPlusTree::range", "bplustree::tree::BPlusTree::range"])
    nx = [c for c in sb.calls if c.bb in sb.live and c.primary.endswith("Iterator>::next") and sb.in_cycle(c.bb)]
    scan = [c for c in nx if any(x in rng for x in origin_of_operand(sb, c.args[0], through_calls="all").calls)]
    cx.floor("index scan loops in cleanup_stale_versioned_index", len(scan), 1)
    for c in scan:
        exhaustive_loop(cx, sb, c, "the scan for index entries that point into deleted value-log files visits the whole index", "stale-index-scan-capped")
    dl = [c for c in sb.calls if c.bb in sb.live and c.names & {"BPlusTree::delete", "bplustree::tree::BPlusTree::delete"}]
    cx.floor("index deletions in cleanup_stale_versioned_index", len(dl), 1)
    for c in nx:
        if c in scan:
            continue
        if any(d.bb in loop_of(sb, c.bb) for d in dl) or any(loop_of(sb, d.bb) & loop_of(sb, c.bb) for d in dl):
            exhaustive_loop(cx, sb, c, "every collected stale key is deleted from the index", "stale-index-delete-partial")
    for a, c in zip(ix, vc):
        oa, oc = origin_of_operand(b, a.args[1]), origin_of_operand(b, c.args[1])
        cx.check(oa.params == oc.params and not oa.ops and not oc.ops, "both steps use the same bound", "cleanup-bound-mismatch", c.where())
