"""C03 — crash recovery is atomic and prefix-consistent."""
from ..registry import rule
from .walrules import *
from .walrules import _error_arms, _place_enum
from ..core import _rvalue_operands

EXPLANATION = ("Necessary structural conditions of atomic, prefix-consistent recovery: one log record per transaction "
               "(single append outside any loop, encoding of the whole batch); replay stops at the first invalid record and "
               "the reader's error is sticky; the new table and the WAL cut-off are switched by one manifest write, and "
               "merged inputs are deleted only after the manifest reached the disk; a failed manifest write is reverted and "
               "made sticky; orphan clean-up runs only after replay; a whole batch lands in one memtable/segment pair.  Equality "
               "of the recovered state with a commit-order prefix is NOT decided.")
ASSUMPTIONS = ["MIR models control flow faithfully", "rename is atomic"]


@rule("C03", "C03.R1", "one log record per transaction")
def r1(cx):
    rule_one_record_per_txn(cx)


@rule("C03", "C03.R2", "replay stops at the first invalid record; reader errors are sticky")
def r2(cx):
    rule_replay_stops(cx)
    # replay applies segments in ascending order, each record in file order
    f = cx.f
    b = f.body("wal::recovery::replay_wal")
    rd = sites(cx, b, "wal::reader::Reader::read")
    ad = sites(cx, b, "MemTable::add")
    dec = sites(cx, b, "Batch::decode")
    dom(cx, b, rd, dec, "record read before decode")
    dom(cx, b, dec, ad, "decode before apply")
    for c in dec:
        o = origin_of_operand(b, c.args[0])
        cx.check(any(x in rd for x in o.calls), "the decoded bytes are the record just read", "decode-source", c.where())


@rule("C03", "C03.R3", "table + WAL cut-off switch with one manifest write; inputs deleted only afterwards")
def r3(cx):
    f = cx.f
    rule_flush_ordering(cx)
    cleanup_bounds(cx)
    rule_delete_tables_after_manifest(cx)
    ub = f.body("Compactor::update_manifest")
    wr = sites(cx, ub, "levels::write_manifest_to_disk")
    cm = sites(cx, ub, "HiddenTablesGuard::commit")
    dom(cx, ub, wr, cm, "manifest on disk before the hidden-table guard is committed")
    # nothing reachable from update_manifest deletes table files before the manifest write
    rmv = [c for c in ub.calls if c.bb in ub.live and f.call_may_reach(c, {"std::fs::remove_file"}) and not f.call_may_reach(c, {"levels::replace_file_content"})]
    for c in rmv:
        cx.check(ub.set_dominates([x.bb for x in wr], c.bb), "`%s` (may delete files) runs only after the manifest write" % c.primary, "delete-before-manifest|%s" % c.primary, c.where(),
                 "update_manifest can delete files (`%s`) before the new manifest is on disk: a crash or failed write leaves a manifest that references missing tables" % c.primary)
    # who removes table files at all
    n = 0
    for c in f.callers_of("std::fs::remove_file"):
        owner = f.fn_of(c.body).id
        n += 1
    cx.note("remove_file call sites in crate: %d" % n)
    # deleted set == tables_to_merge: changeset.deleted_tables filled from input.tables_to_merge
    ins = [c for c in ub.calls if c.primary.split("::")[-1] == "insert" and "deleted_tables" in origin_of_operand(ub, c.args[0]).field_names()]
    cx.floor("deleted_tables inserts", len(ins), 1)


@rule("C03", "C03.R4", "a failed manifest write is reverted in memory and made sticky")
def r4(cx):
    f = cx.f
    cs = f.callers_of("levels::write_manifest_to_disk")
    n = 0
    for c in cs:
        b = c.body
        owner = f.fn_of(b).id
        if not b.calls_to("LevelManifest::apply_changeset"):
            continue
        n += 1
        e = result_edges(b, c)
        if e is None:
            cx.bad("manifest-write-unbranched|%s" % owner, "`%s` does not branch on write_manifest_to_disk's result" % owner, c.where())
            continue
        ok, err = e
        for pat, what in (("LevelManifest::revert_changeset", "in-memory changeset reverted"), ("BackgroundErrorHandler::set_error", "sticky background error set")):
            T = {x.bb for x in b.calls_to(pat)}
            r = feasible_reach(b, err, avoid=T)
            bad = [x for x, k in exits(b) if x in r and x not in T]
            cx.check(not bad and bool(T), "`%s`: failed manifest write -> %s" % (owner, what), "manifest-fail|%s|%s" % (owner, pat.split("::")[-1]), c.where(),
                     "`%s`: after a failed manifest write the function can return without `%s`: memory and disk disagree about which tables / WAL cut-off are live" % (owner, pat))
        r = feasible_reach(b, err)
        cx.check(not any(x in r for x, k in exits(b) if k == "ok"), "`%s`: failed manifest write returns an error" % owner, "manifest-fail-ok|%s" % owner, c.where())
    cx.floor("apply_changeset + write_manifest_to_disk sites", n, 3)
    # revert restores log_number and last_sequence
    rb = f.body("LevelManifest::revert_changeset")
    fields = set()
    for i, j, lhs, rv, line in rb.assigns():
        fs = [p for p in lhs[1:] if isinstance(p, list) and p[0] == "f"]
        if fs and fs[-1][3].endswith("LevelManifest"):
            fields.add(fs[-1][2])
    cx.check({"log_number", "last_sequence"} <= fields, "revert_changeset restores log_number and last_sequence", "revert-fields", rb.where(),
             "revert_changeset no longer restores %s" % sorted({"log_number", "last_sequence"} - fields))


@rule("C03", "C03.R5", "orphan clean-up only after WAL replay")
def r5(cx):
    f = cx.f
    b = f.body("Core::new")
    rp = sites(cx, b, "Core::replay_wal_with_repair")
    for pat in ("CoreInner::cleanup_orphaned_sst_files", "CoreInner::cleanup_orphaned_vlog_files"):
        cs = sites(cx, b, pat)
        dom(cx, b, rp, cs, "WAL replayed before %s" % pat.split("::")[-1])
    who_calls(cx, ["CoreInner::cleanup_orphaned_sst_files"], {"Core::new"}, "cleanup_orphaned_sst_files callers", "who:orphans")
    # replay uses the manifest's log_number as lower bound
    for c in rp:
        o = origin_of_operand(b, c.args[1])
        cx.check(o.from_call("LevelManifest::get_log_number"), "replay starts at the manifest's log_number", "replay-lower-bound", c.where())
    # orphan test: a table is deleted only if it is not in the manifest
    ob = f.body("CoreInner::cleanup_orphaned_sst_files")
    from ..core import bool_call_condition
    ct = sites(cx, ob, "std::collections::HashSet::contains")
    rm = sites(cx, ob, "std::fs::remove_file")
    for c in rm:
        cond = bool_call_condition(ob, ct[0], c.bb)
        cx.check(cond == frozenset({False}), "an SST file is removed only if the manifest does not list it", "orphan-predicate", c.where(),
                 "cleanup_orphaned_sst_files removes files whose id IS listed in the manifest")
    o = origin_of_operand(ob, ct[0].args[0], through_calls="all")
    cx.check(o.from_call("LevelManifest::get_all_tables"), "the live set comes from the manifest", "orphan-live-set", ct[0].where())


@rule("C03", "C03.R6", "a whole batch lands in one memtable / segment pair")
def r6(cx):
    rule_rotate_not_in_apply(cx)


@rule("C03", "C03.R7", "only the last WAL segment can be torn: rotation seals the outgoing segment")
def r7(cx):
    rule_rotation_seals_segment(cx)
    rule_one_memtable_per_segment(cx)
    rule_replay_window(cx)


@rule("C03", "C03.R8", "commits of the next session are appended directly behind the last complete record")
def r8(cx):
    """Stray bytes left between the last complete record and the writer's position turn every later record of that
    segment into garbage at the following recovery while LATER segments still replay: a non-prefix."""
    rule_open_after_repair(cx)
    rule_append_after_validated_tail(cx)
    rule_repair_temp_fresh(cx)
