"""helpers shared by the per-property rule modules"""
from ..core import (AnchorMissing, guard_regions, origin_of_operand, origin_of_place, strip_generics,
                    last_seg, forward_taint, rvalue_places, _rvalue_operands, place_fields)


def sites(cx, body, pats, what=None, minimum=1, via=False):
    if isinstance(pats, str):
        pats = [pats]
    s = body.calls_to(*pats, via=via)
    if len(s) < minimum:
        raise AnchorMissing("in `%s`: %d call site(s) of %s%s, need >= %d" % (
            body.id, len(s), "/".join(pats), " (transitively)" if via else "", minimum))
    return s


def names(sites_):
    return ",".join(sorted({c.primary.split("::")[-1] for c in sites_}))


def short(c):
    return "%s@%s" % (c.primary, c.where())


def dom(cx, body, A, B, what, key=None):
    """every path from the entry of `body` to each site in B passes a site in A"""
    Ab = body.blocks_of(A)
    ok_all = True
    for b in B:
        ok = (b.bb not in Ab) and body.set_dominates(Ab, b.bb)
        if not ok and b.bb not in Ab:
            # prune paths that contradict a variant fact (e.g. a spliced helper's `return Err(..)` followed by the
            # caller's `?`): sound, feasible_reach over-approximates the feasible paths
            from ..core import feasible_reach
            ok = b.bb not in feasible_reach(body, [0], avoid=Ab)
        k = key or ("dom:%s" % what)
        if not ok:
            p = body.path(0, b.bb, avoid=Ab)
            cx.bad("%s|%s" % (k, body.id), "%s: a path reaches `%s` without passing %s (blocks %s)" % (
                what, b.primary, "/".join(sorted({a.primary for a in A})) or "<none>", p),
                b.where(), fn=body.id)
            ok_all = False
        else:
            cx.ok("%s: `%s` is preceded on every path by %s" % (what, b.primary, names(A)), b.where(), fn=body.id)
    return ok_all


def exits(body):
    """blocks that define the return place `_0`: (bb, kind) kind in ok/err/tail"""
    res = []
    for i, j, lhs, rv, _ in body.assigns():
        if lhs == [0] and i in body.live:
            kind = "tail"
            if rv[0] == "agg" and rv[3] and rv[3].get("adt") == "std::result::Result":
                kind = "ok" if rv[3]["variant"] == "Ok" else "err"
            elif rv[0] == "agg" and rv[3] and rv[3].get("adt") == "std::option::Option":
                kind = "ok" if rv[3]["variant"] == "Some" else "none"
            res.append((i, kind))
    for c in body.calls:
        if c.dest == [0] and c.bb in body.live:
            k = "tail"
            if c.names & {"std::ops::FromResidual::from_residual", "FromResidual::from_residual"} or \
                    any("from_residual" in t for t in c.targets):
                k = "err"
            res.append((c.bb, k))
    return res


def ok_exits(body):
    return [b for b, k in exits(body) if k in ("ok", "tail")]


def err_exits(body):
    return [b for b, k in exits(body) if k == "err"]


def mpt(cx, body, frm, through, what, to=None, key=None):
    """every path from each site in `frm` to an exit in `to` (default: all exits) passes a site in `through`"""
    Tb = set(body.blocks_of(through))
    if to is None:
        to = [b for b, _ in exits(body)] or body.rets
    allok = True
    for a in frm:
        bb = a.bb if hasattr(a, "bb") else a
        r = body.reachable_after([bb], avoid=Tb)
        bad = [e for e in to if e in r and e not in Tb]
        if bad:
            from ..core import feasible_reach, proven_err_exit
            st = {}
            r = feasible_reach(body, list(body.succ[bb]), avoid=Tb, out_states=st)
            # an exit that every such path reaches with Err(..) in the return place is not a success exit
            bad = [e for e in to if e in r and e not in Tb and not proven_err_exit(body, st, e)]
        k = key or ("mpt:%s" % what)
        w = a.where() if hasattr(a, "where") else body.where(bb)
        if bad:
            p = body.path(bb, bad[0], avoid=Tb)
            cx.bad("%s|%s" % (k, body.id), "%s: a path from `%s` reaches the exit at %s without passing %s (blocks %s)" % (
                what, a.primary if hasattr(a, "primary") else "bb%d" % bb, body.where(bad[0]),
                "/".join(sorted({t.primary for t in through})) or "<none>", p), w, fn=body.id)
            allok = False
        else:
            cx.ok("%s: every path from `%s` to %d exit(s) passes %s" % (
                what, a.primary if hasattr(a, "primary") else "bb%d" % bb, len(to), names(through)), w, fn=body.id)
    return allok


def never_after(cx, body, A, B, what, key=None):
    """no site of B is reachable after a site of A"""
    allok = True
    Bb = {b.bb: b for b in B}
    for a in A:
        r = body.reachable_after([a.bb])
        hit = [Bb[x] for x in r if x in Bb]
        if hit:
            cx.bad("%s|%s" % (key or "never_after:" + what, body.id),
                   "%s: `%s` is reachable after `%s`" % (what, hit[0].primary, a.primary), hit[0].where(), fn=body.id)
            allok = False
        else:
            cx.ok("%s: no %s after `%s`" % (what, names(B) or "such call", a.primary), a.where(), fn=body.id)
    return allok


def result_edges(body, call):
    """(ok_blocks, err_blocks): the first blocks of the success / failure continuation of a
    call returning Result, recognising `?`, `match`/`if let` on the result, is_ok()/is_err().
    Returns None if the result is not branched on in a recognised way."""
    if call.target is None:
        return None
    d = call.dest
    if len(d) != 1:
        return None
    holders = {d[0]}
    cur = call.target
    seen = set()
    steps = 0
    while cur is not None and steps < 12:
        steps += 1
        if cur in seen:
            return None
        seen.add(cur)
        bl = body.blocks[cur]
        # propagate moves / refs of the result
        discr_locals = {}
        for st in bl["s"]:
            if st[0] != "=":
                continue
            lhs, rv = st[1], st[2]
            if rv[0] == "use" and rv[1][0] in ("c", "m") and len(rv[1][1]) == 1 and rv[1][1][0] in holders and len(lhs) == 1:
                holders.add(lhs[0])
            if rv[0] == "ref" and len(rv[2]) == 1 and rv[2][0] in holders and len(lhs) == 1:
                holders.add(lhs[0])
            if rv[0] == "discr" and rv[1][0] in holders and len(lhs) == 1:
                inner = [p for p in rv[1][1:] if p != "*"]
                if not inner:
                    discr_locals[lhs[0]] = "result"
        t = bl["t"]
        if t[0] == "call":
            c = body.call_at[cur]
            a0 = c.args[0][1][0] if c.args and c.args[0][0] in ("c", "m") else None
            if a0 in holders:
                if any(n.endswith("Try::branch") for n in c.names):
                    # next: discr of branch result, switch 0=Continue 1=Break
                    nb = c.target
                    bl2 = body.blocks[nb]
                    t2 = bl2["t"]
                    if t2[0] == "switch":
                        ok, err = [], []
                        for v, x in t2[2]:
                            (ok if v == "0" else err).append(x)
                        oth = t2[3]
                        if not err:
                            err.append(oth)
                        elif not ok:
                            ok.append(oth)
                        return ok, err
                    return None
                if c.names & {"std::result::Result::is_err", "std::result::Result::is_ok"}:
                    iserr = "std::result::Result::is_err" in c.names
                    nb = c.target
                    t2 = body.blocks[nb]["t"]
                    if t2[0] == "switch":
                        zero = [x for v, x in t2[2] if v == "0"]
                        other = [t2[3]]
                        return (zero, other) if iserr else (other, zero)
                    return None
                if c.names & {"std::result::Result::map_err", "std::result::Result::map", "std::result::Result::context"}:
                    holders.add(c.dest[0])
                    cur = c.target
                    continue
                return None
            cur = c.target
            continue
        if t[0] == "switch":
            op = t[1]
            if op[0] in ("c", "m") and op[1][0] in discr_locals:
                ok, err = [], []
                for v, x in t[2]:
                    (ok if v == "0" else err).append(x)
                oth = t[3]
                if not err:
                    err.append(oth)
                elif not ok:
                    ok.append(oth)
                return ok, err
            return None
        if t[0] in ("goto", "falseedge", "falseunwind", "drop"):
            cur = body.succ[cur][0] if body.succ[cur] else None
            continue
        return None
    return None


def guards_on(body, field=None, modes=None):
    res = []
    for g in guard_regions(body):
        if field and not g.lock.endswith("." + field) and g.lock != field:
            continue
        if modes and g.mode not in modes:
            continue
        res.append(g)
    return res


def calls_in_region(body, region, exclude_bb=None):
    return [body.call_at[b] for b in sorted(region) if b in body.call_at and b != exclude_bb]


def who_calls(cx, pats, allowed, what, key_prefix, minimum=1, ignore_tests=True):
    """every call site of `pats` in the crate lies in a function whose enclosing named fn is in `allowed`"""
    f = cx.f
    cs = f.callers_of(*pats)
    cx.floor(what, len(cs), minimum)
    allowed = set(allowed)
    for c in cs:
        owner = f.fn_of(c.body)
        al = f.aliases_of(f.canon[owner.id])
        if al & allowed:
            cx.ok("%s: `%s` called from allowed `%s`" % (what, c.primary, owner.id), c.where())
        else:
            cx.bad("%s|%s" % (key_prefix, owner.id), "%s: `%s` is called from `%s`, which is not in the allowed set %s" % (
                what, c.primary, owner.id, sorted(allowed)), c.where(), fn=owner.id)
    return cs


def field_writes(f, owner_suffix, field):
    """all statements / calls that write (assign or take &mut of) the struct field"""
    res = []
    for b in f.scan_bodies():
        for i, j, lhs, rv, line in b.assigns():
            for p in lhs[1:]:
                if isinstance(p, list) and p[0] == "f" and p[2] == field and last_seg(p[3]) == owner_suffix:
                    if p is [x for x in lhs[1:] if isinstance(x, list) and x[0] == "f"][-1]:
                        res.append((b, i, "assign", line))
            if rv[0] == "ref" and rv[1]:
                fs = [x for x in rv[2][1:] if isinstance(x, list) and x[0] == "f"]
                if fs and fs[-1][2] == field and last_seg(fs[-1][3]) == owner_suffix:
                    res.append((b, i, "refmut", line))
    return res


def const_value(op):
    if op[0] == "k" and "v" in op[1]:
        return int(op[1]["v"])
    return None


def fdom(cx, body, A, B, what, key=None):
    """like dom(), but infeasible paths that contradict an enum-variant fact are pruned"""
    from ..core import feasible_reach
    Ab = set(body.blocks_of(A))
    allok = True
    for b in B:
        r = feasible_reach(body, [0], avoid=Ab)
        ok = (b.bb not in r) or (b.bb in Ab and False)
        if b.bb in Ab:
            ok = False
        k = key or ("dom:%s" % what)
        if ok:
            cx.ok("%s: `%s` is preceded on every feasible path by %s" % (what, b.primary, names(A)), b.where(), fn=body.id)
        else:
            cx.bad("%s|%s" % (k, body.id), "%s: a feasible path reaches `%s` without passing %s" % (what, b.primary, names(A)), b.where(), fn=body.id)
            allok = False
    return allok


# ---- field-level read / write summaries of `&mut self` methods -----------------------------------------------
def self_aliases(b):
    """locals that are (re)borrows / copies of the `self` reference (param 1)"""
    S = {1}
    ch = True
    while ch:
        ch = False
        for i, j, lhs, rv, line in b.assigns():
            if len(lhs) != 1 or lhs[0] in S:
                continue
            if rv[0] == "use" and rv[1][0] in ("c", "m") and rv[1][1][0] in S and all(p == "*" for p in rv[1][1][1:]):
                S.add(lhs[0])
                ch = True
            elif rv[0] == "ref" and rv[2][0] in S and all(p == "*" for p in rv[2][1:]):
                S.add(lhs[0])
                ch = True
    return S


def _self_field(S, pl):
    if pl[0] not in S:
        return None
    for p in pl[1:]:
        if isinstance(p, list) and p[0] == "f":
            return p[2]
    return None


def self_field_sites(f, b, callee_writes="must", _stack=()):
    """(reads, writes): field name -> set of blocks of `b` in which the field of *self* is read / written.
    A `&mut self.field` borrow counts as both; a call that passes self on contributes the callee's
    may-read set and its MUST-write set (fields written on every path to the callee's return)."""
    S = self_aliases(b)
    R, W = {}, {}
    for i, j, lhs, rv, line in b.assigns():
        if i not in b.live:
            continue
        fl = _self_field(S, lhs)
        if fl:
            W.setdefault(fl, set()).add(i)
        for pl in rvalue_places(rv):
            fr = _self_field(S, pl)
            if fr:
                R.setdefault(fr, set()).add(i)
                if rv[0] == "ref" and rv[1]:
                    W.setdefault(fr, set()).add(i)
    for c in b.calls:
        if c.bb not in b.live or not c.args:
            continue
        a = c.args[0]
        if a[0] in ("c", "m") and a[1][0] in S and all(p == "*" for p in a[1][1:]):
            for t in c.targets:
                cid = f.canon_to_id.get(t)
                if cid is None or cid in _stack or len(_stack) > 6:
                    continue
                r2, w2 = self_field_summary(f, f.bodies[cid], callee_writes, _stack + (b.id,))
                for x in r2:
                    R.setdefault(x, set()).add(c.bb)
                for x in w2:
                    W.setdefault(x, set()).add(c.bb)
    return R, W


def self_field_summary(f, b, callee_writes="must", _stack=()):
    """(may-read fields, must-write [or may-write] fields) of a method on self"""
    R, W = self_field_sites(f, b, callee_writes, _stack=_stack)
    if callee_writes == "may":
        return set(R), set(W)
    ex = [x for x, k in exits(b)] or b.rets
    must = set()
    for fld, blocks in W.items():
        if all(b.set_dominates(blocks, x) or x in blocks for x in ex):
            must.add(fld)
    return set(R), must


def reach_cut(body, starts, avoid=(), cut_edges=()):
    """blocks reachable from `starts` without expanding `avoid` blocks and without following the CFG edges in
    `cut_edges` (pairs (from_bb, to_bb))"""
    avoid = set(avoid)
    cut = set(cut_edges)
    seen = set(starts)
    st = list(starts)
    while st:
        x = st.pop()
        if x in avoid:
            continue
        for y in body.succ[x]:
            if (x, y) in cut or y in seen:
                continue
            seen.add(y)
            st.append(y)
    return seen


def loop_of(body, bb):
    """blocks of the innermost cycle structure through `bb` (strongly connected with it)"""
    fw = body.reachable_after([bb])
    return {x for x in fw if bb in body.reachable_after([x])} | {bb}


def exhaustive_loop(cx, body, next_call, what, key, ok_exit_blocks=None):
    """the loop driven by `next_call` (an Iterator::next site) is left only when the iterator is exhausted (None edge of the
    match on next()'s result) or on an error path (a target from which no success exit is reachable)"""
    from ..core import option_edges
    cyc = loop_of(body, next_call.bb)
    none_edges = set()
    # (nested loops share one strongly connected region: the None edge of every iterator driven inside it is a regular exit)
    for c in body.calls:
        if c.bb in cyc and c.primary.endswith("Iterator>::next") and len(c.dest) == 1:
            e, sw = option_edges(body, c.dest[0], c.target)
            if e is not None:
                for tgt, lab in e.items():
                    if lab == frozenset({"0"}):
                        none_edges.add((sw, tgt))
    oks = ok_exit_blocks if ok_exit_blocks is not None else [x for x, k in exits(body) if k in ("ok", "tail")]
    bad = []
    for x in sorted(cyc):
        if body.blocks[x]["c"]:
            continue
        for y in body.succ[x]:
            if y in cyc or body.blocks[y]["c"] or (x, y) in none_edges:
                continue
            r = body.reachable_from([y])
            if any(o in r for o in oks):
                bad.append((x, y))
    cx.check(bool(none_edges) and not bad, what, key, next_call.where(),
             "%s: the loop can be left early at %s and still return success" % (what, ", ".join(body.where(x) for x, _ in bad[:3])) if bad else None)
    return not bad
