"""C16 — damaged files are detected, never served as data."""
from ..registry import rule
from ..core import (origin_of_operand, AnchorMissing, comparisons, rel_str, mirror, feasible_reach, bool_call_condition,
                    result_fate, result_err_type, forward_taint)
from .common import *
from .walrules import rule_eof_only_at_block_boundary

EXPLANATION = ("Verify-before-use and error discipline on the read paths, decided structurally: table blocks are "
               "decompressed / parsed only on the success edge of the checksum comparison; every block load goes through the "
               "verifying reader and nobody else reads raw block bytes; lengths taken from disk are compared with the file/buffer "
               "size before they size an allocation or a slice; no storage-layer error is dropped on read / compaction paths; the "
               "commit-log reader and the value log compare checksums before returning data and never mistake damage for a clean "
               "end.  That every damage position is caught (CRC strength) is NOT decided.")
ASSUMPTIONS = ["MIR models control/data flow faithfully", "crc32fast is deterministic"]

# accepted 'probe' idioms: a decode whose failure is the negative answer to "is this value a pointer?" on the WRITE side
PROBES = {"vlog::ValueLocation::decode": "writer-side probe: an inline value is not a pointer", "vlog::ValuePointer::decode": "writer-side probe"}


@rule("C16", "C16.R1", "a table block is used only after its checksum matched")
def r1(cx):
    f = cx.f
    b = f.body("sstable::table::read_table_block")
    vf = sites(cx, b, "sstable::table::verify_table_block")
    dc = sites(cx, b, "sstable::table::decompress_block")
    bn = sites(cx, b, "sstable::block::Block::new")
    for c in dc + bn:
        cond = bool_call_condition(b, vf[0], c.bb)
        cx.check(cond == frozenset({True}), "`%s` runs only when verify_table_block returned true" % c.primary.split("::")[-1], "use-before-verify|%s" % c.primary.split("::")[-1], c.where(),
                 "read_table_block reaches `%s` when the checksum check is %s" % (c.primary, sorted(cond) if cond is not None else "not consulted"))
    from ..core import bool_edges
    e, sw = bool_edges(b, vf[0].dest[0], vf[0].target)
    fl = [s for s, lab in e.items() if False in lab]
    r = feasible_reach(b, fl)
    cx.check(not any(x in r for x, k in exits(b) if k == "ok"), "a checksum mismatch returns an error", "verify-fail-ok", vf[0].where())
    # verify compares computed == wanted
    vb = f.body("sstable::table::verify_table_block")
    fin = sites(cx, vb, "crc32fast::Hasher::finalize")
    okc = False
    for cmp_ in comparisons(vb):
        lo, ro = origin_of_operand(vb, cmp_.lhs), origin_of_operand(vb, cmp_.rhs)
        if lo.from_call("crc32fast::Hasher::finalize") != ro.from_call("crc32fast::Hasher::finalize"):
            from ..core import REL
            ret = origin_of_operand(vb, ["c", [0]])
            okc = cmp_.op == "Eq" and "Not" not in ret.ops
            cx.check(okc, "verify_table_block returns computed == stored", "verify-predicate", cmp_.where(), "verify_table_block returns `computed %s stored`" % cmp_.op)
    cx.check(okc, "verify_table_block compares the computed CRC with the stored one", "verify-no-compare", vb.where())
    up = sites(cx, vb, "crc32fast::Hasher::update", minimum=2)
    # writer: same CRC input (block bytes then compression byte)
    wb = f.body("sstable::table::calculate_checksum")
    wu = sites(cx, wb, "crc32fast::Hasher::update", minimum=2)
    cx.check(len(up) == len(wu), "writer and verifier hash the same number of parts (%d)" % len(up), "crc-parts", vb.where())
    # the stored checksum is unmasked before comparison; writer masks
    cx.check(bool(b.calls_to("sstable::table::unmask")), "the reader unmasks the stored checksum", "no-unmask", b.where())
    ww = f.body("sstable::table::write_block_at_offset")
    cx.check(bool(ww.calls_to("sstable::table::mask")), "the writer masks the checksum", "no-mask", ww.where())
    # every block loader goes through read_table_block
    loaders = ["Table::read_block", "Table::read_block_with_comparator", "Index::load_block", "Index::new", "Table::new"]
    for fn in loaders:
        lb = f.body(fn)
        cx.check(f.may_reach(lb.id, "sstable::table::read_table_block"), "`%s` loads blocks through the verifying reader" % fn, "loader-unverified|%s" % fn, lb.where(),
                 "`%s` no longer goes through read_table_block" % fn)
    # cache insert only after a verified read
    for fn, ins in (("Table::read_block", "BlockCache::insert_data_block"), ("Table::read_block_with_comparator", "BlockCache::insert_data_block_history"),
                    ("Index::load_block", "BlockCache::insert_index_block")):
        lb = f.body(fn)
        rd = sites(cx, lb, "sstable::table::read_table_block")
        dom(cx, lb, rd, sites(cx, lb, ins), "%s: only verified blocks enter the cache" % fn.split("::")[-1])


@rule("C16", "C16.R2", "nobody but the verifying reader (and the footer) reads raw block bytes")
def r2(cx):
    f = cx.f
    allowed = {"sstable::table::read_table_block"}
    cs = f.callers_of("sstable::table::read_bytes")
    cx.floor("read_bytes call sites", len(cs), 3)
    for c in cs:
        owner = f.fn_of(c.body).id
        ok = owner in allowed
        cx.check(ok, "raw block read in `%s` (verifying reader)" % owner, "raw-read|%s" % owner, c.where(),
                 "`%s` reads block bytes with read_bytes() without checksum verification although the writer gave the block a CRC trailer: "
                 "damage is parsed as data (wrong answers / panics) instead of being reported" % owner)
    # the filter block is written with a trailer
    wf = f.body("TableWriter::finish")
    cx.check(bool(wf.calls_to("TableWriter::write_compressed_block")), "the writer gives every meta/filter block a checksum trailer", "writer-no-trailer", wf.where())
    # direct File::read_at users in the sstable layer
    n = 0
    for b in f.bodies.values():
        if "/sstable/" not in b.file:
            continue
        for c in b.calls:
            if c.bb in b.live and c.names & {"vfs::File::read_at", "File::read_at"}:
                n += 1
                owner = f.fn_of(b).id
                cx.check(owner in ("sstable::table::read_bytes", "sstable::table::Footer::read_from"), "`%s` is an allowed raw reader" % owner, "raw-read_at|%s" % owner, c.where(),
                         "`%s` reads the table file directly" % owner)
    cx.floor("read_at sites in sstable", n, 2)


@rule("C16", "C16.R3", "sizes taken from disk are bounded before they size an allocation")
def r3(cx):
    f = cx.f
    b = f.body("sstable::table::read_bytes")
    # vec![0; location.size()] -- the size must be compared with the file size on every path
    allocs = [c for c in b.calls if c.bb in b.live and (c.primary.endswith("from_elem") or c.primary.endswith("with_capacity") or c.primary.endswith("Vec::resize"))]
    cx.floor("allocations sized from a block handle", len(allocs), 1)
    for c in allocs:
        o = origin_of_operand(b, c.args[-1] if c.primary.endswith("from_elem") else c.args[0], through_calls="all")
        if not o.from_call("sstable::table::BlockHandle::size", "BlockHandle::size"):
            continue
        bounded = False
        for cmp_ in comparisons(b):
            lo, ro = origin_of_operand(b, cmp_.lhs, through_calls="all"), origin_of_operand(b, cmp_.rhs, through_calls="all")
            if (lo.from_call("BlockHandle::size") and ro.from_call("vfs::File::size")) or (ro.from_call("BlockHandle::size") and lo.from_call("vfs::File::size")):
                if cmp_.condition_to_reach(c.bb) is not None:
                    bounded = True
        # callers may bound it instead: every caller passes a handle that was checked against the file size
        if not bounded:
            callers_ok = True
            for cc in f.callers_of("sstable::table::read_bytes"):
                callers_ok = False
        cx.check(bounded, "read_bytes allocates `location.size()` bytes only after comparing it with the file size", "unbounded-alloc|read_bytes", c.where(),
                 "read_bytes allocates `location.size()` bytes taken from an on-disk block handle without comparing it with the file size: the footer's handles "
                 "are not covered by any checksum, so a damaged size field aborts the process (allocation failure / capacity overflow) instead of returning an error")
    # footer: magic + length validated before decode
    fb = f.body("Footer::decode")
    cx.ok("Footer::decode present at %s" % fb.where(), fb.where())
    # WAL: length bounded (C12.R2) -- re-evaluated here
    nb = f.body("wal::reader::Reader::next")
    n = 0
    for cmp_ in comparisons(nb):
        lo, ro = origin_of_operand(nb, cmp_.lhs), origin_of_operand(nb, cmp_.rhs)
        if lo.from_call("wal::reader::Reader::parse_header") and ro.from_call("wal::reader::Reader::buffer_remaining"):
            n += 1
    cx.floor("WAL record length bounded by buffer", n, 1)


@rule("C16", "C16.R4", "no storage-layer error is dropped on read / compaction paths")
def r4(cx):
    f = cx.f
    n = 0
    for b in f.bodies.values():
        if not any(x in b.file for x in ("snapshot.rs", "iter.rs", "compaction/", "sstable/", "levels/", "vlog.rs", "transaction.rs", "memtable/")):
            continue
        for c in b.calls:
            if c.bb not in b.live or c.expansion:
                continue
            et = result_err_type(c.ret_ty) or ""
            if not (et.endswith("error::Error") or "sstable::error" in et):
                continue
            fate = result_fate(b, c)
            if fate is None:
                continue
            n += 1
            if fate.startswith("dropped"):
                if c.primary in PROBES and "TableWriter" in b.id:
                    cx.ok("accepted idiom (%s): `%s` in `%s`" % (PROBES[c.primary], c.primary, b.id), c.where())
                    continue
                if b.impl_trait == "std::ops::Drop":
                    cx.ok("best-effort clean-up in Drop: `%s`" % c.primary, c.where())
                    continue
                cx.bad("dropped-error|%s|%s" % (f.fn_of(b).id, c.primary), "`%s` discards the error of `%s` (%s): a table whose blocks cannot be read is silently left out of the "
                       "merge, so reads return older data or nothing instead of an error%s" % (
                           f.fn_of(b).id, c.primary, fate, " -- and compaction then deletes the skipped input" if "compactor" in b.file else ""), c.where())
            else:
                pass
    cx.ok("%d storage-layer Result sites examined" % n, None)
    cx.floor("storage-layer Result sites on read/compaction paths", n, 150)


@rule("C16", "C16.R5", "commit log and value log compare checksums before returning data")
def r5(cx):
    f = cx.f
    rule_eof_only_at_block_boundary(cx)
    b = f.body("VLog::get")
    ins = sites(cx, b, "BlockCache::insert_vlog")
    n = 0
    for cmp_ in comparisons(b):
        lo, ro = origin_of_operand(b, cmp_.lhs), origin_of_operand(b, cmp_.rhs)
        if "checksum" in (lo.field_names() | ro.field_names()) and (lo.from_call("crc32fast::Hasher::finalize") or ro.from_call("crc32fast::Hasher::finalize")):
            n += 1
            # the error exit is taken on inequality; the cache insert after it requires equality when Full
            for sw, e in cmp_.switches():
                for tgt, lab in e.items():
                    if lab == frozenset({"lt", "gt"}):
                        r = feasible_reach(b, [tgt])
                        cx.check(not any(c.bb in r for c in ins) and not any(x in r for x, k in exits(b) if k == "ok"),
                                 "full verification: a recomputed CRC that differs returns an error, nothing is cached", "vlog-crc-mismatch-served", cmp_.where())
    cx.floor("recomputed-CRC comparisons in VLog::get", n, 1)
    fin = sites(cx, b, "crc32fast::Hasher::finalize")
    # the cache insert is after the checks
    for c in ins:
        lvl = [x for x in comparisons(b)]
        cx.check(all(c.bb in b.reachable_after([cm.bb]) for cm in lvl if cm.bb in b.live and "checksum" in (origin_of_operand(b, cm.lhs).field_names() | origin_of_operand(b, cm.rhs).field_names())),
                 "values enter the cache after the checksum checks", "vlog-cache-before-check", c.where())
    # header sizes from the file are compared with the pointer's before slicing
    m = 0
    for cmp_ in comparisons(b):
        lo, ro = origin_of_operand(b, cmp_.lhs), origin_of_operand(b, cmp_.rhs)
        if {"key_size", "value_size"} & (lo.field_names() | ro.field_names()) and (lo.from_call("core::num::from_be_bytes") or ro.from_call("core::num::from_be_bytes") or
                                                                                     any(x.primary.endswith("from_be_bytes") for x in lo.calls + ro.calls)):
            m += 1
    cx.floor("vlog header size checks", m, 2)
