"""C16 — damaged files are detected, never served as data."""
from ..registry import rule
from ..core import (origin_of_operand, AnchorMissing, comparisons, rel_str, mirror, feasible_reach, bool_call_condition,
                    result_fate, result_err_type, forward_taint)
from .common import *
from .walrules import rule_eof_only_at_block_boundary, rule_every_record_crc_checked

EXPLANATION = ("Verify-before-use and error discipline on the read paths, decided structurally: table blocks are "
               "decompressed / parsed only on the success edge of the checksum comparison; every block load goes through the "
               "verifying reader and nobody else reads raw block bytes; lengths taken from disk are compared with the file/buffer "
               "size before they size an allocation or a slice; no storage-layer error is dropped on read / compaction paths; the "
               "commit-log reader and the value log compare checksums before returning data and never mistake damage for a clean "
               "end.  That every damage position is caught (CRC strength) is NOT decided.")
ASSUMPTIONS = ["MIR models control/data flow faithfully", "crc32fast is deterministic"]

# accepted 'probe' idioms: a decode whose failure is the negative answer to "is this value a pointer?" on the WRITE side
PROBES = {"vlog::ValueLocation::decode": "writer-side probe: an inline value is not a pointer", "vlog::ValuePointer::decode": "writer-side probe"}


def verifiers(cx):
    """functions that return Ok only when verify_table_block() answered true for the bytes they read"""
    f = cx.f
    from ..core import bool_edges
    res = {}
    for c in f.callers_of("sstable::table::verify_table_block"):
        b = c.body
        oks = [x for x, k in exits(b) if k in ("ok", "tail")]
        good = bool(oks)
        for x in oks:
            cond = bool_call_condition(b, c, x)
            if cond != frozenset({True}):
                good = False
        if good:
            res[f.canon[b.id]] = (b, c)
    return res


@rule("C16", "C16.R1", "table bytes are used only after their checksum matched")
def r1(cx):
    f = cx.f
    V = verifiers(cx)
    cx.floor("verifying readers", len(V), 1)
    for name, (b, c) in V.items():
        cx.ok("`%s` returns Ok only on the success edge of the checksum comparison" % name, c.where())
        # the verified bytes are the ones read
        o = origin_of_operand(b, c.args[0], through_calls="all")
        cx.check(o.from_call("sstable::table::read_bytes"), "`%s` verifies the bytes it read" % name, "verify-wrong-bytes|%s" % name, c.where())
    Vn = set()
    for n in V:
        Vn |= f.aliases_of(n)
    # consumers of block bytes
    n = 0
    for pat, argi in (("sstable::table::decompress_block", 0), ("sstable::block::Block::new", 0), ("sstable::filter_block::FilterBlockReader::new", 0)):
        for c in f.callers_of(pat):
            b = c.body
            if "/sstable/table.rs" not in b.file and "sstable/table.rs" not in b.file:
                continue
            n += 1
            o = origin_of_operand(b, c.args[argi], through_calls="all")
            via_verifier = bool(o.call_names() & Vn)
            in_verifier = f.canon[b.id] in V and bool_call_condition(b, V[f.canon[b.id]][1], c.bb) == frozenset({True})
            # decompressed data of verified bytes
            cx.check(via_verifier or in_verifier, "`%s` in `%s` consumes checksum-verified bytes" % (pat.split("::")[-1], b.id), "use-before-verify|%s|%s" % (b.id, pat.split("::")[-1]), c.where(),
                     "`%s` hands bytes to `%s` that did not pass through a checksum-verifying read" % (b.id, pat))
    cx.floor("consumers of block bytes", n, 3)
    # verify compares computed == wanted
    vb = f.body("sstable::table::verify_table_block")
    okc = False
    for cmp_ in comparisons(vb):
        lo, ro = origin_of_operand(vb, cmp_.lhs), origin_of_operand(vb, cmp_.rhs)
        if lo.from_call("crc32fast::Hasher::finalize") != ro.from_call("crc32fast::Hasher::finalize"):
            ret = origin_of_operand(vb, ["c", [0]])
            okc = cmp_.op == "Eq" and "Not" not in ret.ops
            cx.check(okc, "verify_table_block returns computed == stored", "verify-predicate", cmp_.where(), "verify_table_block returns `computed %s stored`" % cmp_.op)
    cx.check(okc, "verify_table_block compares the computed CRC with the stored one", "verify-no-compare", vb.where())
    up = sites(cx, vb, "crc32fast::Hasher::update", minimum=2)
    wb = f.body("sstable::table::calculate_checksum")
    wu = sites(cx, wb, "crc32fast::Hasher::update", minimum=2)
    cx.check(len(up) == len(wu), "writer and verifier hash the same number of parts (%d)" % len(up), "crc-parts", vb.where())
    um = f.callers_of("sstable::table::unmask")
    cx.check(bool(um) and all(f.canon[c.body.id] in V for c in um), "the stored checksum is unmasked inside the verifying reader", "no-unmask", vb.where())
    ww = f.body("sstable::table::write_block_at_offset")
    cx.check(bool(ww.calls_to("sstable::table::mask")), "the writer masks the checksum", "no-mask", ww.where())
    # every block loader goes through a verifying reader
    loaders = ["Table::read_block", "Table::read_block_with_comparator", "Index::load_block", "Index::new", "Table::new"]
    for fn in loaders:
        lb = f.body(fn)
        cx.check(bool(f.reach_names(lb.id) & Vn), "`%s` loads blocks through a verifying reader" % fn, "loader-unverified|%s" % fn, lb.where(),
                 "`%s` no longer goes through a checksum-verifying reader" % fn)
    # cache insert only after a verified read
    for fn, ins in (("Table::read_block", "BlockCache::insert_data_block"), ("Table::read_block_with_comparator", "BlockCache::insert_data_block_history"),
                    ("Index::load_block", "BlockCache::insert_index_block")):
        lb = f.body(fn)
        rd = [c for c in lb.calls if c.bb in lb.live and f.call_may_reach(c, Vn)]
        dom(cx, lb, rd, sites(cx, lb, ins), "%s: only verified blocks enter the cache" % fn.split("::")[-1])


@rule("C16", "C16.R2", "nobody but a verifying reader (and the footer) reads raw block bytes")
def r2(cx):
    f = cx.f
    V = verifiers(cx)
    cs = f.callers_of("sstable::table::read_bytes")
    cx.floor("read_bytes call sites", len(cs), 3)
    for c in cs:
        owner = f.fn_of(c.body)
        ok = f.canon[owner.id] in V
        cx.check(ok, "raw block read in `%s`, which verifies the checksum before returning" % owner.id, "raw-read|%s" % owner.id, c.where(),
                 "`%s` reads block bytes with read_bytes() without checksum verification although the writer gave the block a CRC trailer: "
                 "damage is parsed as data (wrong answers / panics) instead of being reported" % owner.id)
    # the filter block is written with a trailer
    wf = f.body("TableWriter::finish")
    cx.check(bool(wf.calls_to("TableWriter::write_compressed_block")), "the writer gives every meta/filter block a checksum trailer", "writer-no-trailer", wf.where())
    # direct File::read_at users in the sstable layer
    n = 0
    for b in f.scan_bodies():
        if "/sstable/" not in b.file:
            continue
        for c in b.calls:
            if c.bb in b.live and c.names & {"vfs::File::read_at", "File::read_at"}:
                n += 1
                owner = f.fn_of(b).id
                cx.check(owner in ("sstable::table::read_bytes", "sstable::table::Footer::read_from"), "`%s` is an allowed raw reader" % owner, "raw-read_at|%s" % owner, c.where(),
                         "`%s` reads the table file directly" % owner)
    cx.floor("read_at sites in sstable", n, 2)


@rule("C16", "C16.R3", "sizes taken from unchecksummed bytes are bounded before they size an allocation")
def r3(cx):
    f = cx.f
    # Block handles come from (a) index / meta-index entries inside CRC-verified blocks -- accepted, the CRC
    # covers them -- and (b) the table footer, which no checksum covers.  (b) must be compared with the file
    # size by the function that turns footer bytes into a Footer, before any handle reaches read_bytes().
    prod = [c for c in f.callers_of("sstable::table::Footer::decode") if "Footer" not in (c.body.self_ty or "")]
    cx.floor("footer decoding sites", len(prod), 1)
    for c in prod:
        b = c.body
        bodies = [b] + f.closures_of(b)
        bound_cmps = []
        for bb_ in bodies:
            for cmp_ in comparisons(bb_):
                lo, ro = origin_of_operand(bb_, cmp_.lhs, through_calls="all"), origin_of_operand(bb_, cmp_.rhs, through_calls="all")
                def is_fs(o, body=bb_):
                    return any(body.local_name(l) == "file_size" for l, _ in o.params) or "file_size" in o.upvar_names or o.from_call("vfs::File::size")
                if is_fs(lo) != is_fs(ro):
                    bound_cmps.append((bb_, cmp_))
        uses_handles = any(x.names & {"BlockHandle::size", "BlockHandle::offset", "sstable::block::BlockHandle::size", "sstable::block::BlockHandle::offset"} for bb_ in bodies for x in bb_.calls)
        # the check must control the Ok exit: some boolean call/comparison in `b` guards every Ok exit
        oks = [x for x, k in exits(b) if k in ("ok", "tail") and x in b.reachable_after([c.bb])]
        guarded = False
        from ..core import bool_edges
        for g in b.calls:
            # a boolean test after the decode one of whose outcomes can only leave through an error exit
            if g.bb in b.live and g.ret_ty == "bool" and g.target is not None and g.bb in b.reachable_after([c.bb]):
                e, sw = bool_edges(b, g.dest[0], g.target)
                if e:
                    for tgt in e:
                        r = feasible_reach(b, [tgt], avoid=[sw])
                        if not any(x in r for x in oks) and any(x in r for x, k in exits(b) if k == "err"):
                            guarded = True
        for bb_, cmp_ in bound_cmps:
            if bb_ is b:
                for sw, e in cmp_.switches():
                    for tgt in e:
                        r = feasible_reach(b, [tgt], avoid=[sw])
                        if not any(x in r for x in oks) and any(x in r for x, k in exits(b) if k == "err"):
                            guarded = True
        cx.check(bool(bound_cmps) and uses_handles and guarded, "`%s` compares the footer's block handles with the file size before returning them" % b.id,
                 "unbounded-footer-handle|%s" % b.id, c.where(),
                 "`%s` returns block handles decoded from the (unchecksummed) footer without comparing offset+size with the file size: read_bytes() then allocates "
                 "`location.size()` bytes, so a damaged size field aborts the process (allocation failure) instead of returning an error" % b.id)
    # read_bytes is the only allocation sized by a handle
    rb = f.body("sstable::table::read_bytes")
    allocs = [c for c in rb.calls if c.bb in rb.live and (c.primary.endswith("from_elem") or c.primary.endswith("with_capacity"))]
    cx.floor("allocations sized from a block handle", len(allocs), 1)
    # WAL: record length bounded by the buffer (C12.R2) -- re-evaluated here
    nb = f.body("wal::reader::Reader::next")
    n = 0
    for cmp_ in comparisons(nb):
        lo, ro = origin_of_operand(nb, cmp_.lhs), origin_of_operand(nb, cmp_.rhs)
        if lo.from_call("wal::reader::Reader::parse_header") and ro.from_call("wal::reader::Reader::buffer_remaining"):
            n += 1
    cx.floor("WAL record length bounded by buffer", n, 1)


@rule("C16", "C16.R4", "no storage-layer error is dropped on read / compaction paths")
def r4(cx):
    f = cx.f
    n = 0
    for b in f.scan_bodies():
        if not any(x in b.file for x in ("snapshot.rs", "iter.rs", "compaction/", "sstable/", "levels/", "vlog.rs", "transaction.rs", "memtable/")):
            continue
        for c in b.calls:
            if c.bb not in b.live or c.expansion:
                continue
            et = result_err_type(c.ret_ty) or ""
            if not (et.endswith("error::Error") or "sstable::error" in et):
                continue
            fate = result_fate(b, c)
            if fate is None:
                continue
            n += 1
            if fate.startswith("dropped"):
                if not f.call_can_fail(c):
                    cx.ok("`%s` cannot return Err today (every return is Ok(..)): discarding its Result in `%s` loses nothing" % (c.primary, b.id), c.where())
                    continue
                if c.primary in PROBES and "TableWriter" in b.id:
                    cx.ok("accepted idiom (%s): `%s` in `%s`" % (PROBES[c.primary], c.primary, b.id), c.where())
                    continue
                if b.impl_trait == "std::ops::Drop":
                    cx.ok("best-effort clean-up in Drop: `%s`" % c.primary, c.where())
                    continue
                cx.bad("dropped-error|%s|%s" % (f.fn_of(b).id, c.primary), "`%s` discards the error of `%s` (%s): a table whose blocks cannot be read is silently left out of the "
                       "merge, so reads return older data or nothing instead of an error%s" % (
                           f.fn_of(b).id, c.primary, fate, " -- and compaction then deletes the skipped input" if "compactor" in b.file else ""), c.where())
            else:
                pass
    cx.ok("%d storage-layer Result sites examined" % n, None)
    cx.floor("storage-layer Result sites on read/compaction paths", n, 150)


@rule("C16", "C16.R5", "commit log and value log compare checksums before returning data")
def r5(cx):
    f = cx.f
    rule_eof_only_at_block_boundary(cx)
    rule_every_record_crc_checked(cx)
    b = f.body("VLog::get")
    ins = sites(cx, b, "BlockCache::insert_vlog")
    n = 0
    for cmp_ in comparisons(b):
        lo, ro = origin_of_operand(b, cmp_.lhs), origin_of_operand(b, cmp_.rhs)
        if "checksum" in (lo.field_names() | ro.field_names()) and (lo.from_call("crc32fast::Hasher::finalize") or ro.from_call("crc32fast::Hasher::finalize")):
            n += 1
            # the error exit is taken on inequality; the cache insert after it requires equality when Full
            for sw, e in cmp_.switches():
                for tgt, lab in e.items():
                    if lab == frozenset({"lt", "gt"}):
                        r = feasible_reach(b, [tgt])
                        cx.check(not any(c.bb in r for c in ins) and not any(x in r for x, k in exits(b) if k == "ok"),
                                 "full verification: a recomputed CRC that differs returns an error, nothing is cached", "vlog-crc-mismatch-served", cmp_.where())
    cx.floor("recomputed-CRC comparisons in VLog::get", n, 1)
    fin = sites(cx, b, "crc32fast::Hasher::finalize")
    # the cache insert is after the checks
    for c in ins:
        lvl = [x for x in comparisons(b)]
        cx.check(all(c.bb in b.reachable_after([cm.bb]) for cm in lvl if cm.bb in b.live and "checksum" in (origin_of_operand(b, cm.lhs).field_names() | origin_of_operand(b, cm.rhs).field_names())),
                 "values enter the cache after the checksum checks", "vlog-cache-before-check", c.where())
    # header sizes from the file are compared with the pointer's before slicing
    m = 0
    for cmp_ in comparisons(b):
        lo, ro = origin_of_operand(b, cmp_.lhs), origin_of_operand(b, cmp_.rhs)
        if {"key_size", "value_size"} & (lo.field_names() | ro.field_names()) and (lo.from_call("core::num::from_be_bytes") or ro.from_call("core::num::from_be_bytes") or
                                                                                     any(x.primary.endswith("from_be_bytes") for x in lo.calls + ro.calls)):
            m += 1
    cx.floor("vlog header size checks", m, 2)
