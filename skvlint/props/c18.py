"""C18 — the B+tree index is a persistent ordered map (thin structural clause set)."""
from ..registry import rule
from ..core import origin_of_operand, AnchorMissing, const_eval, feasible_reach, mirror
from .common import *

EXPLANATION = ("A deliberately thin set of structural necessary conditions for the B+tree: every mutation of the persistent header "
               "(root, free list head, page counters, first leaf) is followed by a header write on every successful path; only page "
               "allocation grows the file; nodes unlinked by merges / root collapse and overflow chains of removed cells are freed; "
               "search, insert, delete and the cursors all order keys with the one comparator stored in the tree; the header "
               "encoder and decoder agree on the offset of every field.  Ordered-map equivalence and split/merge arithmetic are NOT decided.")
ASSUMPTIONS = ["MIR models control/data flow faithfully"]

HDR = "bplustree::tree::Header"
TREE = "bplustree::tree::BPlusTree<F>"


def header_writes(b):
    res = []
    for i, j, lhs, rv, line in b.assigns():
        fs = [p for p in lhs[1:] if isinstance(p, list) and p[0] == "f"]
        if fs and fs[-1][3] == HDR:
            res.append((i, fs[-1][2], line))
    return res


@rule("C18", "C18.R1", "every header mutation is persisted; pages are allocated and freed in pairs")
def r1(cx):
    f = cx.f
    n = 0
    for b in f.scan_bodies():
        if not b.file.endswith("bplustree/tree.rs") or b.kind not in ("method", "fn"):
            continue
        if b.name in ("with_file", "deserialize", "serialize"):
            continue
        hw = header_writes(b)
        if not hw:
            continue
        wh = [c for c in b.calls if c.bb in b.live and f.call_must_reach(c, {"BPlusTree::write_header"})]
        oks = [x for x, k in exits(b) if k in ("ok", "tail")] or b.rets
        for i, fld, line in hw:
            n += 1
            T = {c.bb for c in wh}
            r = feasible_reach(b, list(b.succ[i]), avoid=T) if i not in T else set()
            bad = [x for x in oks if x in r and x not in T]
            # an assignment in the same block as the exit counts as un-persisted too
            if i in oks and i not in T:
                bad.append(i)
            cx.check(not bad, "`%s`: header.%s is written to disk before returning Ok" % (b.id, fld), "header-not-persisted|%s|%s" % (b.id, fld), "%s:%d" % (b.file, line),
                     "`%s` changes header.%s and can return Ok without write_header(): after close + reopen the tree uses the stale %s (lost keys / leaked pages)" % (b.id, fld, fld))
    cx.floor("header field mutations", n, 7)
    # only allocate_page grows total_pages
    for b in f.scan_bodies():
        for i, fld, line in header_writes(b):
            if fld == "total_pages" and b.name not in ("with_file",):
                cx.check(b.name == "allocate_page", "total_pages is only changed by allocate_page", "who:total_pages|%s" % b.id, "%s:%d" % (b.file, line),
                         "`%s` changes header.total_pages" % b.id)
    # merges and root collapse free what they unlink
    for fn in ("BPlusTree::merge_leaf_nodes", "BPlusTree::merge_internal_nodes", "BPlusTree::handle_empty_root"):
        b = f.body(fn)
        fr = [c for c in b.calls if c.bb in b.live and f.call_may_reach(c, {"BPlusTree::free_page"})]
        oks = [x for x, k in exits(b) if k in ("ok", "tail")]
        wn = [c for c in b.calls if c.bb in b.live and f.call_may_reach(c, {"BPlusTree::write_node_owned", "BPlusTree::write_node"})]
        cx.check(bool(fr), "`%s` frees the page it unlinks" % fn, "no-free|%s" % fn, b.where(), "`%s` no longer frees the node it removes from the tree: the page leaks" % fn)
        if fn != "BPlusTree::handle_empty_root" and fr:
            unl = [c for c in b.calls if c.bb in b.live and c.primary.endswith("Vec::remove") and "children" in origin_of_operand(b, c.args[0]).field_names()]
            cx.check(bool(unl), "`%s` unlinks the right child from the parent" % fn, "merge-no-unlink|%s" % fn, b.where())
            for u in unl:
                okk, w = b.must_pass(u.bb, [c.bb for c in fr], exits=oks)
                cx.check(okk, "`%s`: once the child is unlinked every successful path frees its page" % fn, "merge-without-free|%s" % fn, u.where(),
                         "`%s` unlinks a child from its parent and can return Ok without freeing the page: it leaks" % fn)
    # deleting / overwriting a cell with an overflow chain frees the chain
    for fn in ("BPlusTree::delete", "BPlusTree::insert"):
        b = f.body(fn)
        cx.check(f.may_reach(b.id, "BPlusTree::free_overflow_chain"), "`%s` can release overflow chains of removed/replaced cells" % fn, "overflow-leak|%s" % fn, b.where(),
                 "`%s` no longer reaches free_overflow_chain: overflow pages of deleted or overwritten entries leak" % fn)
    fb = f.body("BPlusTree::free_node_with_overflow")
    fo = sites(cx, fb, "BPlusTree::free_overflow_chain", minimum=2)
    fp = sites(cx, fb, "BPlusTree::free_page")
    for x in [x for x, k in exits(fb) if k in ("ok", "tail")]:
        cx.check(fb.set_dominates([c.bb for c in fp], x) or x in {c.bb for c in fp}, "free_node_with_overflow always frees the node page itself", "node-page-leak", fb.where(x))
    # free_page validates the offset before touching the free list
    pb = f.body("BPlusTree::free_page")
    cx.check(bool(pb.calls_to("quick_cache::sync::Cache::remove")) or f.may_reach(pb.id, "remove"), "freed pages are evicted from the node cache", "freed-page-cached", pb.where(),
             "free_page no longer evicts the page from the node cache: a recycled page can be served with its old content")


def _link_writes(b):
    """(line, role of the node written, field, origin of the value) for every write of a leaf-chain link"""
    res = []
    for i, j, lhs, rv, line in b.assigns():
        if i not in b.live:
            continue
        fs = [p for p in lhs[1:] if isinstance(p, list) and p[0] == "f"]
        if not fs or fs[-1][2] not in ("prev_leaf", "next_leaf") or not fs[-1][3].endswith("LeafNode"):
            continue
        root = lhs[0]
        if 1 <= root <= b.argc:
            role = "param%d" % root
        else:
            ds = b.defs().get(root, [])
            cs = [d[2].primary.split("::")[-1] for d in ds if d[0] == "call"]
            role = "new" if "new" in cs else ("read" if any(x.startswith("extract_leaf") for x in cs) else "other")
        o = origin_of_operand(b, rv[1]) if rv[0] == "use" else None
        res.append((line, role, fs[-1][2], o))
    return res


@rule("C18", "C18.R4", "leaf chain: split and merge keep next/prev links mutually consistent")
def r4(cx):
    rule_leaf_chain(cx)


def rule_leaf_chain(cx):
    """Backward cursors walk prev_leaf, forward cursors next_leaf.  Necessary conditions decided here, by value
    provenance: in split_leaf the NEW node is linked behind the old leaf and in front of the old successor
    (old.next = new, new.prev = old, new.next = old's former next, successor.prev = new); in merge_leaf_nodes the
    successor of the removed right node is linked back to the surviving left node."""
    f = cx.f
    b = f.body("BPlusTree::split_leaf")
    lw = _link_writes(b)
    cx.floor("link writes in split_leaf", len(lw), 4)
    leafp = [i for i in range(1, b.argc + 1) if "LeafNode" in b.local_ty(i)]
    if len(leafp) != 1:
        raise AnchorMissing("split_leaf: expected one LeafNode parameter")
    lp = leafp[0]

    def names_new(o):
        return o is not None and o.from_call("LeafNode::new") and not o.params

    def names_old(o):
        # (flow-insensitive: `*leaf` is later overwritten with LeafNode::new(leaf_offset), so that call may appear too)
        return o is not None and any(p[0] == lp for p in o.params) and "offset" in {x[1] for x in o.fields}

    seen = set()
    for line, role, fld, o in lw:
        w = "%s:%d" % (b.file, line)
        if role == "read" and fld == "prev_leaf":
            seen.add("succ.prev")
            cx.check(names_new(o), "split: the old successor's prev_leaf names the new node", "split-link|succ.prev", w,
                     "split_leaf links the old successor back to a node other than the newly created right half: a backward cursor stepping from the "
                     "successor skips every entry of the new node (history/backward scans lose versions), and the wrong link is persisted")
        elif role == "param%d" % lp and fld == "next_leaf":
            seen.add("old.next")
            cx.check(names_new(o), "split: the old leaf's next_leaf names the new node", "split-link|old.next", w,
                     "split_leaf does not link the old leaf forward to the new right half: forward scans skip the new node")
        elif role == "new" and fld == "prev_leaf":
            seen.add("new.prev")
            cx.check(names_old(o), "split: the new node's prev_leaf names the old leaf", "split-link|new.prev", w,
                     "split_leaf gives the new node a prev_leaf that is not the old leaf's offset")
        elif role == "new" and fld == "next_leaf":
            seen.add("new.next")
            cx.check(o is not None and ("next_leaf" in {x[1] for x in o.fields}) and any(p[0] == lp for p in o.params), "split: the new node inherits the old leaf's next_leaf",
                     "split-link|new.next", w, "split_leaf gives the new node a next_leaf that is not the old leaf's former successor")
    cx.check(seen >= {"succ.prev", "old.next", "new.prev", "new.next"}, "split_leaf writes all four links", "split-link|missing", b.where(),
             "split_leaf no longer writes %s" % sorted({"succ.prev", "old.next", "new.prev", "new.next"} - seen))
    # the successor that is re-linked is the node the new node now points to
    for c in sites(cx, b, "BPlusTree::read_node"):
        o = origin_of_operand(b, c.args[1])
        cx.check("next_leaf" in {x[1] for x in o.fields}, "split: the node re-linked is the one at the inherited next_leaf", "split-link|which-successor", c.where())
    m = f.body("BPlusTree::merge_leaf_nodes")
    lwm = _link_writes(m)
    left = [i for i in range(1, m.argc + 1) if m.local_ty(i).startswith("&mut") and "LeafNode" in m.local_ty(i)]
    right = [i for i in range(1, m.argc + 1) if m.local_ty(i).endswith("LeafNode") and not m.local_ty(i).startswith("&")]
    if len(left) != 1 or len(right) != 1:
        raise AnchorMissing("merge_leaf_nodes: expected (&mut LeafNode left, LeafNode right) parameters")
    sp = [x for x in lwm if x[1] == "read" and x[2] == "prev_leaf"]
    cx.floor("successor re-link in merge_leaf_nodes", len(sp), 1)
    for line, role, fld, o in sp:
        ok = o is not None and {p[0] for p in o.params} == {left[0]} and "offset" in {x[1] for x in o.fields} and not o.calls
        cx.check(ok, "merge: the successor's prev_leaf names the surviving left node", "merge-link|succ.prev", "%s:%d" % (m.file, line),
                 "merge_leaf_nodes links the successor of the removed node back to something other than the surviving left node: backward cursors "
                 "follow a freed page / skip entries")
    for c in sites(cx, m, "BPlusTree::read_node"):
        o = origin_of_operand(m, c.args[1])
        cx.check({p[0] for p in o.params} == {right[0]} and "next_leaf" in {x[1] for x in o.fields}, "merge: the node re-linked is the removed node's successor",
                 "merge-link|which-successor", c.where())
    mr = f.body("LeafNode::merge_from_right")
    nx = [x for x in _link_writes(mr) if x[2] == "next_leaf" and x[1] == "param1"]
    cx.floor("merge_from_right inherits next_leaf", len(nx), 1)
    for line, role, fld, o in nx:
        cx.check(o is not None and {p[0] for p in o.params} == {2} and "next_leaf" in {x[1] for x in o.fields}, "merge: the survivor inherits the removed node's next_leaf",
                 "merge-link|left.next", "%s:%d" % (mr.file, line))


@rule("C18", "C18.R2", "one key order: every comparison uses the comparator stored in the tree")
def r2(cx):
    f = cx.f
    n = 0
    for b in f.scan_bodies():
        if not b.file.endswith("bplustree/tree.rs"):
            continue
        for c in b.calls:
            if c.bb not in b.live:
                continue
            if c.primary.split("::")[-1] == "compare" and "Comparator" in (c.callee.get("trait") or ""):
                n += 1
                o = origin_of_operand(b, c.args[0], through_calls="all")
                ok = "compare" in o.field_names() or any(b.local_name(l) == "compare" for l, _ in o.params) or "compare" in o.upvar_names or \
                    any(u.endswith("compare") for u in o.upvar_names)
                cx.check(ok, "`%s` compares keys with the tree's comparator" % b.id, "foreign-comparator|%s" % b.id, c.where(),
                         "`%s` compares keys with a comparator that is not the one stored in the tree" % b.id)
            if c.names & {"InternalNode::find_child_index", "LeafNode::find_key", "LeafNode::insert", "LeafNode::delete"}:
                o = origin_of_operand(b, c.args[-1] if c.primary.endswith("find_child_index") or c.primary.endswith("find_key") or c.primary.endswith("delete") else c.args[-1], through_calls="all")
                cands = [origin_of_operand(b, a, through_calls="all") for a in c.args]
                ok = any("compare" in x.field_names() or any(b.local_name(l) == "compare" for l, _ in x.params) for x in cands)
                cx.check(ok, "`%s` passes the tree's comparator to %s" % (b.id, c.primary.split("::")[-1]), "foreign-comparator-arg|%s|%s" % (b.id, c.primary.split("::")[-1]), c.where())
    cx.floor("comparator uses in the B+tree", n, 4)
    # plain byte comparison of keys (slice Ord) in search paths would bypass the comparator
    for fn in ("InternalNode::find_child_index", "LeafNode::find_key", "LeafNode::insert"):
        b = f.body(fn)
        bad = [c for c in b.calls + [x for cb in f.closures_of(b) for x in cb.calls] if (c.callee.get("trait") in ("std::cmp::Ord", "std::cmp::PartialOrd")) and "[u8]" in (c.callee.get("self") or "")]
        cx.check(not bad, "`%s` does not compare keys bytewise behind the comparator's back" % fn, "bytewise-compare|%s" % fn, b.where())


@rule("C18", "C18.R3", "header encoder and decoder agree on every field's offset")
def r3(cx):
    f = cx.f
    sb = f.body("bplustree::tree::Header::serialize")
    db = f.body("bplustree::tree::Header::deserialize")
    enc = {}
    defs = sb.defs()

    def range_of(local):
        """constants (start, end) of the `a..b` range used to index the slice that `local` refers to"""
        seen, work = set(), [local]
        while work:
            l = work.pop()
            if l in seen:
                continue
            seen.add(l)
            for d in defs.get(l, ()):
                if d[0] == "assign":
                    rv = d[3]
                    if rv[0] == "agg" and rv[3] and rv[3].get("adt", "").endswith("ops::Range"):
                        a, b_ = const_eval(f, sb, rv[2][0]), const_eval(f, sb, rv[2][1])
                        return (a, b_)
                    for pl in rvalue_places(rv):
                        work.append(pl[0])
                else:
                    for a in d[2].args:
                        if a[0] in ("c", "m"):
                            work.append(a[1][0])
        return None
    for c in sb.calls:
        if c.bb in sb.live and c.primary.endswith("copy_from_slice"):
            src = origin_of_operand(sb, c.args[1], through_calls="all")
            flds = sorted(x for x in src.field_names() if x and x in ("root_offset", "trunk_page_head", "total_pages", "first_leaf_offset", "free_page_count", "magic", "version"))
            rg = range_of(c.args[0][1][0]) if c.args[0][0] in ("c", "m") else None
            if flds and rg:
                enc[flds[0]] = rg
    dec = {}
    for i, j, lhs, rv, line in db.assigns():
        if rv[0] == "agg" and rv[3] and rv[3].get("adt") == HDR:
            for fld, op in zip(rv[3]["fields"], rv[2]):
                o = origin_of_operand(db, op, through_calls="all")
                rd = [x for x in o.calls if x.primary.split("::")[-1] in ("read_u64_be", "read_u32_be")]
                if rd:
                    off = const_eval(f, db, rd[0].args[1])
                    width = 8 if rd[0].primary.endswith("read_u64_be") else 4
                    dec[fld] = (off, off + width)
    cx.table("b+tree header layout", [[k, str(enc.get(k)), str(dec.get(k))] for k in sorted(set(enc) | set(dec))])
    want = {"root_offset", "trunk_page_head", "total_pages", "first_leaf_offset", "free_page_count"}
    cx.check(want <= set(enc) and want <= set(dec), "all five persistent fields are encoded and decoded", "header-codec-fields", sb.where(),
             "header codec misses %s" % sorted((want - set(enc)) | (want - set(dec))))
    for k in sorted(want & set(enc) & set(dec)):
        cx.check(enc[k] == dec[k], "header.%s: written at bytes %s, read from bytes %s" % (k, enc[k], dec[k]), "header-codec|%s" % k, sb.where(),
                 "header.%s is written at bytes %s but read from bytes %s" % (k, enc[k], dec[k]))
    # no two fields overlap
    spans = sorted(enc.values())
    cx.check(all(a[1] <= b[0] for a, b in zip(spans, spans[1:])), "encoded header fields do not overlap", "header-overlap", sb.where())
    wb = f.body("BPlusTree::write_header")
    cx.check(f.may_reach(wb.id, "bplustree::tree::Header::serialize"), "write_header serialises the in-memory header", "write_header-source", wb.where())


def _additive_const(f, b, op, depth=0):
    """if `op` is (const + x) or (x + const) through at most a few moves, the constant; 0 if it is a plain value; None if
    the shape is anything else"""
    if op[0] not in ("c", "m") or depth > 6:
        return 0 if op[0] in ("c", "m") else None
    pl = op[1]
    ds = b.defs().get(pl[0], [])
    ds = [d for d in ds if d[0] == "assign"]
    if len(ds) != 1:
        return 0
    rv = ds[0][3]
    if rv[0] == "use":
        return _additive_const(f, b, rv[1], depth + 1)
    if rv[0] == "cast":
        return _additive_const(f, b, rv[2], depth + 1)
    if rv[0] == "bin" and rv[1].startswith("Add"):
        a, c = const_eval(f, b, rv[2]), const_eval(f, b, rv[3])
        if a is not None and c is None:
            return a
        if c is not None and a is None:
            return c
        return None
    if rv[0] == "bin":
        return None
    return 0


@rule("C18", "C18.R5", "overflow pages: the reader accepts every payload length the writer can produce")
def r5(cx):
    """Entries larger than a page are spilled into a chain of overflow pages; every page of a chain except the last is
    filled to capacity, and SQLite-style sizing makes full last pages common.  Decided with constants folded: the largest
    `data_len` that OverflowPage::deserialize accepts (from its rejection comparison) is >= OverflowPage::max_data_size(),
    the chunk size the writer cuts payloads into; and the reader never slices past the page."""
    from ..core import comparisons
    f = cx.f
    db = f.body("OverflowPage::deserialize")
    mb = f.body("OverflowPage::max_data_size")
    PAGE = f.const("bplustree::tree::PAGE_SIZE") if True else 4096
    # writer side: max_data_size() is a constant expression
    wmax = None
    for i, j, lhs, rv, line in mb.assigns():
        if lhs == [0]:
            ops = [const_eval(f, mb, op) for op in ([rv[1]] if rv[0] == "use" else [rv[2], rv[3]] if rv[0] == "bin" else [])]
            if rv[0] == "use" and ops[0] is not None:
                wmax = ops[0]
            elif rv[0] == "bin" and None not in ops and rv[1].startswith("Sub"):
                wmax = ops[0] - ops[1]
    if wmax is None:
        for i, j, lhs, rv, line in mb.assigns():
            if rv[0] == "bin" and rv[1].startswith("Sub"):
                a, b_ = const_eval(f, mb, rv[2]), const_eval(f, mb, rv[3])
                if a is not None and b_ is not None:
                    wmax = a - b_
    if wmax is None:
        raise AnchorMissing("OverflowPage::max_data_size is not a constant expression")
    cx.note("writer: overflow chunk size = %d" % wmax)
    oks = [x for x, k in exits(db) if k in ("ok", "tail")]
    n = 0
    for cm in comparisons(db):
        for lenop, kop, flip in ((cm.lhs, cm.rhs, False), (cm.rhs, cm.lhs, True)):
            lo = origin_of_operand(db, lenop)
            if not (any(x.primary.endswith("from_be_bytes") or x.primary.endswith("read_u32_be") for x in lo.calls)):
                continue
            K = const_eval(f, db, kop)
            if K is None:
                continue
            # additive offset on the length side (header + data_len)
            H = _additive_const(f, db, lenop) if lo.ops else 0
            if H is None:
                continue
            if any(o for o in lo.ops if not o.startswith("Add")):
                continue
            for sw, e in cm.switches():
                acc = set()
                for tgt, lab in e.items():
                    lab2 = mirror(lab) if flip else lab
                    r = db.reachable_from([tgt])
                    if any(o in r for o in oks):
                        acc |= set(lab2)
                if not acc or acc == {"lt", "eq", "gt"}:
                    continue
                n += 1
                # accepted: (H + len) REL K for REL in acc
                if "gt" in acc:
                    continue  # no upper limit from this test
                rmax = (K - H) if "eq" in acc else (K - H - 1)
                cx.check(rmax >= wmax, "reader accepts data_len up to %d, writer produces chunks of up to %d" % (rmax, wmax), "overflow-len-boundary", cm.where(),
                         "OverflowPage::deserialize rejects data_len > %d but the writer fills overflow pages with up to %d bytes: a page that is exactly full cannot be read "
                         "back once the node cache is cold (after close + reopen every entry whose spilled part ends on a page boundary, and every multi-page chain, is lost)" % (rmax, wmax))
                cx.check(rmax + (H if H else 13) <= PAGE, "the accepted length keeps the payload inside the page", "overflow-len-too-lax", cm.where())
    cx.floor("length validations in OverflowPage::deserialize", n, 1)


@rule("C18", "C18.R6", "a separator key and its overflow pointer are replaced together")
def r6(cx):
    """Keys that do not fit an internal node keep their tail in an overflow chain addressed by `key_overflows[i]`; writing the
    node re-uses a non-zero pointer as it is.  Whoever replaces `keys[i]` of an internal node must therefore also replace or
    reset `key_overflows[i]` -- otherwise the node is persisted as `new key's prefix + old key's tail` (lookups after a
    reopen descend into the wrong child) or the old chain leaks.  Sibling cross-check: the internal-node redistributions do
    it, the leaf redistributions must too."""
    f = cx.f
    n = 0
    for b in f.scan_bodies():
        if not b.file.endswith("bplustree/tree.rs") or b.kind not in ("method", "fn"):
            continue
        reps = []
        for c in b.calls:
            if c.bb in b.live and c.primary.endswith("IndexMut<I>>::index_mut") or (c.bb in b.live and c.primary.split("::")[-1] == "index_mut"):
                o = origin_of_operand(b, c.args[0])
                if any(own.endswith("InternalNode") and nm == "keys" for own, nm in o.fields):
                    # an assignment through the returned reference
                    if any(len(lhs) >= 2 and lhs[1] == "*" and c in origin_of_operand(b, ["c", [lhs[0]]]).calls for i, j, lhs, rv, line in b.assigns() if i in b.live):
                        reps.append(c)
        if not reps:
            continue
        sets = [c for c in b.calls if c.bb in b.live and (c.names & {"InternalNode::set_overflow_at"} or
                (c.primary.split("::")[-1] == "index_mut" and any(own.endswith("InternalNode") and nm == "key_overflows" for own, nm in origin_of_operand(b, c.args[0]).fields)))]
        oks = [x for x, k in exits(b) if k in ("ok", "tail")] or b.rets
        for c in reps:
            n += 1
            T = {x.bb for x in sets}
            r = b.reachable_after([c.bb], avoid=T)
            bad = [x for x in oks if x in r and x not in T]
            cx.check(not bad, "`%s`: replacing a separator also replaces its overflow pointer" % b.id, "separator-overflow-stale|%s" % b.name, c.where(),
                     "`%s` overwrites `keys[i]` of an internal node and can return without touching `key_overflows[i]`: the node is written with the new key's on-page "
                     "prefix and the OLD key's overflow chain -- after close + reopen lookups compare against a key nobody inserted and entries are not found" % b.id)
    cx.floor("separator replacements in internal nodes", n, 4)


SHIFTS = {"insert", "remove", "split_off", "drain", "truncate", "swap_remove", "pop", "append", "retain", "clear"}
PARALLEL = {"InternalNode": ("keys", ("key_overflows",)), "LeafNode": ("keys", ("values", "cell_overflows"))}


@rule("C18", "C18.R7", "the per-slot vectors of a node are shifted together")
def r7(cx):
    """`keys[i]`, `values[i]` / `key_overflows[i]` / `cell_overflows[i]` describe one slot.  An operation that moves slots in
    `keys` (insert / remove / split_off / pop / append ...) must move the same slots in every parallel vector in the same
    function; writing the overflow pointer IN PLACE at the insertion index instead leaves every later key with its right
    neighbour's overflow chain: the page image stores `key prefix + wrong tail`, and after a reopen lookups route wrongly
    (or the open fails), while the overwritten chain leaks."""
    f = cx.f
    n = 0
    for b in f.scan_bodies():
        if not b.file.endswith("bplustree/tree.rs") or b.kind not in ("method", "fn") or "::tests::" in b.id:
            continue
        ops = {}
        for c in b.calls:
            if c.bb not in b.live or not c.args:
                continue
            k = c.primary.split("::")[-1]
            if k not in SHIFTS or "Vec" not in c.primary:
                continue
            o = origin_of_operand(b, c.args[0], through_calls="all")
            for own, fl in o.fields:
                own = own.split("::")[-1].split("<")[0]
                if own in PARALLEL and (fl == PARALLEL[own][0] or fl in PARALLEL[own][1]):
                    ops.setdefault((own, fl), set()).add(k)
        for own, (lead, others) in PARALLEL.items():
            lk = ops.get((own, lead), set())
            if not lk and not any(ops.get((own, o)) for o in others):
                continue
            for o in others:
                n += 1
                ok_ = ops.get((own, o), set())
                cx.check(lk == ok_, "`%s`: `%s.%s` and `%s.%s` are shifted by the same operations" % (b.id, own, lead, own, o),
                         "parallel-vector-shift|%s|%s.%s" % (b.name, own, o), b.where(),
                         "`%s` moves the slots of `%s.%s` with {%s} but those of `%s.%s` with {%s}: from the touched index on, every slot is paired with its neighbour's "
                         "%s" % (b.id, own, lead, ", ".join(sorted(lk)) or "-", own, o, ", ".join(sorted(ok_)) or "-", "overflow chain" if "overflow" in o else "value"))
    cx.floor("(function, parallel vector) pairs with slot-moving operations", n, 18)


@rule("C18", "C18.R8", "a leaf is written in place only after the capacity test said the cell fits")
def r8(cx):
    """`insert_into_leaf` frees the old cell's overflow chain and rewrites the page; the page writer rejects a leaf that
    needs more than a page.  The only thing that keeps that from happening is `can_fit_entry`, which prices the NEW cell
    (on-page bytes are not monotone in the payload size: a payload just above the local limit keeps ~half a KiB on the
    page and spills the rest, a slightly smaller one stays on the page whole).  Any way to reach the in-place write with
    the capacity test false -- an `or` with a cheaper test on value lengths -- makes some overwrite fail after the old
    chain was already freed: the stored leaf then points at free pages."""
    f = cx.f
    from ..core import bool_call_condition
    n = 0
    # the in-place write = `LeafNode::insert` outside the split routine (which makes room first).  It may sit in a helper:
    # then the capacity test is looked for at the helper's call sites.
    sites_ = []
    for c in f.callers_of("LeafNode::insert"):
        wb = f.fn_of(c.body)
        if "split" in wb.name or "::tests::" in wb.id:
            continue
        if any(x.bb in wb.live and x.primary.split("::")[-1] == "can_fit_entry" for x in wb.calls):
            sites_.append((wb, c))
        else:
            short_ty = (wb.self_ty or "").split("<")[0].split("::")[-1]
            for c2 in f.callers_of("%s::%s" % (short_ty, wb.name)):
                sites_.append((f.fn_of(c2.body), c2))
    for b, w in sites_:
        cf = [c for c in b.calls if c.bb in b.live and c.primary.split("::")[-1] == "can_fit_entry"]
        n += 1
        conds = [bool_call_condition(b, c, w.bb) for c in cf]
        ok = any(cnd == frozenset({True}) for cnd in conds)
        cx.check(ok, "`%s`: the in-place leaf write is reached only when can_fit_entry is true" % b.id, "leaf-write-without-capacity-test|%s" % b.name, w.where(),
                 "`%s` can reach the in-place leaf write (`%s`) although `can_fit_entry` said no (or without asking): the leaf is rewritten with a cell whose on-page size was never "
                 "priced; when it does not fit the write fails AFTER the old overflow chain was freed, and the stored leaf points at free pages" % (b.id, w.primary.split("::")[-1]))
    cx.floor("in-place leaf writes", n, 1)
