"""E3 tables of the key-range / bound predicates compared with oracles derived from the property statement"""
from ..core import AnchorMissing
from ..e3 import Region, E3Error


def bool_table(f, fn):
    """[(cond dict raw, bool)] for a function returning bool"""
    b = f.body(fn)
    r = Region(b, 0, force_bool_return=True)
    rows = []
    for lf in r.run():
        if lf.outcome != ("return",):
            raise E3Error("%s: path does not return (%s)" % (fn, lf.outcome))
        if lf.ret is None or lf.ret[0] != "c":
            raise E3Error("%s: symbolic return %s" % (fn, lf.ret))
        rows.append((lf.cond, bool(lf.ret[1])))
    return b, rows


def norm_rel(atom, value, left_pred):
    """'rel(A,B)' + lt/eq/gt -> relation of LEFT vs RIGHT where LEFT is the name satisfying left_pred"""
    inner = atom[4:-1]
    # split on the top-level comma
    depth = 0
    for i, ch in enumerate(inner):
        if ch in "([":
            depth += 1
        elif ch in ")]":
            depth -= 1
        elif ch == "," and depth == 0:
            a, b = inner[:i], inner[i + 1:]
            break
    else:
        raise E3Error("cannot split %s" % atom)
    if left_pred(a) and not left_pred(b):
        return value
    if left_pred(b) and not left_pred(a):
        return {"lt": "gt", "gt": "lt", "eq": "eq"}[value]
    raise E3Error("cannot orient %s" % atom)


def check_bound_predicate(cx, fn, bound_atom_suffix, is_key, oracle, what, key):
    """oracle: dict variant -> frozenset(relations key-vs-bound for which the predicate is TRUE) | True | False"""
    f = cx.f
    b, rows = bool_table(f, fn)
    table = {}
    for cond, val in rows:
        var = None
        rel = None
        extra = {}
        for a, v in cond.items():
            if a.startswith("variant(") and a.endswith(bound_atom_suffix + ")"):
                var = v
            elif a.startswith("rel("):
                rel = norm_rel(a, v, is_key)
            else:
                extra[a] = v
        table.setdefault((var, tuple(sorted(extra.items()))), {})[rel] = val
    out = []
    ok = True
    for (var, extra), m in sorted(table.items(), key=lambda x: str(x)):
        want = oracle.get(var)
        if want is None:
            ok = False
            out.append([str(var), str(extra), "unexpected variant", str(m)])
            continue
        if want is True or want is False:
            got = set(m.values())
            good = got == {want}
            out.append([str(var), str(extra), "always %s" % want, str(sorted(m.items(), key=str))])
        else:
            truth = frozenset(r for r, v in m.items() if v)
            rels = set(m.keys())
            good = rels == {"lt", "eq", "gt"} and truth == want
            out.append([str(var), str(extra), "true iff key %s bound" % sorted(want), "true iff %s" % sorted(truth)])
        ok = ok and good
    cx.table("%s decision table" % fn, out)
    missing = set(oracle) - {k[0] for k in table}
    cx.check(ok and not missing, "%s: decision table equals the oracle (%d rows)" % (what, len(out)), key, b.where(),
             "%s: decision table differs from the oracle: %s%s" % (what, [r for r in out if r[2] != r[3] and not r[2].startswith("always")][:3], " missing variants %s" % sorted(missing) if missing else ""))
    return rows
