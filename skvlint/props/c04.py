"""C04 — first committer wins.  Structural necessary conditions of the commit critical section."""
from ..registry import rule
from ..core import guard_regions, lock_wrappers, origin_of_operand, AnchorMissing
from .common import *

EXPLANATION = ("Necessary structural conditions of write-write conflict detection, decided on the MIR of "
               "every path of CommitPipeline::commit and CommitOracle: the conflict check, sequence "
               "allocation, oracle publish, enqueue and WAL write form one critical section under "
               "write_mutex with no suspension point; nobody else may call the oracle or allocate "
               "sequence numbers; the conflict check precedes any effect; the GC horizon is clamped by "
               "the committer's own snapshot; removals from the conflict map keep the map's stated "
               "retention invariant; the conflict predicate's comparison shape.  Interleavings are NOT "
               "explored: the rules are schedule-independent.")
ASSUMPTIONS = ["rustc's MIR (mir_built) is a faithful control-flow model of the source",
               "parking_lot::Mutex provides mutual exclusion", "panics are not counted as exits"]

from .pipeline import *


@rule("C04", "C04.R1", "check, seq allocation, publish, enqueue and WAL write share one write_mutex section")
def r1(cx):
    b = commit_body(cx)
    g = write_mutex_guard(cx, b)
    inside = [
        ("conflict check", sites(cx, b, "CommitOracle::check")),
        ("sequence allocation", [c for c in sites(cx, b, "std::sync::atomic::Atomic::fetch_add")
                                 if "log_seq_num" in origin_of_operand(b, c.args[0]).field_names()]),
        ("oracle publish", sites(cx, b, "CommitOracle::publish")),
        ("enqueue", sites(cx, b, "CommitQueue::enqueue")),
        ("WAL write", sites(cx, b, "CommitEnv::write")),
    ]
    for what, ss in inside:
        if not ss:
            raise AnchorMissing("no %s call in commit()" % what)
        for c in ss:
            cx.check(c.bb in g.region, "%s (`%s`) executes while write_mutex is held" % (what, c.primary),
                     "outside-lock:%s" % what, c.where(),
                     "%s (`%s`) is reachable without holding write_mutex" % (what, c.primary))
    # order inside the section
    order = [x[1] for x in inside]
    for (wa, A), (wb, B) in zip(inside, inside[1:]):
        dom(cx, b, A, B, "%s before %s" % (wa, wb), key="order:%s<%s" % (wa, wb))
    ys = [y for y in b.yields if y in g.region]
    cx.check(not ys, "no suspension point (await) inside the write_mutex section", "yield-in-section",
             b.where(ys[0]) if ys else g.call.where(), "an .await is reachable while write_mutex is held")
    ap = sites(cx, b, "CommitEnv::apply")
    for c in ap:
        cx.check(c.bb not in g.region, "memtable apply runs after write_mutex is released", "apply-under-lock", c.where())
    # the lock is taken exactly once and dominates everything above
    dom(cx, b, [g.call], inside[0][1], "write_mutex.lock() before the conflict check")


@rule("C04", "C04.R2", "only the commit pipeline drives the oracle and the sequence allocator")
def r2(cx):
    who_calls(cx, ["CommitOracle::check"], {"CommitPipeline::commit"}, "oracle.check callers", "who:check")
    who_calls(cx, ["CommitOracle::publish"], {"CommitPipeline::commit"}, "oracle.publish callers", "who:publish")
    who_calls(cx, ["CommitOracle::rollback"], {"CommitPipeline::commit"}, "oracle.rollback callers", "who:rollback", minimum=2)
    who_calls(cx, ["CommitOracle::reset_for_restore"], {"CommitPipeline::reset_oracle_for_restore"},
              "oracle.reset_for_restore callers", "who:reset")
    who_calls(cx, ["CommitPipeline::reset_oracle_for_restore"], {"Tree::restore_from_checkpoint"},
              "reset_oracle_for_restore callers", "who:reset2")
    who_calls(cx, ["CommitPipeline::commit"], {"Core::commit"}, "CommitPipeline::commit callers", "who:commit")
    who_calls(cx, ["Core::commit"], {"Transaction::commit"}, "Core::commit callers", "who:corecommit")
    log_seq_num_writers(cx)
    # restore resets the oracle inside the lock_writes region
    rb = cx.f.body("Tree::restore_from_checkpoint")
    gs = [g for g in guard_regions(rb, lock_wrappers(cx.f)) if g.lock.endswith("write_mutex")]
    if not gs:
        cx.bad("restore-no-lock", "restore_from_checkpoint does not hold the commit write lock", rb.where())
    else:
        for c in sites(cx, rb, "CommitPipeline::reset_oracle_for_restore"):
            cx.check(c.bb in gs[0].region, "oracle reset happens while commits are locked out", "reset-outside-lock", c.where())


@rule("C04", "C04.R3", "a detected conflict leaves before any effect")
def r3(cx):
    b = commit_body(cx)
    chk = sites(cx, b, "CommitOracle::check")
    fa = [c for c in sites(cx, b, "std::sync::atomic::Atomic::fetch_add")]
    for c in chk:
        e = result_edges(b, c)
        if e is None:
            cx.bad("check-result-unbranched", "the result of oracle.check is not branched on (`?`/match) right after the call", c.where())
            continue
        ok, err = e
        # error continuation: no effect call reachable
        eff = sites(cx, b, ["CommitOracle::publish", "CommitQueue::enqueue", "CommitEnv::write", "CommitEnv::apply",
                            "std::sync::atomic::Atomic::fetch_add"])
        r = b.reachable_from(err)
        hit = [x for x in eff if x.bb in r]
        cx.check(not hit, "the conflict arm of oracle.check reaches no effect (publish/enqueue/WAL/apply/seq alloc)",
                 "conflict-arm-effect", c.where(),
                 "after a failed oracle.check the code still reaches `%s`" % (hit[0].primary if hit else ""))
        errx = set(err_exits(b))
        r_ok = b.reachable_from(err)
        cx.check(any(x in r_ok for x in errx), "the conflict arm returns an error", "conflict-arm-noerr", c.where())
    dom(cx, b, chk, fa, "conflict check before sequence allocation")


@rule("C04", "C04.R4", "the oracle's GC horizon is clamped by the committer's own snapshot")
def r4(cx):
    b = commit_body(cx)
    pub = sites(cx, b, "CommitOracle::publish")
    for c in pub:
        if len(c.args) < 5:
            raise AnchorMissing("publish() no longer takes (self, keys, seq, count, oldest_active)")
        o = origin_of_operand(b, c.args[4])
        viamin = [x for x in o.calls if x.names & {"std::cmp::Ord::min", "Ord::min", "std::cmp::min"}]
        cx.check(bool(viamin), "publish's oldest_active argument is produced by a min()", "no-min", c.where(),
                 "publish's oldest_active no longer flows through min(..., start_seq): kept_since may pass the committer's snapshot")
        for m in viamin:
            srcs = [origin_of_operand(b, a, through_calls=True) for a in m.args]
            names_ = set()
            for s in srcs:
                names_ |= s.call_names()
            has_env = "CommitEnv::oldest_active_start_seq" in names_
            # start_seq is the coroutine's captured argument: an upvar field read named start_seq
            has_start = any("start_seq" in (b.local_name(l) or "") for s in srcs for (l, _) in s.params) or \
                any(_reads_upvar(b, a, "start_seq") for a in m.args)
            cx.check(has_env, "min() combines the tracker's oldest active start", "min-no-env", m.where())
            cx.check(has_start, "min() combines the committing transaction's own start_seq", "min-no-start", m.where(),
                     "the clamp no longer includes the committing transaction's own start_seq")
    # oldest_active_start_seq combines both trackers with min
    ob = cx.f.body("CoreInner::oldest_active_start_seq")
    a = sites(cx, ob, "SnapshotTracker::first")
    t = sites(cx, ob, "ActiveTxnTracker::oldest")
    m = sites(cx, ob, ["std::cmp::Ord::min", "std::cmp::min"])
    cx.ok("oldest_active_start_seq consults snapshot tracker (%d), txn tracker (%d) and min (%d)" % (len(a), len(t), len(m)), ob.where())


def _reads_upvar(body, op, name):
    """does operand derive from the closure/coroutine upvar called `name`?"""
    if op[0] not in ("c", "m"):
        return False
    return name in origin_of_operand(body, op).upvar_names


def _removal_restores_displaced(cx, b, rm):
    """A removal of one key's entry is also sound when the entry is the stamp of a commit that is being rolled back and that
    stamp displaced nothing: the function consults a record of displaced stamps for the same key on every path to the removal,
    and on the sibling arm writes the displaced stamp back into the conflict map."""
    key_o = origin_of_operand(b, rm.args[1]) if len(rm.args) > 1 else None
    side = []
    for c in b.calls:
        if c.bb not in b.live or c is rm or not any(t.startswith("std::collections::HashMap::") for t in c.targets):
            continue
        if c.primary.split("::")[-1] not in ("remove", "get", "remove_entry", "get_mut"):
            continue
        o = origin_of_operand(b, c.args[0]) if c.args else None
        if not o or oracle_roles(cx.f)["map"] in o.field_names() or not o.field_names():
            continue
        side.append(c)
    side_dom = [c for c in side if b.set_dominates([c.bb], rm.bb)]
    if not side_dom:
        return False
    restores = []
    for c in b.calls:
        if c.bb not in b.live or c.primary.split("::")[-1] != "insert" or not any(t.startswith("std::collections::HashMap::") for t in c.targets):
            continue
        o = origin_of_operand(b, c.args[0])
        if oracle_roles(cx.f)["map"] not in o.field_names() or len(c.args) < 3:
            continue
        vo = origin_of_operand(b, c.args[2])
        if any(x in side_dom for x in vo.calls):
            restores.append(c)
    cx.note("rollback: removal at %s is guarded by a displaced-stamp lookup (%d) with %d restoring insert(s)" % (rm.where(), len(side_dom), len(restores)))
    # the restoring insert and the removal are alternatives (neither reaches the other)
    return bool(restores) and all(rm.bb not in b.reachable_after([r.bb]) and r.bb not in b.reachable_after([rm.bb]) or b.in_cycle(rm.bb) for r in restores)


_ROLES = {}


def oracle_roles(f):
    """Names of the oracle's state fields by ROLE, discovered from the code (a renamed private field keeps its role):
    `map`   = the HashMap that `check` looks every key up in,
    `floor` = the scalar field `check` compares its start-sequence parameter (3rd) with."""
    key = id(f)
    if key in _ROLES:
        return _ROLES[key]
    b = f.body("CommitOracle::check")
    mp = None
    for c in b.calls:
        if c.bb in b.live and c.names & {"std::collections::HashMap::get"} and c.args:
            for own, nm in origin_of_operand(b, c.args[0]).fields:
                if nm not in ("inner", "data", "0", "") and not nm.isdigit():
                    mp = nm
    floor = None
    for i, j, lhs, rv, line in b.assigns():
        if rv[0] == "bin" and rv[1] in ("Lt", "Le", "Gt", "Ge"):
            sides = [origin_of_operand(b, rv[2]), origin_of_operand(b, rv[3])]
            for x, y in (sides, sides[::-1]):
                if any(pl == 3 for pl, _ in x.params) and not y.params and not any(c.names & {"std::collections::HashMap::get"} for c in y.calls):
                    cand = [nm for own, nm in y.fields if nm not in ("inner", "data", "0", "") and not nm.isdigit() and nm != mp]
                    if len(cand) == 1:
                        floor = cand[0]
    if mp is None or floor is None:
        raise AnchorMissing("CommitOracle::check: conflict map / window floor fields not recognised (map=%s floor=%s)" % (mp, floor))
    _ROLES[key] = {"map": mp, "floor": floor}
    return _ROLES[key]


@rule("C04", "C04.R5", "removals from the conflict map keep `every commit >= kept_since is recorded`")
def r5(cx):
    n = 0
    for body in cx.f.scan_bodies():
        if not body.file.endswith("oracle.rs"):
            continue
        for c in body.calls:
            if c.bb not in body.live:
                continue
            meth = c.primary.split("::")[-1]
            if not any(t.startswith("std::collections::HashMap::") for t in c.targets):
                continue
            if meth not in ("remove", "retain", "clear", "remove_entry", "drain", "extract_if"):
                continue
            o = origin_of_operand(body, c.args[0]) if c.args else None
            if not o or oracle_roles(cx.f)["map"] not in o.field_names():
                continue
            n += 1
            owner = cx.f.fn_of(body)
            # the same function must raise kept_since (assign the field) on every path through the removal
            raises = []
            for i, j, lhs, rv, line in owner.assigns():
                fs = [p for p in lhs[1:] if isinstance(p, list) and p[0] == "f"]
                if fs and fs[-1][2] == oracle_roles(cx.f)["floor"]:
                    raises.append(i)
            for cb in cx.f.closures_of(owner):
                pass
            good = bool(raises) and all(True for _ in raises)
            if good:
                # the assignment must be on every path to the removal or after it on every path to exit
                before = owner.set_dominates(raises, c.bb) if body is owner else True
                after = owner.must_pass(c.bb, raises)[0] if body is owner else True
                good = before or after
            if not good and body is owner:
                good = _removal_restores_displaced(cx, owner, c)
            cx.check(good, "`%s` removes conflict-map entries (%s) and advances kept_since on the same path, or only forgets a stamp that displaced nothing" % (owner.id, meth),
                     "map-removal|%s.%s" % (owner.id, meth), c.where(),
                     "`%s` removes entries from the conflict map (%s) without advancing kept_since: an earlier "
                     "committer's stamp for that key can be forgotten, so a transaction that began before it passes check()" % (owner.id, meth))
    cx.floor("conflict-map removal sites", n, 3)


@rule("C04", "C04.R6", "shape of the conflict predicate")
def r6(cx):
    b = cx.f.body("CommitOracle::check")
    cmps = []
    for i, j, lhs, rv, line in b.assigns():
        if rv[0] == "bin" and rv[1] in ("Lt", "Le", "Gt", "Ge", "Eq", "Ne"):
            l = origin_of_operand(b, rv[2])
            r = origin_of_operand(b, rv[3])
            cmps.append((i, rv[1], l, r, line))
    retry = conflict = 0
    for i, op, l, r, line in cmps:
        lk = _kind(b, l)
        rk = _kind(b, r)
        norm = _normalize(op, lk, rk)
        if norm is None:
            continue
        rel, a, bb_ = norm
        # which arm is taken when the comparison is TRUE
        t = b.blocks[i]["t"]
        true_arm = _true_arm(b, i)
        if {a, bb_} == {"start_seq", "kept_since"}:
            retry += 1
            cx.check(rel == ("start_seq", "Lt", "kept_since"), "retry <=> start_seq < kept_since", "retry-predicate",
                     "%s:%d" % (b.file, line), "the retry predicate is `%s %s %s`, expected start_seq < kept_since" % rel)
            cx.check(true_arm is not None and _arm_returns(b, true_arm, "TransactionRetry"),
                     "the true arm of the retry test returns TransactionRetry", "retry-arm", "%s:%d" % (b.file, line))
        elif {a, bb_} == {"start_seq", "committed"}:
            conflict += 1
            cx.check(rel == ("committed", "Gt", "start_seq"), "conflict <=> committed > start_seq", "conflict-predicate",
                     "%s:%d" % (b.file, line), "the conflict predicate is `%s %s %s`, expected committed > start_seq" % rel)
            ok_arm = true_arm is not None and _arm_returns(b, true_arm, "TransactionWriteConflict")
            if true_arm is None and b.blocks[i].get("inl"):
                # the test is the result of a closure handed to a higher-order function (`keys.any(|k| ..)`): the verdict
                # reaches the caller as that call's boolean; its true arm must return the conflict (the polarity inside
                # the combinator chain is not decided here)
                ok_arm = _combinator_verdict_returns(b, "TransactionWriteConflict")
            cx.check(ok_arm, "the true arm of the conflict test returns TransactionWriteConflict", "conflict-arm", "%s:%d" % (b.file, line))
    cx.floor("retry comparisons", retry, 1)
    cx.floor("conflict comparisons", conflict, 1)
    # every key is looked up: the lookup sits in the loop over `keys`, and the Ok exit is only reached from the loop exit
    look = sites(cx, b, "std::collections::HashMap::get")
    for c in look:
        cx.check(b.in_cycle(c.bb), "the conflict lookup runs once per key (inside the key loop)", "lookup-not-in-loop", c.where())
        o = origin_of_operand(b, c.args[0])
        cx.check(oracle_roles(cx.f)["map"] in o.field_names(), "lookup consults the conflict map", "lookup-map", c.where())
    # publish stamps every key
    pb = cx.f.body("CommitOracle::publish")
    ins = sites(cx, pb, "std::collections::HashMap::insert")
    for c in ins:
        cx.check(pb.in_cycle(c.bb), "publish stamps every key (insert inside the key loop)", "insert-not-in-loop", c.where())


def _kind(b, o):
    roles = oracle_roles(b.facts)
    if roles["floor"] in o.field_names():
        return "kept_since"
    for (l, _) in o.params:
        if l == 3 or b.local_name(l) == "start_seq":
            return "start_seq"
    if roles["map"] in o.field_names() or any(c.names & {"std::collections::HashMap::get"} for c in o.calls):
        return "committed"
    return None


_FLIP = {"Lt": "Gt", "Gt": "Lt", "Le": "Ge", "Ge": "Le", "Eq": "Eq", "Ne": "Ne"}


def _normalize(op, lk, rk):
    if lk is None or rk is None:
        return None
    if lk == "start_seq" and rk == "kept_since":
        return (lk, op, rk), lk, rk
    if lk == "kept_since" and rk == "start_seq":
        return (rk, _FLIP[op], lk), lk, rk
    if lk == "committed" and rk == "start_seq":
        return (lk, op, rk), lk, rk
    if lk == "start_seq" and rk == "committed":
        return (rk, _FLIP[op], lk), lk, rk
    return None


def _true_arm(b, i):
    t = b.blocks[i]["t"]
    if t[0] != "switch":
        return None
    # switch on bool: value 0 -> false target; otherwise -> true
    zero = [x for v, x in t[2] if v == "0"]
    if zero:
        return t[3]
    return None


def _combinator_verdict_returns(b, variant):
    from ..core import bool_edges
    for c in b.calls:
        if c.bb not in b.live or c.ret_ty != "bool" or c.copy_of or c.callee.get("local"):
            continue
        # a higher-order call in the function's own code whose closure argument was spliced in
        if c.hof and len(c.dest) == 1:
            e, sw = bool_edges(b, c.dest[0], c.target)
            if e:
                for tgt, lab in e.items():
                    if lab == frozenset({True}) and _arm_returns(b, tgt, variant):
                        return True
    return False


def _arm_returns(b, start, variant):
    """the arm starting at block `start` constructs error::Error::<variant> before anything else of note"""
    seen = set()
    cur = start
    for _ in range(6):
        if cur in seen:
            break
        seen.add(cur)
        for st in b.blocks[cur]["s"]:
            if st[0] == "=" and st[2][0] == "agg" and st[2][3] and st[2][3].get("variant") == variant:
                return True
        if len(b.succ[cur]) != 1:
            break
        cur = b.succ[cur][0]
    return False


@rule("C04", "C04.R7", "a transaction is registered as active from begin until commit/rollback")
def r7(cx):
    nb = cx.f.body("Transaction::new")
    reg = sites(cx, nb, "ActiveTxnTracker::register")
    # the guard produced by register flows into the txn_guard field of the constructed Transaction
    aggs = [(i, rv) for i, j, lhs, rv, _ in nb.assigns()
            if rv[0] == "agg" and rv[3] and rv[3].get("adt", "").endswith("transaction::Transaction")]
    if not aggs:
        raise AnchorMissing("Transaction::new no longer constructs Transaction")
    for i, rv in aggs:
        fields = rv[3]["fields"]
        if "txn_guard" not in fields:
            raise AnchorMissing("Transaction has no txn_guard field")
        op = rv[2][fields.index("txn_guard")]
        o = origin_of_operand(nb, op)
        cx.check(o.from_call("ActiveTxnTracker::register"), "Transaction.txn_guard holds the tracker registration",
                 "txn_guard-not-registered", nb.where(i),
                 "Transaction is constructed with a txn_guard that does not come from ActiveTxnTracker::register")
        dom(cx, nb, reg, [type("S", (), {"bb": i, "primary": "Transaction{..}", "where": lambda self=None, i=i: nb.where(i)})()],
            "registration precedes construction")
    # the registration is released in commit only after Core::commit succeeded
    cb = cx.f.coroutine_of("Transaction::commit")
    cc = sites(cx, cb, "Core::commit")
    # the conflict window handed to the pipeline is the horizon recorded at begin, for every transaction mode
    for c in cc:
        o = origin_of_operand(cb, c.args[3])
        cx.check("start_seq_num" in o.field_names() and not o.calls and not o.ops and not (o.field_names() - {"start_seq_num", ""}),
                 "commit validates against the transaction's begin-time horizon (Transaction.start_seq_num, unmodified)", "conflict-window-source", c.where(),
                 "Transaction::commit passes a conflict-validation sequence that is not (only) its begin-time start_seq_num (%s): commits between begin and commit are invisible "
                 "to the write-write check" % (sorted(o.field_names()) + [x.primary for x in o.calls]))
    pb = cx.f.coroutine_of("Core::commit")
    for c in sites(cx, pb, "CommitPipeline::commit"):
        cx.check("start_seq" in origin_of_operand(pb, c.args[3]).upvar_names and not origin_of_operand(pb, c.args[3]).ops, "Core::commit forwards start_seq unchanged", "conflict-window-forward", c.where())
    ck = sites(cx, commit_body(cx), "CommitOracle::check")
    for c in ck:
        o = origin_of_operand(commit_body(cx), c.args[2])
        cx.check("start_seq" in o.upvar_names and not o.ops and not o.calls, "oracle.check receives the caller's start_seq unchanged", "conflict-window-check", c.where())
    rel = []
    for i, j, lhs, rv, line in cb.assigns():
        fs = [p for p in lhs[1:] if isinstance(p, list) and p[0] == "f"]
        if fs and fs[-1][2] == "txn_guard":
            rel.append(i)
    for c in cb.calls:
        if c.names & {"std::option::Option::take"} and c.args:
            o = origin_of_operand(cb, c.args[0])
            if "txn_guard" in o.field_names():
                rel.append(c.bb)
    cx.floor("txn_guard releases in Transaction::commit", len(rel), 1)
    pollb = await_polls(cb, cc)
    for r in rel:
        # released after the pipeline commit was awaited, or on a path that never commits (empty write-set)
        ok = cb.set_dominates([p for p in pollb], r) or not ({c.bb for c in cc} & cb.reachable_after([r]))
        cx.check(ok, "txn_guard is released only after the pipeline commit was awaited", "guard-released-early", cb.where(r),
                 "Transaction::commit releases its active-transaction registration before Core::commit has run: "
                 "the oracle may prune the window of a transaction that is still validating")


@rule("C04", "C04.R8", "a restore turns away every transaction that began before it")
def r8(cx):
    """The documented retry case: after `restore_from_checkpoint` a transaction of the discarded timeline must get
    TransactionRetry.  The only test `check` has is `start_seq < kept_since`, and the restore REWINDS the sequence counter
    to the checkpoint's: live transactions hold start sequences ABOVE the restored maximum, pass that test, and the
    post-restore commits carry sequence numbers below their start, so the write-write check finds nothing either -- the
    stale transaction commits over keys written after it began.  Decided: the floor handed to the oracle at a restore is
    not below what live transactions may hold (it derives from the live sequence counters, not only from the restored
    files), or `check` consults state that `reset_for_restore` changes besides the window (a generation)."""
    f = cx.f
    b = f.body("Tree::restore_from_checkpoint")
    rs = sites(cx, b, ["CommitPipeline::reset_oracle_for_restore"], minimum=1)
    live = {"get_visible_seq_num", "seq_num", "last_allocated_seq_num", "get_log_seq_num", "load"}
    ok = False
    for c in rs:
        o = origin_of_operand(b, c.args[1], through_calls="all")
        srcs = {x.primary.split("::")[-1] for x in o.calls}
        from_live = bool(srcs & live) and any(x.primary.split("::")[-1] in live and ("CommitPipeline" in x.primary or "Core::" in x.primary or "Atomic" in x.primary) for x in o.calls)
        ok = ok or from_live
    if not ok:
        # a generation: a field written by reset_for_restore and read by check, other than the window itself
        rb, ck = f.body("CommitOracle::reset_for_restore"), f.body("CommitOracle::check")
        from .common import self_field_sites
        wr = set()
        for i, j, lhs, rv, line in rb.assigns():
            for p in lhs[1:]:
                if isinstance(p, list) and p[0] == "f":
                    wr.add(p[2])
        rd = set()
        for i, j, lhs, rv, line in ck.assigns():
            from ..core import rvalue_places
            for pl in rvalue_places(rv):
                for p in pl[1:]:
                    if isinstance(p, list) and p[0] == "f":
                        rd.add(p[2])
        roles = oracle_roles(f)
        # (written by reset AND read by check, other than the window itself: map and floor)
        gen = (wr & rd) - {roles["floor"], roles["map"], "inner", "data", "0"}
        ok = bool(gen) and ck.argc >= 4
    cx.check(ok, "the restore's oracle floor covers the start sequences of live transactions", "restore-window-misses-live-transactions", rs[0].where(),
             "restore_from_checkpoint resets the oracle with a floor computed from the restored files only (manifest last_sequence / replayed WAL): a transaction that began "
             "before the restore holds a start sequence above it, passes `start_seq < kept_since`, and -- the counter having been rewound -- sees no conflict with the "
             "post-restore commits: it commits over keys written after it began (documented retry case not enforced)")
    # the counter handed to set_seq_num and the floor are the same value
    ss = sites(cx, b, ["CommitPipeline::set_seq_num"], minimum=1)
    same = any(origin_of_operand(b, s.args[1]).calls == origin_of_operand(b, c.args[1]).calls and s.args[1] == c.args[1] or
               {id(x) for x in origin_of_operand(b, s.args[1], through_calls="all").calls} == {id(x) for x in origin_of_operand(b, c.args[1], through_calls="all").calls}
               for s in ss for c in rs)
    cx.check(same, "the sequence counter restarts at the oracle's floor", "restore-window-vs-counter", ss[0].where(),
             "restore_from_checkpoint restarts the sequence counter and the oracle window from different values: new transactions start below the window (spurious retry) "
             "or the window starts below the counter (commits in between are not recorded)")
