"""C17 — commits and shutdown always complete (structural conditions: flow control constants,
permit/slot pairing, no await under a blocking lock, lock order, stall and shutdown protocol)."""
from collections import defaultdict
from ..registry import rule
from ..core import (origin_of_operand, AnchorMissing, guard_regions, lock_wrappers, const_eval, comparisons,
                    rel_str, mirror, bool_call_condition, feasible_reach)
from .common import *
from .pipeline import *

EXPLANATION = ("Schedule-independent necessary conditions of progress: the flow-control semaphore admits fewer "
               "commits than the queue has slots (evaluated constants, power-of-two mask); the permit spans the "
               "queue slot on every path; no suspension point inside any blocking-lock region in the whole crate; the "
               "lock acquisition graph (nested guard regions, interprocedural) is acyclic; the stall loop registers for "
               "wake-ups before reading counts and tests shutdown before waiting; every flush/compaction outcome "
               "signals the stall controller; shutdown order in close()/stop().  Absence of lost wake-ups under all "
               "schedules is NOT decided.")
ASSUMPTIONS = ["MIR is a faithful model of control flow", "lock identity = the struct field the lock lives in",
               "read locks are treated like write locks for ordering (std RwLock may block readers behind a queued writer)"]


@rule("C17", "C17.R1", "semaphore permits < queue slots; slots are a power of two")
def r1(cx):
    f = cx.f
    mx = f.const("MAX_CONCURRENT_COMMITS")
    cx.check(mx > 1 and (mx & (mx - 1)) == 0, "MAX_CONCURRENT_COMMITS=%d is a power of two (mask indexing)" % mx, "slots-pow2", None)
    nb = f.body("CommitPipeline::new")
    sem = sites(cx, nb, "tokio::sync::Semaphore::new")
    permits = const_eval(f, nb, sem[0].args[0])
    if permits is None:
        raise AnchorMissing("semaphore permit count is not a constant expression")
    q = f.adt("CommitQueue")
    slots_ty = [fl[1] for fl in q["variants"][0]["fields"] if fl[0] == "slots"]
    if not slots_ty or ";" not in slots_ty[0]:
        raise AnchorMissing("CommitQueue.slots is not a fixed-size array")
    ns = slots_ty[0].rsplit(";", 1)[1].strip(" ]")
    nslots = int(ns) if ns.isdigit() else f.const(ns.split("::")[-1])
    cx.check(nslots == mx, "queue has MAX_CONCURRENT_COMMITS=%d slots" % nslots, "slots-const", None)
    cx.check(permits < nslots, "semaphore permits (%d) < queue slots (%d)" % (permits, nslots), "permits-vs-slots", sem[0].where(),
             "the commit semaphore admits %d concurrent commits but the queue has %d slots: enqueue can hit the overflow panic / spin forever" % (permits, nslots))
    cx.check(permits >= 1, "at least one permit", "permits-zero", sem[0].where())
    # mask constants in enqueue/dequeue
    for fn in ("CommitQueue::enqueue", "CommitQueue::dequeue_applied"):
        b = f.body(fn)
        masks = []
        for i, j, lhs, rv, _ in b.assigns():
            if rv[0] == "bin" and rv[1] == "BitAnd":
                for op in (rv[2], rv[3]):
                    v = const_eval(f, b, op)
                    if v is not None:
                        masks.append(v)
        cx.check(masks and all(m == mx - 1 for m in masks), "%s indexes slots with mask %d" % (fn, mx - 1), "mask|%s" % fn, b.where(),
                 "%s masks the slot index with %s, not MAX_CONCURRENT_COMMITS-1" % (fn, masks))
    # the full test in enqueue compares tail + MAX with head
    eb = f.body("CommitQueue::enqueue")
    found = False
    for c in eb.calls_to("wrapping_add"):
        v = const_eval(f, eb, c.args[1])
        if v == mx:
            found = True
    cx.check(found, "enqueue's full test uses tail + MAX_CONCURRENT_COMMITS", "full-test", eb.where())


@rule("C17", "C17.R2", "the semaphore permit spans the queue slot")
def r2(cx):
    b = commit_body(cx)
    acq = sites(cx, b, "tokio::sync::Semaphore::acquire")
    enq = sites(cx, b, "CommitQueue::enqueue")
    polls = await_polls(b, acq)
    dom(cx, b, [type("S", (), {"bb": p, "primary": "await acquire"})() for p in polls] and acq, enq, "permit acquired before enqueue")
    for p in polls:
        cx.check(b.set_dominates([p], enq[0].bb), "the acquire is awaited before enqueue", "acquire-not-awaited", b.where(p))
    # the permit local: result of map_err(...)? on the awaited acquire
    permit_locals = [i for i, (ty, nm) in enumerate(b.locals) if "SemaphorePermit" in ty and not ty.startswith("std::result") and "ControlFlow" not in ty and "Poll" not in ty and not ty.startswith("&")]
    named = [l for l in permit_locals if b.local_name(l)]
    cx.check(bool(named), "the permit is bound to a named local (lives to the end of commit())", "permit-unbound", acq[0].where(),
             "the semaphore permit is not bound to a variable: it is released immediately and no longer limits queue occupancy")
    pu = sites(cx, b, "CommitPipeline::publish")
    ma = sites(cx, b, "CommitBatch::mark_applied")
    # every occupied slot is marked applied and drained on every exit (otherwise the queue fills up and
    # enqueue panics / spins although the semaphore admits the commit)
    mpt(cx, b, enq, ma, "every enqueued slot is marked applied on every exit")
    mpt(cx, b, enq, pu, "every enqueued slot is drained (publish) on every exit")
    Pb = set(b.blocks_of(pu))
    for bb, pl, ty, _ in b.drops:
        if len(pl) == 1 and pl[0] in named and bb in b.live:
            r = b.reachable_after([enq[0].bb], avoid=Pb)
            cx.check(bb not in r or bb in Pb, "the permit is released only after publish() drained the slot", "permit-early-release", b.where(bb),
                     "after enqueue the permit can be dropped before publish(): more commits than slots can be in flight")
    for c in b.calls:
        if c.names & {"std::mem::drop"} and c.args and c.args[0][0] == "m" and c.args[0][1][0] in named:
            r = b.reachable_after([enq[0].bb], avoid=Pb)
            cx.check(c.bb not in r, "explicit drop of the permit only after publish()", "permit-early-drop", c.where())


@rule("C17", "C17.R8", "the semaphore permit is held until the commit's queue slot has been dequeued")
def r8(cx):
    """The commit queue has exactly as many slots as the semaphore has permits.  A slot is freed when publish() dequeues the
    batch, which happens only after every EARLIER batch was applied.  The committer is told so through its oneshot
    receiver.  If any path of commit() returns (and thereby drops the permit) after enqueue without awaiting that signal --
    e.g. a failure arm that completes its own batch and returns -- then failed commits behind one slow commit leave occupied
    slots without permits, and the next admitted commit panics in enqueue ("commit queue overflow")."""
    b = commit_body(cx)
    enq = sites(cx, b, "CommitQueue::enqueue")
    newb = sites(cx, b, "CommitBatch::new")
    # the receiver half returned by CommitBatch::new
    polls = []
    for c in b.calls:
        if c.bb not in b.live or not c.args or c.args[0][0] not in ("c", "m"):
            continue
        if not ("Future>::poll" in c.primary or c.primary.endswith("Future::poll")):
            continue
        o = origin_of_operand(b, c.args[0], through_calls=True)
        if any(x in newb for x in o.calls) and "Receiver" in c.primary:
            polls.append(c)
    if not polls:
        polls = [c for c in b.calls if c.bb in b.live and "oneshot::Receiver" in c.primary and "poll" in c.primary.split("::")[-1]]
    cx.floor("awaits of the batch's completion receiver in commit()", len(polls), 1)
    exs = [x for x, k in exits(b)] or b.rets
    P = {c.bb for c in polls}
    r = b.reachable_after([enq[0].bb], avoid=P)
    bad = sorted(x for x in exs if x in r and x not in P)
    cx.check(not bad, "after enqueue, commit() returns only after its completion (= dequeue) signal was awaited", "permit-released-before-slot-freed", b.where(bad[0]) if bad else enq[0].where(),
             "commit() can return after enqueue without awaiting the batch's completion signal (%d exit(s), first at %s): the semaphore permit is dropped while the queue slot is "
             "still occupied behind an earlier, slower commit; a few failing commits then overflow the 8-slot queue and the next commit panics" % (len(bad), b.where(bad[0]) if bad else "-"))


def _clears_flag_on_drop(f, ty):
    """the type's own Drop impl stores `false` into an atomic"""
    base = ty.split("<")[0]
    for db in f.scan_bodies():
        if db.name == "drop" and db.impl_trait and db.impl_trait.endswith("Drop") and (db.self_ty or "").split("<")[0] == base:
            if any(x.primary.endswith("Atomic::store") and len(x.args) > 1 and const_value(x.args[1]) in (0, "0", False) for x in db.calls):
                return True
    return False


@rule("C17", "C17.R9", "no lost wake-up: a `running`-gated notify is paired with a re-check after the flag is cleared")
def r9(cx):
    """`wake_up_memtable()` does not notify while the flush task's `running` flag is set.  The task decides that there is no
    more work (has_pending_immutables() == false) and clears the flag LATER; a rotation in between is told `already
    running` and its memtable stays queued with no wake-up pending.  Two such rotations reach the stall threshold and every
    writer waits for a flush that nothing will start.  Decided: for every background task whose wake-up function gates
    its notify on a flag, the task body re-checks for pending work (or re-notifies itself) after it cleared that flag and
    before it waits again."""
    from ..core import bool_edges
    f = cx.f
    nb = f.body("TaskManager::new")
    tasks = [cb for cb in f.closures_of(nb) if cb.kind == "coroutine"]
    cx.floor("background task bodies", len(tasks), 2)
    gated = {}
    for wn, flag in (("TaskManager::wake_up_memtable", "memtable_running"), ("TaskManager::wake_up_level", "level_running")):
        wb = f.body(wn)
        nots = [c for c in wb.calls if c.bb in wb.live and c.primary.endswith("Notify::notify_one")]
        lds = [c for c in wb.calls if c.bb in wb.live and c.primary.endswith("::load") and flag in origin_of_operand(wb, c.args[0]).field_names()]
        # gated: the flag is loaded and the notify is not on every path to the return
        is_gated = bool(lds) and bool(nots) and not all(wb.set_dominates([n_.bb for n_ in nots], r_) for r_ in wb.rets)
        gated[flag] = is_gated
        cx.note("%s: notify %s" % (wn, "gated on `%s`" % flag if is_gated else "unconditional"))
    n = 0
    for cb in tasks:
        # the task's own flag = the captured atomic it stores `true` into; its own Notify = the one it waits on (names are free)
        FLAG = set()
        for c in cb.calls:
            if c.bb in cb.live and c.primary.endswith("::store") and len(c.args) > 1 and const_value(c.args[1]) == 1:
                FLAG |= origin_of_operand(cb, c.args[0]).upvar_names
        OWN = set()
        for c in cb.calls:
            if c.bb in cb.live and c.primary.endswith("Notify::notified") and c.args:
                OWN |= origin_of_operand(cb, c.args[0], through_calls="all").upvar_names
        stores = [c for c in cb.calls if c.bb in cb.live and c.primary.endswith("::store") and FLAG & origin_of_operand(cb, c.args[0]).upvar_names and len(c.args) > 1 and const_value(c.args[1]) == 0]
        # ... or the flag is cleared by dropping a guard whose destructor stores `false` (explicit `drop(guard)` on the normal path)
        stores += [c for c in cb.calls if c.bb in cb.live and c.primary in ("std::mem::drop", "core::mem::drop") and c.args and c.args[0][0] in ("c", "m")
                   and _clears_flag_on_drop(f, cb.local_ty(c.args[0][1][0]))]
        waits = [c for c in cb.calls if c.bb in cb.live and c.primary.endswith("Notify::notified")]
        if not stores or not waits:
            continue
        # which flag does this task own? the one its work function pairs with: memtable task calls compact_memtable
        is_mem = bool(cb.calls_to("CompactionOperations::compact_memtable"))
        flag = "memtable_running" if is_mem else "level_running"
        if not gated.get(flag):
            cx.ok("task %s: its wake-up notifies unconditionally" % cb.id, cb.where())
            n += 1
            continue
        work = {"CompactionOperations::has_pending_immutables"} if is_mem else set()
        for st in stores:
            n += 1
            if not work:
                # the level task has no `pending` predicate: a lost wake-up only delays a compaction until the next flush
                cx.ok("task %s: gated wake-up without a pending-work predicate (delay only, next flush re-notifies)" % cb.id, st.where())
                continue
            rechecks = {c.bb for c in cb.calls if c.bb in cb.live and (c.names & work or c.primary.endswith("Notify::notify_one") and OWN & origin_of_operand(cb, c.args[0], through_calls="all").upvar_names)}
            # (only a re-check that lies between the clearing of the flag and the next wait counts)
            rechecks = rechecks & cb.reachable_after([st.bb], avoid={w.bb for w in waits})
            r = cb.reachable_after([st.bb], avoid=rechecks)
            bad = [w for w in waits if w.bb in r]
            if bad:
                # a pass that FAILED may go back to waiting without the re-check (see below); decide the question for the
                # passes that did not fail: walk one iteration from where the flag is set, never entering an error arm,
                # with the constant facts established on the way (`failed = false`)
                sets = [c for c in cb.calls if c.bb in cb.live and c.primary.endswith("::store") and FLAG & origin_of_operand(cb, c.args[0]).upvar_names
                        and len(c.args) > 1 and const_value(c.args[1]) == 1]
                errs = set()
                for w_ in cb.calls_to("CompactionOperations::compact_memtable"):
                    re_ = result_edges(cb, w_)
                    if re_:
                        errs |= set(re_[1])
                if sets and errs:
                    r2 = feasible_reach(cb, list(cb.succ[sets[0].bb]), avoid=rechecks | errs)
                    bad = [w for w in waits if w.bb in r2 and st.bb in r2]
            # ... but not after a FAILED pass: the memtable whose flush failed is still queued, so an unconditional self
            # re-arm retries the failing flush in a tight loop until close()
            wk = cb.calls_to("CompactionOperations::compact_memtable")
            for w_ in wk:
                re_ = result_edges(cb, w_)
                if not re_:
                    continue
                okb, errb = re_
                selfn = [c for c in cb.calls if c.bb in cb.live and c.primary.endswith("Notify::notify_one") and OWN & origin_of_operand(cb, c.args[0], through_calls="all").upvar_names]
                r_err = feasible_reach(cb, errb, avoid={w.bb for w in waits})
                spin = [c for c in selfn if c.bb in r_err]
                cx.check(not spin, "task %s does not re-arm itself on the path of a failed flush" % cb.id, "failed-flush-retried-at-once|%s" % flag, w_.where(),
                         "after `compact_memtable` returned an error the flush task still notifies itself when something is queued -- and the memtable that failed IS still queued: "
                         "the failing flush is retried in a tight loop (CPU, log flood) until close()")
            cx.check(not bad, "task %s re-checks for queued work after clearing `%s` and before waiting again" % (cb.id, flag), "lost-wakeup|%s" % flag, st.where(),
                     "the flush task clears `%s` after its last look at the immutable queue and goes back to waiting; wake_up_memtable() is silent while the flag is set, so a "
                     "rotation in between leaves its memtable queued with no wake-up pending -- with two of them the write stall never ends and commit() hangs" % flag)
    cx.floor("flag-clearing sites of background tasks", n, 2)


def all_guards(f):
    w = lock_wrappers(f)
    res = []
    for b in f.scan_bodies():
        for g in guard_regions(b, w):
            res.append(g)
    return res, w


@rule("C17", "C17.R3", "no suspension point while a blocking lock is held (whole crate)")
def r3(cx):
    gs, w = all_guards(cx.f)
    n = 0
    for g in gs:
        b = g.call.body
        n += 1
        ys = [y for y in b.yields if y in g.region]
        cx.check(not ys, "no .await while `%s` (%s) is held in `%s`" % (g.lock, g.mode, b.id), "await-under-lock|%s|%s" % (b.id, g.lock),
                 b.where(ys[0]) if ys else g.call.where(),
                 "an .await is reachable while the blocking lock `%s` is held in `%s`: the executor thread can deadlock" % (g.lock, b.id))
    cx.floor("lock acquisitions analysed", n, 80)


DOCUMENTED_ORDER = ["CommitPipeline.write_mutex", "CoreInner.active_memtable", "CoreInner.level_manifest",
                    "CoreInner.immutable_memtables"]


def lock_alias(l):
    # CompactionOptions / HiddenTablesGuard hold clones of the same Arcs
    for suf in ("level_manifest", "immutable_memtables", "active_memtable"):
        if l.endswith("." + suf):
            return "CoreInner." + suf
    return l


# functions that run before their object is shared (constructor-only helpers): their nestings cannot
# take part in a deadlock.  Each entry is re-validated on every run (callers must be exactly these).
CONSTRUCTOR_ONLY = {"vlog::VLog::prefill_file_handles": {"vlog::VLog::new"}}


def _exempt(f):
    """constructor-only functions: exempt from the lock graph only while every caller is a constructor (object not shared yet)"""
    ex = set()
    for fn, allowed in CONSTRUCTOR_ONLY.items():
        if not f.has_body(fn):
            continue
        b = f.body(fn)
        callers = {f.fn_of(c.body).id for c in f.callers_of(*f.aliases_of(f.canon[b.id]) & {f.canon[b.id]})}
        if callers and callers <= allowed:
            ex.add(b.id)
    return ex


def lock_graph(f):
    gs, w = all_guards(f)
    ex = _exempt(f)
    gs = [g for g in gs if g.call.body.id not in ex]
    # direct acquisitions per body
    direct = defaultdict(set)
    for g in gs:
        direct[g.call.body.id].add(lock_alias(g.lock))
    # transitive acquisitions per function (over the call graph)
    trans = {}

    def acq(bid):
        r = trans.get(bid)
        if r is None:
            r = set()
            for x in f.reach(bid):
                r |= direct.get(x, set())
            trans[bid] = r
        return r
    edges = defaultdict(list)  # (L, M) -> witnesses
    for g in gs:
        b = g.call.body
        L = lock_alias(g.lock)
        for bb in sorted(g.region):
            c = b.call_at.get(bb)
            if c is None or c is g.call or bb in g.release_calls:
                continue
            # nested direct acquisition
            for g2 in gs:
                if g2.call is c:
                    M = lock_alias(g2.lock)
                    if M != L or g2.mode != "read" or g.mode != "read":
                        edges[(L, M)].append("%s: %s then %s at %s" % (b.id, L, M, c.where()))
            for t in c.targets:
                bid = f.canon_to_id.get(t)
                if not bid:
                    continue
                if t in w:
                    continue
                for M in acq(bid):
                    edges[(L, M)].append("%s holds %s and calls %s (acquires %s) at %s" % (b.id, L, t, M, c.where()))
    return edges, gs


@rule("C17", "C17.R4", "the lock acquisition graph is acyclic")
def r4(cx):
    ex = _exempt(cx.f)
    for fn, allowed in CONSTRUCTOR_ONLY.items():
        b = cx.f.body(fn)
        if b.id in ex:
            cx.ok("`%s` is only called from %s (object not shared yet): its lock nesting is exempt" % (fn, sorted(allowed)), b.where())
        else:
            cx.ok("`%s` is also called at run time: its lock nesting is part of the graph below" % fn, b.where())
    edges, gs = lock_graph(cx.f)
    nodes = sorted({x for e in edges for x in e})
    cx.note("lock graph: %d locks, %d ordered pairs" % (len(nodes), len(edges)))
    adj = defaultdict(set)
    for (a, b) in edges:
        if a != b:
            adj[a].add(b)
    # self-edges: re-acquiring the same non-reentrant lock while held
    for (a, b), wit in sorted(edges.items()):
        if a == b:
            cx.bad("relock|%s" % a, "lock `%s` is acquired again while already held: %s" % (a, wit[0]), None, witnesses=wit[:5])
    # report every 2-cycle and longer cycles via SCC
    seen_pairs = set()
    for a in nodes:
        for b in adj[a]:
            if a in adj[b] and (b, a) not in seen_pairs:
                seen_pairs.add((a, b))
                wa, wb = edges[(a, b)], edges[(b, a)]
                cx.bad("inversion|%s|%s" % tuple(sorted((a, b))),
                       "lock-order inversion between `%s` and `%s`:\n        %s\n        %s" % (a, b, wa[0], wb[0]),
                       None, forward=wa[:6], backward=wb[:6])
    # longer cycles
    idx, low, st, on, sccs = {}, {}, [], set(), []

    def sc(v):
        idx[v] = low[v] = len(idx)
        st.append(v)
        on.add(v)
        for x in adj[v]:
            if x not in idx:
                sc(x)
                low[v] = min(low[v], low[x])
            elif x in on:
                low[v] = min(low[v], idx[x])
        if low[v] == idx[v]:
            comp = []
            while True:
                x = st.pop()
                on.discard(x)
                comp.append(x)
                if x == v:
                    break
            sccs.append(comp)
    for v in nodes:
        if v not in idx:
            sc(v)
    for comp in sccs:
        if len(comp) > 2 or (len(comp) == 2 and tuple(sorted(comp)) not in {tuple(sorted(p)) for p in seen_pairs}):
            cx.bad("cycle|%s" % "|".join(sorted(comp)), "lock-order cycle among %s" % sorted(comp), None)
    for (a, b), wit in sorted(edges.items()):
        if a != b and not (a in adj[b]):
            cx.ok("order %s -> %s (%d sites), no reverse edge" % (a, b, len(wit)), None)
    cx.table("lock order edges", [[a, b, len(w), w[0]] for (a, b), w in sorted(edges.items())])
    cx.floor("ordered lock pairs", len(edges), 8)


@rule("C17", "C17.R5", "stall protocol: register for wake-up, test shutdown, then wait; every outcome signals")
def r5(cx):
    f = cx.f
    b = f.coroutine_of("WriteStallController::check")
    nt = sites(cx, b, "tokio::sync::Notify::notified")
    gc = sites(cx, b, "WriteStallCountProvider::get_stall_counts")
    sh = [c for c in sites(cx, b, "std::sync::atomic::Atomic::load") if "shutdown" in origin_of_operand(b, c.args[0]).field_names()]
    cx.floor("shutdown test in stall loop", len(sh), 1)
    polls = await_polls(b, nt)
    for c in nt + gc + sh:
        cx.check(b.in_cycle(c.bb), "`%s` is re-evaluated on every wake-up (inside the loop)" % c.primary.split("::")[-1], "not-in-loop|%s" % c.primary.split("::")[-1], c.where())
    # within one iteration: notified() -> shutdown test -> counts -> await
    loop_head = nt[0].bb
    for a, bset, what in ((nt, gc, "Notified is created before the counts are read"), (nt, sh, "Notified is created before the shutdown test"),
                          (sh, [type("S", (), {"bb": p, "primary": "notified.await", "where": (lambda self, p=p: b.where(p))})() for p in polls], "shutdown is tested before waiting"),
                          (gc, [type("S", (), {"bb": p, "primary": "notified.await", "where": (lambda self, p=p: b.where(p))})() for p in polls], "counts are read before waiting")):
        Ab = {x.bb for x in a}
        for t in bset:
            # every path from the previous await (or entry) to t passes a
            starts = [0] + polls
            ok = True
            for s in starts:
                # paths of one loop iteration: from entry / from a completed wait (not via the
                # await's own pending->yield->poll cycle) to t that avoid every site of `a`
                Y = set(b.yields)
                r2 = b.reachable_after([s], avoid=Ab | Y) if s != 0 else b.reachable_from([0], avoid=Ab | Y)
                if t.bb in r2 and t.bb not in Ab and t.bb != s:
                    ok = False
            cx.check(ok, what, "stall-order|%s" % what, t.where() if hasattr(t, "where") else None,
                     "in the stall loop: NOT (%s) -- a wake-up or shutdown issued in between is lost and the writer sleeps forever" % what)
    # the signalling side is unconditional: a waiter registers with `notified()` BEFORE it reads the counts, so it is safe
    # only if every completed flush / compaction and the shutdown reach `notify_waiters` -- a fast path that consults a
    # shared flag (`is_stalled` is one bool for all waiters, written after the counts were read) drops wake-ups
    for fn in ("WriteStallController::signal_work_done", "WriteStallController::signal_shutdown"):
        sb = f.body(fn)
        nw = [c for c in sb.calls if c.bb in sb.live and c.primary.endswith("Notify::notify_waiters")]
        okp = bool(nw) and all(sb.set_dominates([c.bb for c in nw], r_) for r_ in sb.rets)
        cx.check(okp, "`%s` notifies the waiters on every path" % fn, "signal-conditional|%s" % fn.split("::")[-1], sb.where(),
                 "`%s` can return without `notify_waiters`: a writer that parked again (or registered between its count read and its flag store) is never woken although the "
                 "flush it waits for completed -- commit() hangs" % fn)
    # stall predicate: returns without waiting iff both counts are below their limits
    pred = []
    for cmp_ in comparisons(b):
        lo, ro = origin_of_operand(b, cmp_.lhs), origin_of_operand(b, cmp_.rhs)
        for fld, lim in (("immutable_memtables", "memtable_limit"), ("l0_files", "l0_file_limit")):
            if fld in lo.field_names() and lim in ro.field_names():
                pred.append((fld, cmp_, False))
            elif fld in ro.field_names() and lim in lo.field_names():
                pred.append((fld, cmp_, True))
    cx.floor("stall predicate comparisons", len(pred), 2)
    for fld, cmp_, flipped in pred:
        for p in polls:
            cond = cmp_.condition_to_reach(p)
            if cond is None:
                continue
            if flipped:
                cond = mirror(cond)
            # waiting is reachable only if this count can be >= limit or the other is; at minimum "lt" alone must not be the only way in...
            cx.check("gt" in cond and "eq" in cond, "the writer can wait when %s >= limit (reach condition: %s %s limit)" % (fld, fld, rel_str(cond)),
                     "stall-pred|%s" % fld, cmp_.where())
    # producers
    tb = f.body("TaskManager::new")
    for cb in f.closures_of(tb):
        if cb.kind != "coroutine":
            continue
        for pat in ("CompactionOperations::compact_memtable", "CompactionOperations::compact"):
            for c in cb.calls_to(pat):
                e = result_edges(cb, c)
                if e is None:
                    raise AnchorMissing("result of %s in the background task is not branched on" % pat)
                ok, err = e
                done = cb.calls_to("WriteStallController::signal_work_done")
                shut = cb.calls_to("WriteStallController::signal_shutdown")
                se = cb.calls_to("BackgroundErrorHandler::set_error")
                r_ok = feasible_reach(cb, ok, avoid={x.bb for x in done})
                back = [c.bb] + cb.yields
                cx.check(not any(x in r_ok for x in back), "after a successful %s the stall controller is signalled before the task waits again" % pat.split("::")[-1],
                         "no-signal-ok|%s" % pat, c.where())
                r_err = feasible_reach(cb, err, avoid={x.bb for x in shut})
                cx.check(not any(x in r_err for x in back), "after a failed %s stalled writers are released (signal_shutdown)" % pat.split("::")[-1],
                         "no-signal-err|%s" % pat, c.where(),
                         "a failed %s does not wake stalled writers: they wait forever on a condition nobody will clear" % pat.split("::")[-1])
                r_err2 = feasible_reach(cb, err, avoid={x.bb for x in se})
                cx.check(not any(x in r_err2 for x in back), "a failed %s is recorded as background error" % pat.split("::")[-1], "no-set-error|%s" % pat, c.where())
    cb = f.coroutine_of("Core::close")
    sites(cx, cb, "WriteStallController::signal_shutdown")
    sb = f.body("WriteStallController::signal_shutdown")
    st = sites(cx, sb, "std::sync::atomic::Atomic::store")
    nw = sites(cx, sb, "tokio::sync::Notify::notify_waiters")
    dom(cx, sb, st, nw, "shutdown flag is set before waiters are woken")


@rule("C17", "C17.R6", "shutdown: stop flag before notifications; tasks test the flag after every wake-up; close() order")
def r6(cx):
    f = cx.f
    sb = f.coroutine_of("TaskManager::stop")
    st = [c for c in sites(cx, sb, "std::sync::atomic::Atomic::store") if "stop_flag" in origin_of_operand(sb, c.args[0]).field_names()]
    cx.floor("stop flag store", len(st), 1)
    no = sites(cx, sb, "tokio::sync::Notify::notify_one", minimum=2)
    dom(cx, sb, st, no, "stop flag set before waking the tasks")
    flds = set()
    for c in no:
        flds |= origin_of_operand(sb, c.args[0]).field_names()
    cx.check({"memtable_notify", "level_notify"} <= flds, "both background tasks are woken on stop", "stop-notify-both", sb.where(),
             "stop() wakes only %s" % sorted(flds & {"memtable_notify", "level_notify"}))
    tb = f.body("TaskManager::new")
    n = 0
    for cb in f.closures_of(tb):
        if cb.kind != "coroutine":
            continue
        nt = cb.calls_to("tokio::sync::Notify::notified")
        if not nt:
            continue
        n += 1
        polls = await_polls(cb, nt)
        lds = [c for c in cb.calls_to("std::sync::atomic::Atomic::load")]
        work = cb.calls_to("CompactionOperations::compact_memtable", "CompactionOperations::compact")
        for p in polls:
            r = cb.reachable_after([p], avoid={c.bb for c in lds})
            cx.check(not any(w.bb in r for w in work), "background task tests the stop flag after waking, before doing work", "task-no-stop-test", cb.where(p),
                     "a background task starts work after a wake-up without testing the stop flag")
        for ld in lds:
            cond = bool_call_condition(cb, ld, work[0].bb) if work else None
            if cond is not None:
                cx.check(cond == frozenset({False}), "work is only reached when the stop flag is false", "task-stop-polarity", ld.where())
    cx.floor("background task loops", n, 2)
    cb = f.coroutine_of("Core::close")
    seq = [("CommitPipeline::shutdown", "pipeline shutdown"), ("WriteStallController::signal_shutdown", "stall shutdown"),
           ("TaskManager::stop", "task stop"), ("Wal::close", "WAL close"), ("LockFile::release", "lock release")]
    allsites = [(what, sites(cx, cb, pat)) for pat, what in seq]
    for i in range(len(allsites)):
        for j in range(i + 1, len(allsites)):
            never_after(cx, cb, allsites[j][1], allsites[i][1], "close(): %s is not run after %s" % (allsites[i][0], allsites[j][0]),
                        key="close-order|%s<%s" % (allsites[i][0], allsites[j][0]))
    # pipeline shutdown and stall shutdown are unconditional and first
    dom(cx, cb, allsites[0][1], allsites[1][1], "pipeline shutdown before stall shutdown")
    dom(cx, cb, allsites[1][1], allsites[2][1], "stall shutdown before task stop")
    dom(cx, cb, allsites[1][1], allsites[3][1], "stall shutdown before WAL close")
    fl = cb.calls_to("CoreInner::flush_all_memtables_for_shutdown")
    never_after(cx, cb, fl, allsites[2][1], "background tasks are stopped before the final flush", key="flush-before-stop")
    stop_polls = await_polls(cb, allsites[2][1])
    for c in allsites[2][1]:
        cx.check(all(cb.set_dominates([c.bb], p) for p in stop_polls) and bool(stop_polls), "TaskManager::stop() is awaited", "stop-not-awaited", c.where())
    # Drop for Tree / CommitPipeline shut the pipeline down
    db = f.body("<CommitPipeline as Drop>::drop")
    cx.check(f.may_reach(db.id, "CommitPipeline::shutdown"), "dropping the pipeline shuts it down", "drop-no-shutdown", db.where())


@rule("C17", "C17.R10", "a store that opens into an L0 stall makes progress: start-up schedules a level compaction unconditionally")
def r10(cx):
    """The L0 stall (`l0_files >= threshold`) is lifted only by a level compaction, and the level task is woken only by
    (a) the memtable task after a successful flush and (b) Core::new.  A store can be opened with L0 already at the
    threshold (final flush at close after the tasks stopped, lower thresholds on reopen): every commit then blocks in the
    stall check, so no memtable ever rotates and (a) never fires.  (b) must therefore not depend on anything -- in
    particular not on whether the WAL replay recovered something."""
    f = cx.f
    b = f.body("Core::new")
    tm = sites(cx, b, ["TaskManager::new"], minimum=1)
    wk = [c for c in b.calls if c.bb in b.live and f.call_may_reach(c, {"TaskManager::wake_up_level"}) or c.names & {"TaskManager::wake_up_level"}]
    wk = [c for c in wk if c.bb in b.live]
    if not cx.check(bool(wk), "Core::new wakes the level compaction task", "startup-no-level-wake", b.where(),
                    "Core::new never wakes the level compaction task: a store opened with L0 at the stall threshold blocks every commit forever"):
        return
    mpt(cx, b, tm, wk, "every successful open passes the start-up level wake-up", to=ok_exits(b), key="startup-level-wake-conditional")
    # (a): in the memtable task a successful flush is followed by the level notification
    tb = f.body("TaskManager::new")
    n = 0
    for cb in f.closures_of(tb):
        if cb.kind != "coroutine":
            continue
        fl = cb.calls_to("CompactionOperations::compact_memtable")
        if not fl:
            continue
        n += 1
        nts = [c for c in cb.calls if c.bb in cb.live and c.primary.endswith("Notify::notify_one")]
        lv = []
        for c in nts:
            o = origin_of_operand(cb, c.args[0], through_calls="all")
            if "level_notify" in " ".join(sorted(o.upvar_names | o.field_names())):
                lv.append(c)
        cx.check(bool(lv), "the memtable task notifies the level task", "flush-no-level-wake", cb.where(),
                 "the memtable flush task never wakes the level compaction task: L0 grows to the stall threshold and nothing compacts it")
    cx.floor("memtable task loops", n, 1)


@rule("C17", "C17.R11", "a flag that close() polls without a time limit is cleared even when the task that set it unwinds")
def r11(cx):
    """TaskManager::stop() sleeps in a loop until `memtable_running` / `level_running` are false.  The tasks set their
    flag before calling into flush / compaction and clear it in straight-line code afterwards: a panic anywhere below
    (an assert in the table writer, an arithmetic overflow on an unvalidated option) unwinds past the clearing store, the
    task dies with the flag set, and close() -- also the one spawned by Drop -- never returns.  Decided: every task that
    sets a flag polled by stop() clears it from a destructor (a guard value whose Drop stores `false`) or runs the work
    under catch_unwind; or stop() does not poll the flag."""
    f = cx.f
    sb = f.coroutine_of("TaskManager::stop")
    polled = set()
    for c in sb.calls:
        if c.bb in sb.live and c.primary.endswith("Atomic::load") and sb.in_cycle(c.bb):
            o = origin_of_operand(sb, c.args[0], through_calls="all")
            polled |= {x for x in (o.field_names() | {n.split("__")[-1] for n in o.upvar_names}) if x.endswith("_running")}
    sleeps = [c for c in sb.calls if c.bb in sb.live and sb.in_cycle(c.bb) and c.primary.split("::")[-1] in ("sleep", "yield_now", "notified")]
    cx.note("flags polled by TaskManager::stop in an unbounded loop: %s" % sorted(polled))
    if not polled or not sleeps:
        cx.ok("TaskManager::stop does not poll a task flag without bound", sb.where())
        return
    tb = f.body("TaskManager::new")
    n = 0
    for cb in f.closures_of(tb):
        if cb.kind != "coroutine":
            continue
        sets = [c for c in cb.calls if c.bb in cb.live and c.primary.endswith("Atomic::store") and len(c.args) > 1 and const_value(c.args[1]) in (1, "1", True)]
        work = cb.calls_to("CompactionOperations::compact_memtable", "CompactionOperations::compact")
        if not sets or not work:
            continue
        n += 1
        guarded = False
        # (a) a guard value constructed in the task whose own Drop stores `false` into an atomic
        for i, j, lhs, rv, line in cb.assigns():
            if i in cb.live and rv[0] == "agg" and rv[3] and rv[3].get("adt"):
                if _clears_flag_on_drop(f, rv[3]["adt"]):
                    guarded = True
        # (b) the work runs under catch_unwind
        if any(c.bb in cb.live and c.primary.split("::")[-1] in ("catch_unwind",) for c in cb.calls):
            guarded = True
        cx.check(guarded, "`%s`: the polled `running` flag is cleared on unwind" % cb.id, "running-flag-survives-panic|%s" % work[0].primary.split("::")[-1], sets[0].where(),
                 "the background task sets its `running` flag, calls `%s`, and clears the flag in straight-line code: if anything below panics the task dies with the flag "
                 "set, and TaskManager::stop() -- which sleeps in a loop until the flag is false -- never returns: close() hangs" % work[0].primary.split("::")[-1])
    cx.floor("background tasks that set a polled flag", n, 2)


@rule("C17", "C17.R12", "an L0 stall is lifted by the level task on its own: it keeps compacting while L0 is at the stall limit")
def r12(cx):
    """Writers stalled on the L0 file count wait for `signal_work_done` and re-read the count.  Only a compaction OUT OF L0
    lowers it.  The level task performs one `compact()` per wake-up and is woken by a finished flush (and at start-up);
    the strategy picks the level with the highest score, which need not be L0.  Once the writers are stalled there are no
    more flushes, hence no more wake-ups: if the wake-ups of the last flushes went to another level, L0 is never
    compacted and every commit() waits for ever.  Decided (necessary): after a successful compaction the level task can
    re-arm itself (notify its own Notify, or loop around `compact` without waiting) before it waits again."""
    f = cx.f
    tb = f.body("TaskManager::new")
    n = 0
    for cb in f.closures_of(tb):
        if cb.kind != "coroutine":
            continue
        work = cb.calls_to("CompactionOperations::compact")
        waits = [c for c in cb.calls if c.bb in cb.live and c.primary.endswith("Notify::notified")]
        if not work or not waits:
            continue
        n += 1
        own = set()
        for w in waits:
            own |= origin_of_operand(cb, w.args[0], through_calls="all").upvar_names
        rearm = [c for c in cb.calls if c.bb in cb.live and c.primary.endswith("Notify::notify_one") and c.bb in cb.reachable_after([work[0].bb])
                 and own & origin_of_operand(cb, c.args[0], through_calls="all").upvar_names]
        # an inner loop around compact() that does not contain the wait
        inner = False
        cyc = loop_of(cb, work[0].bb)
        if cyc and not any(w.bb in cyc for w in waits):
            inner = True
        # narrower cycle: is there a cycle through compact avoiding every wait block?
        if not inner:
            r = cb.reachable_after([work[0].bb], avoid={w.bb for w in waits})
            inner = work[0].bb in r
        cx.check(bool(rearm) or inner, "the level task can run another compaction without an external wake-up", "level-task-one-compaction-per-wakeup", work[0].where(),
                 "the level-compaction task runs exactly one compaction per wake-up and is woken only by a finished flush / at start-up: with L0 at the stall limit and another "
                 "level scoring higher, the last wake-ups are spent on that level, the stalled writers cause no further flush, and L0 is never compacted -- commit() hangs")
    cx.floor("level-compaction task loops", n, 1)
