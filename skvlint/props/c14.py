"""C14 — checkpoint and restore reproduce the checkpointed state."""
from ..registry import rule
from ..core import origin_of_operand, AnchorMissing, guard_regions, lock_wrappers, feasible_reach, const_eval
from .common import *
from .walrules import rule_wal_open_floor
from . import codec

EXPLANATION = ("Structural necessary conditions of checkpoint/restore: restore runs as one critical section against commits "
               "(the write lock spans the whole body, no suspension); every in-memory component that caches identifiers or "
               "handles of files in a directory the restore rewinds is re-initialised afterwards (table: directory -> component -> "
               "re-init call that must be on every success path); the checkpoint flushes memtables before copying and records the "
               "sequence number after the flush; the metadata codec is symmetric.  Equality of restored contents is NOT decided.")
ASSUMPTIONS = ["MIR models control flow faithfully", "the component table below lists every cache of on-disk identifiers (confirmed by reading CoreInner and Options)"]

# directory accessor on Options (rewound by DatabaseCheckpoint::restore_from_checkpoint)
#   -> component -> (what re-initialises it; patterns one of which must be reached after the file restore on every Ok path)
COMPONENTS = [
    ("sstable_dir/manifest_dir", "level manifest (table set, log_number, last_sequence, next_table_id)", ["LevelManifest::new"]),
    ("wal_dir", "active + immutable memtables", ["MemTable::new"]),
    ("wal_dir", "immutable memtable queue", ["<ImmutableMemtables as Default>::default", "ImmutableMemtables::default"]),
    ("wal_dir", "WAL writer (segment number, open file)", ["Wal::open_with_min_log_number", "Wal::open"]),
    ("manifest_dir", "sequence counters", ["CommitPipeline::set_seq_num"]),
    ("manifest_dir", "commit oracle", ["CommitPipeline::reset_oracle_for_restore"]),
    ("vlog_dir", "value log (open writer, cached file handles, files map, next_file_id)",
     ["VLog::prefill_file_handles", "VLog::new", "VLog::reset", "VLog::reopen", "VLog::reload"]),
    ("sstable_dir", "block cache keyed by table id / vlog file id (ids are re-issued after the manifest's counters were rewound)",
     ["BlockCache::clear", "BlockCache::invalidate", "BlockCache::invalidate_all", "BlockCache::reset", "BlockCache::with_capacity_bytes"]),
    ("versioned_index_dir", "B+tree version index (holds entries of the discarded timeline; not part of the checkpoint)",
     ["BPlusTree::clear", "BPlusTree::truncate", "BPlusTree::disk", "BPlusTree::reset", "DiskBPlusTree::disk"]),
]


@rule("C14", "C14.R1", "restore is one critical section against commits")
def r1(cx):
    f = cx.f
    b = f.body("Tree::restore_from_checkpoint")
    gs = [g for g in guard_regions(b, lock_wrappers(f)) if g.lock.endswith("write_mutex")]
    if not gs:
        cx.bad("restore-no-lock", "restore_from_checkpoint does not block commits (lock_writes)", b.where())
        return
    g = gs[0]
    steps = [c for c in b.calls if c.bb in b.live and c is not g.call and f.call_may_reach(c, {
        "DatabaseCheckpoint::restore_from_checkpoint", "LevelManifest::new", "Wal::open_with_min_log_number", "Core::replay_wal_with_repair",
        "CommitPipeline::set_seq_num", "CommitPipeline::reset_oracle_for_restore", "MemTable::new"})]
    cx.floor("restore steps", len(steps), 6)
    for c in steps:
        cx.check(c.bb in g.region, "`%s` runs while commits are locked out" % c.primary.split("::")[-1], "restore-step-unlocked|%s" % c.primary, c.where(),
                 "restore step `%s` runs outside the commit write lock: a concurrent commit observes torn state" % c.primary)
    cx.check(not [y for y in b.yields if y in g.region], "no suspension point inside the restore section", "restore-yield", b.where())
    dom(cx, b, [g.call], steps, "the lock is taken before the first restore step")
    # the guard is bound to a named local (held to the end of the function)
    cx.check(bool(b.local_name(g.local)) or any(b.local_name(l) for l in range(len(b.locals)) if "Drop" in b.local_ty(l)), "the write guard is bound to a variable", "guard-unbound", g.call.where(),
             "the guard returned by lock_writes() is not bound: it is released immediately")
    lw = f.body("CommitPipeline::lock_writes")
    o = [c for c in lw.calls if "Mutex::lock" in c.primary]
    cx.check(bool(o) and "write_mutex" in origin_of_operand(lw, o[0].args[0]).field_names(), "lock_writes() takes the commit pipeline's write_mutex", "lock_writes-source", lw.where())


@rule("C14", "C14.R2", "everything the restore rewinds is re-initialised")
def r2(cx):
    f = cx.f
    b = f.body("Tree::restore_from_checkpoint")
    rs = sites(cx, b, "DatabaseCheckpoint::restore_from_checkpoint")
    db = f.body("DatabaseCheckpoint::restore_from_checkpoint")
    # which directories does the file restore rewind? (accessors on Options reached from it)
    dirs = set()
    for d in ("sstable_dir", "wal_dir", "manifest_dir", "vlog_dir", "versioned_index_dir"):
        if f.may_reach(db.id, "Options::%s" % d):
            dirs.add(d)
    cx.note("directories rewound by the file restore: %s" % sorted(dirs))
    cx.check({"sstable_dir", "wal_dir", "manifest_dir", "vlog_dir"} <= dirs, "the file restore covers sstables, wal, manifest and vlog", "restore-dirs", db.where())
    oks = [x for x, k in exits(b) if k in ("ok", "tail")]
    for dname, comp, pats in COMPONENTS:
        cs = [c for c in b.calls if c.bb in b.live and c.bb in b.reachable_after([rs[0].bb]) and f.call_may_reach(c, set(pats))]
        through = [c.bb for c in cs]
        if dname == "vlog_dir":
            # a store without a value log has nothing to re-initialise: the `None` arm of the test on `CoreInner.vlog` counts
            for blk in sorted(b.live):
                t = b.blocks[blk]["t"]
                if t[0] == "switch" and t[1][0] in ("c", "m"):
                    o = origin_of_operand(b, t[1], through_calls="all")
                    if "vlog" in o.field_names() and "discr" in o.ops:
                        listed = {v for v, _ in t[2]}
                        for v, tgt in t[2]:
                            if v == "0":
                                through.append(tgt)
                        if "0" not in listed and "1" in listed:
                            through.append(t[3])  # `if let Some(..)`: the otherwise arm is None
        ok = bool(cs) and all(b.must_pass(rs[0].bb, through, exits=[x])[0] for x in oks)
        cx.check(ok, "after restoring %s: %s is re-initialised (%s)" % (dname, comp.split(" (")[0], ", ".join(sorted({c.primary.split("::")[-1] for c in cs}))),
                 "stale-after-restore|%s" % comp.split(" (")[0], rs[0].where(),
                 "restore rewinds %s but never re-initialises the %s: reads after the restore can follow identifiers/handles of the discarded timeline, and "
                 "new writes collide with them" % (dname, comp))
    # a value log that is re-read IN PLACE (not constructed afresh) must first forget everything of the discarded timeline:
    # prefill only adds what is on disk now; a stale cached handle keeps serving the unlinked file of a re-issued id
    for vb in f.scan_bodies():
        if (vb.self_ty or "").split("<")[0].split("::")[-1] != "VLog" or vb.kind != "method" or vb.name in ("new", "prefill_file_handles"):
            continue
        if not any(c.bb in vb.live and c.primary.split("::")[-1] == "prefill_file_handles" for c in vb.calls):
            continue
        if not f.may_reach(b.id, "VLog::%s" % vb.name):
            continue
        cleared = set()
        for c in vb.calls:
            if c.bb in vb.live and c.primary.split("::")[-1] == "clear" and c.args:
                cleared |= origin_of_operand(vb, c.args[0], through_calls="all").field_names()
        _, W = self_field_sites(f, vb, "may")
        stores = set()
        for c in vb.calls:
            if c.bb in vb.live and c.primary.endswith("::store") and c.args:
                stores |= origin_of_operand(vb, c.args[0], through_calls="all").field_names()
        need = {"file_handles", "files_map"}
        cx.check(need <= cleared and "next_file_id" in stores and ("writer" in W or "writer" in cleared or any(
            "writer" in origin_of_operand(vb, ["c", lhs], through_calls="all").field_names() for i, j, lhs, rv, line in vb.assigns() if len(lhs) > 1)),
                 "`VLog::%s` drops the handles, the file table, the writer and the id counter before it reads the directory again" % vb.name,
                 "vlog-reload-keeps-stale-state|%s" % vb.name, vb.where(),
                 "`VLog::%s` re-reads the value log directory without first dropping %s: handles / entries of the discarded files survive the restore and are used again when "
                 "their file id is re-issued" % (vb.name, sorted((need - cleared) | ({"next_file_id"} - stores))))
    # the WAL is reopened / replayed at the RESTORED manifest's log_number: it is read after the reload was installed
    ln = sites(cx, b, "LevelManifest::new")
    installs = []
    for i, j, lhs, rv, line in b.assigns():
        if rv[0] == "use" and rv[1][0] in ("c", "m") and len(lhs) > 1:
            o = origin_of_operand(b, rv[1], through_calls=True)
            if any(x in ln for x in o.calls):
                installs.append(i)
    for bb_, pl, ty, _ in b.drops:
        pass
    if not installs:
        # `*guard = new_levels` is lowered to DerefMut + assignment through the returned reference
        for c in b.calls:
            if c.bb in b.live and c.primary.endswith("DerefMut>::deref_mut") and "LevelManifest" in c.ret_ty:
                installs.append(c.bb)
    cx.floor("installation of the reloaded manifest", len(installs), 1)
    for c in sites(cx, b, "LevelManifest::get_log_number"):
        cx.check(b.set_dominates(installs, c.bb), "the WAL cut-off is read from the restored manifest (after it was installed)", "stale-log-number", c.where(),
                 "restore reads log_number before the reloaded manifest is installed: the WAL is reopened at the discarded timeline's segment number, so commits made "
                 "after the restore land in a segment the restored manifest considers flushed and are lost at the next open")
    sites(cx, b, ["Wal::open_with_min_log_number", "Wal::open"], via=True)  # restore does reopen the WAL
    for pat, idx in (("Wal::open_with_min_log_number", 1), ("Core::replay_wal_with_repair", 1)):
        for c in b.calls_to(pat):
            o = origin_of_operand(b, c.args[idx])
            cx.check(o.from_call("LevelManifest::get_log_number"), "`%s` starts at the manifest's log_number" % pat.split("::")[-1], "restore-log-number-source|%s" % pat, c.where())
    rule_wal_open_floor(cx)
    # the same value goes to the sequence counters and the oracle
    a = sites(cx, b, "CommitPipeline::set_seq_num")[0]
    r = sites(cx, b, "CommitPipeline::reset_oracle_for_restore")[0]
    oa, orr = origin_of_operand(b, a.args[1]), origin_of_operand(b, r.args[1])
    cx.check({id(c) for c in oa.calls} == {id(c) for c in orr.calls}, "sequence counters and oracle are reset to the same value", "seq-vs-oracle", r.where())
    # assignments into the live components
    gs = guard_regions(b, lock_wrappers(f))
    for lock in ("CoreInner.level_manifest", "CoreInner.active_memtable", "CoreInner.immutable_memtables", "WalManager.inner"):
        w = [g for g in gs if g.lock == lock and g.mode == "write"]
        cx.check(bool(w), "restore replaces the content behind `%s` under its write lock" % lock, "no-write|%s" % lock, b.where(),
                 "restore no longer writes `%s`" % lock)


@rule("C14", "C14.R3", "a checkpoint flushes first, records the sequence number afterwards; metadata codec is symmetric")
def r3(cx):
    f = cx.f
    b = f.body("DatabaseCheckpoint::create_checkpoint")
    # the flush step: the call(s) in create_checkpoint through which the immutable queue is flushed synchronously
    # (today a private helper `flush_all_memtables`; structural, so that inlining / renaming the helper changes nothing)
    FLUSH = {"CoreInner::flush_all_immutables_sync"}
    fl = [c for c in b.calls if c.bb in b.live and not c.copy_of and f.call_must_reach(c, FLUSH)]
    if not fl:
        fl = [c for c in b.calls if c.bb in b.live and not c.copy_of and f.call_may_reach(c, FLUSH)]
    if not fl:
        raise AnchorMissing("create_checkpoint no longer reaches CoreInner::flush_all_immutables_sync")
    cp = [c for c in b.calls if c.bb in b.live and c.names & {"DatabaseCheckpoint::copy_sstables", "DatabaseCheckpoint::copy_level_manifest", "DatabaseCheckpoint::copy_vlog_directories"}]
    cx.floor("copy steps", len(cp), 3)
    dom(cx, b, fl, cp, "memtables flushed before files are copied")
    sq = sites(cx, b, "LevelManifest::get_last_sequence")
    dom(cx, b, fl, sq, "sequence number read after the flush")
    md = sites(cx, b, "CheckpointMetadata::new")
    o = origin_of_operand(b, md[0].args[1])
    cx.check(any(x in sq for x in o.calls), "the recorded sequence number is the manifest's last_sequence", "checkpoint-seq-source", md[0].where())
    # flush_all_memtables rotates the active memtable and flushes all immutables
    # the body that contains the flush: the helper if there is one, else create_checkpoint itself
    fb = b
    cur = fl[0]
    for _ in range(4):
        if cur.names & FLUSH:
            break
        nxt = [f.bodies[f.canon_to_id[t]] for t in cur.targets if t in f.canon_to_id]
        if len(nxt) != 1:
            break
        fb = nxt[0]
        inner = [c for c in fb.calls if c.bb in fb.live and f.call_may_reach(c, FLUSH) or c.names & FLUSH]
        if not inner:
            break
        cur = inner[0]
    cx.check(f.may_reach(fb.id, "CoreInner::rotate_memtable") and (f.may_reach(fb.id, "CoreInner::flush_all_immutables_sync") or bool(fb.calls_to("CoreInner::flush_all_immutables_sync"))),
             "checkpoint flush = rotate + flush all immutables", "checkpoint-flush", fb.where())
    cs = fb.calls_to("CoreInner::flush_all_immutables_sync")
    rot = fb.calls_to("CoreInner::rotate_memtable")
    if rot and cs:
        never_after(cx, fb, cs, rot, "the active memtable is rotated before the immutable queue is flushed", key="checkpoint-rotate-after-flush")
    if fb is not b:
        for x in [x for x, k in exits(fb) if k in ("ok", "tail")]:
            cx.check(fb.set_dominates([c.bb for c in cs], x) or x in {c.bb for c in cs}, "the checkpoint flush always flushes the immutable queue", "checkpoint-flush-skips", fb.where(x))
    enc, dec = f.body("CheckpointMetadata::to_bytes"), f.body("CheckpointMetadata::from_bytes")
    prim_w = {"write_u8", "write_u16", "write_u32", "write_u64"}
    prim_r = {"read_u8", "read_u16", "read_u32", "read_u64"}
    codec.symmetric(cx, enc, dec, "checkpoint metadata", prim_w, prim_r)
    # only immutable files (tables) may be hard-linked into a checkpoint; the value log's active file, the manifest
    # and the WAL keep changing in the source and must be byte-copied
    for c in b.calls:
        if c.bb in b.live and f.call_may_reach(c, {"std::fs::hard_link"}):
            cx.check(bool(c.names & {"DatabaseCheckpoint::copy_sstables"}), "`%s` (may hard-link) only handles immutable table files" % c.primary.split("::")[-1], "checkpoint-hardlink|%s" % c.primary.split("::")[-1], c.where(),
                     "create_checkpoint reaches std::fs::hard_link through `%s`: files that the source keeps appending to (active value-log file, manifest) would be shared between "
                     "the checkpoint and the live store" % c.primary)
    # copy_sstables copies every live table of the manifest (loop over levels.iter())
    cb = f.body("DatabaseCheckpoint::copy_sstables")
    it = sites(cx, cb, "LevelManifest::iter")
    cps = [c for c in cb.calls if c.primary in ("std::fs::hard_link", "std::fs::copy")]
    cx.check(bool(cps) and all(cb.in_cycle(c.bb) for c in cps), "every table in the manifest is linked/copied", "copy-not-all", cb.where())


def _joined_literal(b, call):
    """the string literal joined onto the checkpoint path that feeds `call`'s source argument (e.g. "wal")"""
    for a in call.args:
        o = origin_of_operand(b, a)
        for j in o.calls:
            if j.primary.split("::")[-1] == "join" and len(j.args) > 1:
                lit = _str_literal(b, j.args[1])
                if lit:
                    return lit
    return None


def _str_literal(b, op):
    if op[0] == "k":
        return op[1].get("s") or op[1].get("str")
    o = origin_of_operand(b, op)
    for k in o.consts:
        if k.get("s") or k.get("str"):
            return k.get("s") or k.get("str")
    return None


@rule("C14", "C14.R5", "restore replaces whole directories: nothing of the discarded timeline is kept by name")
def r5(cx):
    """File names (table ids, segment numbers, value-log file ids) identify content only within one timeline; restore
    rewinds the counters, so the same name is re-issued for different content.  Necessary conditions: before the
    checkpoint's files are put in place every rewound directory is removed as a whole (remove_dir_all on the accessor's
    path, conditional only on its existence), and the copy routine never skips a destination that already exists."""
    f = cx.f
    b = f.body("DatabaseCheckpoint::clear_current_state")
    rm = [c for c in b.calls if c.bb in b.live and c.names & {"std::fs::remove_dir_all"}]
    need = ["sstable_dir", "wal_dir", "manifest_dir"]
    if f.may_reach(b.id, "Options::vlog_dir"):
        need.append("vlog_dir")
    have = {}
    for c in rm:
        o = origin_of_operand(b, c.args[0], through_calls="all")
        for d in ("sstable_dir", "wal_dir", "manifest_dir", "vlog_dir", "versioned_index_dir"):
            if o.from_call("Options::%s" % d):
                have.setdefault(d, []).append(c)
    for d in ("sstable_dir", "wal_dir", "manifest_dir", "vlog_dir"):
        cx.check(d in have, "restore wipes %s as a whole" % d, "restore-dir-not-wiped|%s" % d, b.where(),
                 "clear_current_state no longer removes %s entirely: files of the discarded timeline stay in place under names the restored manifest re-uses, "
                 "and reads silently return the discarded timeline's data" % d)
    # restore may share inodes with the checkpoint (hard links) only for immutable files, i.e. tables: everything the live
    # store appends to or rewrites in place (WAL segments, value-log files, manifest) must be byte-copied, otherwise the
    # store writes into the checkpoint
    rb0 = f.body("DatabaseCheckpoint::restore_from_checkpoint")
    nlink = 0
    for c in rb0.calls:
        if c.bb not in rb0.live or not f.call_may_reach(c, {"std::fs::hard_link"}) or not c.args:
            continue
        nlink += 1
        src = None
        for a in c.args:
            o = origin_of_operand(rb0, a, through_calls="all")
            lits = {str(k.get("s", "")) for k in o.consts}
            if any(x.primary.split("::")[-1] == "join" for x in o.calls) and "checkpoint" in " ".join(rb0.local_name(p[0]) or "" for p in o.params):
                src = o
                break
        what = _joined_literal(rb0, c)
        cx.check(what == "sstables", "restore hard-links only table files (`%s`)" % what, "restore-hardlink|%s" % (what or "?"), c.where(),
                 "DatabaseCheckpoint::restore_from_checkpoint puts `%s` in place with a routine that may hard-link: files the live store appends to or rewrites "
                 "(WAL segments, value log, manifest) then share their inode with the checkpoint, and commits made after the restore are written INTO the checkpoint" % what)
    cx.floor("hard-linking copy steps in restore", nlink, 1)
    # selective deletion inside a rewound directory is the same mistake
    for c in b.calls:
        if c.bb in b.live and c.names & {"std::fs::remove_file"}:
            cx.bad("restore-selective-delete|%s" % c.primary, "clear_current_state deletes individual files (keeps the others by name) instead of replacing the directory", c.where())
    rb = f.body("DatabaseCheckpoint::restore_from_checkpoint")
    cl = sites(cx, rb, "DatabaseCheckpoint::clear_current_state")
    cps = [c for c in rb.calls if c.bb in rb.live and f.call_may_reach(c, {"std::fs::hard_link", "std::fs::copy"})]
    cx.floor("copy steps in DatabaseCheckpoint::restore_from_checkpoint", len(cps), 2)
    dom(cx, rb, cl, cps, "the current state is cleared before the checkpoint's files are copied in", key="restore-copy-before-clear")
    # the copy routine overwrites: no `exists()` test of the destination gates the copy
    for name in ("DatabaseCheckpoint::copy_directory_sync", "checkpoint::copy_dir_all"):
        if not f.has_body(name):
            continue
        cb = f.body(name)
        dparam = [i for i in range(1, cb.argc + 1) if cb.local_name(i) in ("dest", "dst", "destination")]
        ex = [c for c in cb.calls if c.bb in cb.live and c.primary.split("::")[-1] in ("exists", "try_exists", "is_file", "is_dir")]
        for c in ex:
            o = origin_of_operand(cb, c.args[0], through_calls="all")
            on_dest = any(p[0] in dparam for p in o.params) and any(x.primary.split("::")[-1] == "join" for x in o.calls)
            if on_dest and c.primary.split("::")[-1] in ("exists", "try_exists") and len(c.dest) == 1:
                # a test of the destination is harmless when the entry is still copied on both outcomes (e.g. `if exists { remove }`)
                from ..core import bool_edges
                ed, sw = bool_edges(cb, c.dest[0], c.target)
                puts = {x.bb for x in cb.calls if x.bb in cb.live and x.names & {"std::fs::hard_link", "std::fs::copy"}}
                if ed and puts:
                    skips = False
                    for tgt, lab in ed.items():
                        # (variant-aware: an error that travels back through a spliced helper's `?` does not continue the loop)
                        r2 = feasible_reach(cb, [tgt], avoid=puts)
                        nexts = [x.bb for x in cb.calls if x.bb in cb.live and x.primary.split("::")[-1] == "next" and cb.in_cycle(x.bb)]
                        if any(x in r2 for x in nexts) or any(x in r2 for x, k in exits(cb) if k in ("ok", "tail")):
                            skips = True
                    on_dest = skips
            cx.check(not on_dest, "`%s`: the copy is not gated by a test of the destination entry" % name, "restore-copy-skips-existing|%s" % name, c.where(),
                     "`%s` tests whether the destination entry exists before copying: a file of the discarded timeline with the same name is kept instead of being replaced" % name)
        cx.ok("`%s` inspected for destination tests (%d path tests)" % (name, len(ex)), cb.where())


@rule("C14", "C14.R6", "link-or-copy never copies onto a destination that may already be a link of the source")
def r6(cx):
    """`if fs::hard_link(src, dst).is_err() { fs::copy(src, dst)? }` is how tables are put into a checkpoint and back.
    hard_link also fails when `dst` exists; if it exists because an earlier run linked it, `dst` IS `src` (same inode) and
    fs::copy opens it with O_TRUNC first: the live table is truncated to zero bytes.  Decided crate-wide: wherever a copy is
    the fallback of a failed hard link to the same destination, a removal of that destination dominates the link attempt
    (or the function proves the destination directory fresh)."""
    f = cx.f
    n = 0
    for b in f.scan_bodies():
        hl = [c for c in b.calls if c.bb in b.live and c.names & {"std::fs::hard_link"}]
        if not hl:
            continue
        cps = [c for c in b.calls if c.bb in b.live and c.names & {"std::fs::copy"}]
        rms = [c for c in b.calls if c.bb in b.live and c.names & {"std::fs::remove_file"}]
        for h in hl:
            hd = {id(x) for x in origin_of_operand(b, h.args[1]).calls}
            fall = [c for c in cps if c.bb in b.reachable_after([h.bb]) and ({id(x) for x in origin_of_operand(b, c.args[1]).calls} & hd or not hd)]
            if not fall:
                continue
            n += 1
            same = lambda op: ({id(x) for x in origin_of_operand(b, op).calls} & hd) or not hd
            pre = [r for r in rms if same(r.args[0])]
            # the link attempt may be reached without the removal only on the `destination does not exist` edge
            from ..core import bool_edges
            cut = set()
            for e_ in b.calls:
                if e_.bb in b.live and e_.primary.split("::")[-1] in ("exists", "try_exists") and e_.args and same(e_.args[0]) and len(e_.dest) == 1:
                    ed, sw = bool_edges(b, e_.dest[0], e_.target)
                    if ed:
                        for tgt, lab in ed.items():
                            if lab == frozenset({False}):
                                cut.add((sw, tgt))
            r_ = reach_cut(b, [0], avoid={x.bb for x in pre}, cut_edges=cut)
            owner = f.fn_of(b).id
            cx.check(bool(pre) and h.bb not in r_, "`%s`: an existing destination is removed before link-or-copy" % owner, "copy-over-own-link|%s" % owner, h.where(),
                     "`%s` falls back to fs::copy when fs::hard_link fails, without first removing the destination: when the destination already is a hard link of the source "
                     "(a second checkpoint into the same directory), the copy truncates the shared inode -- the LIVE table file becomes empty" % owner)
    cx.floor("link-or-copy sites", n, 2)


_COUNTER_FIELDS = {}


def _field_filled_from_counter(f, owner, field):
    """some struct literal of `owner` initialises `field` from an atomic `fetch_add` (a process-wide counter)"""
    k = (owner, field)
    if k in _COUNTER_FIELDS:
        return _COUNTER_FIELDS[k]
    res = False
    base = owner.split("<")[0]
    for b in f.scan_bodies():
        for i, j, lhs, rv, line in b.assigns():
            if rv[0] != "agg" or not rv[3] or (rv[3].get("adt") or "").split("<")[0] != base:
                continue
            fields = rv[3].get("fields") or []
            if field in fields and fields.index(field) < len(rv[2]):
                o = origin_of_operand(b, rv[2][fields.index(field)], through_calls="all")
                if any(x.primary.split("::")[-1] == "fetch_add" for x in o.calls):
                    res = True
    _COUNTER_FIELDS[k] = res
    return res


@rule("C14", "C14.R7", "block-cache keys are unique in the cache's sharing domain (a checkpoint opened next to the live store)")
def r7(cx):
    """The block cache hangs off `Options` as an `Arc`: cloning the options -- the natural way to open a checkpoint
    directory as a database next to the live store -- makes both stores share ONE cache.  Its keys are (kind, id, offset)
    with the table id / value-log file id, counters that every store issues from 1: the checkpoint store's table N and
    the live store's table N are different files under the same key, and a read in one store is answered with the
    other's block (data that was never in the checkpoint).  Decided: the `id` component of every key handed to
    `BlockCache::{get,insert}_*` does not derive from a store-local counter alone -- it derives from (or is combined
    with) a process-unique source."""
    f = cx.f
    n = 0
    for b in f.scan_bodies():
        if "::tests::" in b.id or b.file.endswith("cache.rs") or "/test/" in b.file:
            continue
        for c in b.calls:
            nm = c.primary.split("::")[-1]
            if c.bb not in b.live or "BlockCache" not in c.primary or not (nm.startswith("get_") or nm.startswith("insert_")) or len(c.args) < 3:
                continue
            n += 1
            o = origin_of_operand(b, c.args[1], through_calls="all")
            flds = o.field_names()
            # process-unique: taken from a global counter here, or read from a field that some constructor fills from one
            unique = any(x.primary.split("::")[-1] == "fetch_add" for x in o.calls) or any(_field_filled_from_counter(f, own, fl) for own, fl in o.fields)
            cx.check(unique, "`%s`: the cache key of `%s` is unique across stores that share the cache" % (b.id, nm), "cache-key-store-local|%s|%s" % (b.name, nm), c.where(),
                     "`%s` keys the shared block cache with a store-local id (%s): `Options` is Clone and carries the cache as an Arc, so a second store opened from cloned "
                     "options (a checkpoint directory opened next to the live store) issues the same ids for different files and is answered with the other store's blocks" % (
                         b.id, ", ".join(sorted(flds - {"", "0"})) or "computed"))
    cx.floor("BlockCache get/insert call sites", n, 8)
