"""C12 — commit log framing and repair."""
from ..registry import rule
from .walrules import *
from .walrules import _error_arms, _place_enum
from ..core import _rvalue_operands, rvalue_places
from ..core import bool_call_condition

EXPLANATION = ("Writer/reader agreement and check-before-use for the commit log, decided structurally: both sides use the "
               "same header size / block size constants, CRC over (type byte, payload) in the same order, the same padding "
               "rule; the reader bounds the length, validates fragment typing and compares the CRC before it appends payload "
               "bytes; record type decoding equals the enum discriminants; repair copies a prefix with the ordinary append, "
               "stops at the first corruption, closes the copy before rename and fsyncs the directory; absolute-consistency "
               "mode never reaches repair; the writer appends to a validated/repaired segment.  Round-trip equality over all "
               "record-length sequences and damage positions is NOT decided.")
ASSUMPTIONS = ["MIR models control flow faithfully", "crc32fast::Hasher is deterministic"]


@rule("C12", "C12.R1", "writer and reader agree on header, CRC input, padding rule, record types")
def r1(cx):
    f = cx.f
    H, B = f.const("wal::HEADER_SIZE"), f.const("wal::BLOCK_SIZE")
    cx.check(H == 7 and B % 2 == 0 and B > H, "HEADER_SIZE=%d, BLOCK_SIZE=%d" % (H, B), "constants", None)
    # writer header layout: crc(4) length(2) type(1) = HEADER_SIZE
    wb = f.body("Writer::emit_physical_record")
    ext = sites(cx, wb, "std::vec::Vec::extend_from_slice", minimum=2)
    push = sites(cx, wb, "std::vec::Vec::push")
    sizes = []
    for c in ext:
        o = origin_of_operand(wb, c.args[1], through_calls="all")
        tb = [x for x in o.calls if x.primary.endswith("to_be_bytes")]
        for t in tb:
            ty = wb.local_ty(t.args[0][1][0]) if t.args and t.args[0][0] in ("c", "m") else "?"
            sizes.append({"u32": 4, "u16": 2, "u64": 8}.get(ty, 0))
    total = sum(sizes) + len(push)
    cx.check(total == H, "writer header = %s + %d type byte(s) = HEADER_SIZE" % (sizes, len(push)), "writer-header-size", wb.where(),
             "the writer emits a %d-byte header but HEADER_SIZE is %d" % (total, H))
    dom(cx, wb, ext[:1], push, "crc and length precede the type byte")
    # CRC input order: writer hashes type byte then data; reader's calculate_crc32 hashes record_type then data
    wu = sites(cx, wb, "crc32fast::Hasher::update", minimum=2)
    cb = f.body("wal::calculate_crc32")
    ru = sites(cx, cb, "crc32fast::Hasher::update", minimum=2)

    def upd_kinds(b, us):
        res = []
        for c in sorted(us, key=lambda c: c.bb):
            o = origin_of_operand(b, c.args[1])
            names = {b.local_name(l) for l, _ in o.params}
            res.append("data" if ("data" in names) else "type")
        return res
    wk, rk = upd_kinds(wb, wu), upd_kinds(cb, ru)
    cx.check(wk == ["type", "data"], "writer hashes (type, payload) in that order", "crc-order-writer", wb.where(), "writer CRC input order is %s" % wk)
    cx.check(rk == ["type", "data"], "reader hashes (type, payload) in that order", "crc-order-reader", cb.where(), "reader CRC input order is %s" % rk)
    nb = f.body("wal::reader::Reader::next")
    cc = sites(cx, nb, "wal::calculate_crc32")
    o = origin_of_operand(nb, cc[0].args[0])
    cx.check(o.from_call("wal::reader::Reader::parse_header"), "reader's CRC covers the type byte read from the header", "crc-type-source", cc[0].where())
    # reader header parse consumes HEADER_SIZE and reads crc from bytes 0..4, length 4..6, type 6
    pb = f.body("wal::reader::Reader::parse_header")
    consts = []
    for i, j, lhs, rv, line in pb.assigns():
        for op in _rvalue_operands(rv):
            v = const_eval(f, pb, op)
            if op[0] == "k" and v is not None and ("cdef" in op[1]):
                consts.append(v)
    cx.check(H in consts, "reader header parse advances by the shared header-size constant", "reader-header-const", pb.where())
    # padding rule: both sides compare `left < HEADER_SIZE`
    # the writer's padding decision lives in a private helper today (maybe_switch_to_new_block); structurally it is the
    # function of `impl Writer` that compares against HEADER_SIZE and, controlled by that test, appends padding
    mb = f.body("Writer::maybe_switch_to_new_block") if f.has_body("Writer::maybe_switch_to_new_block") else f.body("Writer::add_record")
    n = 0
    for body, what, target_pat in ((mb, "writer pads", "WritableFile::append"), (nb, "reader skips to next block", "wal::reader::Reader::read_more")):
        tg = sites(cx, body, target_pat)
        if body is mb and len(tg) > 1:
            # inside add_record there are further appends (through emit_physical_record): the padding append is the direct one
            tg = [c for c in tg if c.names & {"WritableFile::append"} and not c.copy_of] or tg
        for cmp_ in comparisons(body):
            rv = const_eval(f, body, cmp_.rhs)
            lv = const_eval(f, body, cmp_.lhs)
            if rv == H and lv is None:
                flip = False
            elif lv == H and rv is None:
                flip = True
            else:
                continue
            cond = cmp_.condition_to_reach(tg[0].bb)
            if cond is None:
                continue
            if flip:
                cond = mirror(cond)
            n += 1
            cx.check(cond == frozenset({"lt"}), "%s exactly when fewer than HEADER_SIZE bytes remain" % what, "padding-rule|%s" % body.id, cmp_.where(),
                     "%s when remaining %s HEADER_SIZE (expected <): writer and reader disagree about block tails" % (what, rel_str(cond)))
    cx.floor("padding-rule comparisons", n, 2)
    # avail = BLOCK_SIZE - block_offset - HEADER_SIZE
    ab = f.body("Writer::add_record")
    subs = [(i, rv) for i, j, lhs, rv, _ in ab.assigns() if rv[0] == "bin" and rv[1].startswith("Sub")]
    vals = set()
    for i, rv in subs:
        for op in (rv[2], rv[3]):
            v = const_eval(f, ab, op)
            if v is not None:
                vals.add(v)
    cx.check({H, B} <= vals, "fragment capacity is BLOCK_SIZE - offset - HEADER_SIZE", "fragment-capacity", ab.where(), "add_record's capacity arithmetic uses constants %s" % sorted(vals))
    # RecordType::from_u8 == discriminants
    _enum_decoder(cx, "wal::RecordType", "wal::RecordType::from_u8")
    _enum_decoder(cx, "wal::CompressionType", "wal::CompressionType::from_u8")
    # fragment typing: writer's choice vs reader's validate_record_type table -- decided by E3 (C12.R6)


def _enum_decoder(cx, adt_name, fn):
    f = cx.f
    adt = f.adts.get(adt_name) or f.adt(adt_name.split("::")[-1])
    b = f.body(fn)
    # find the switch on the parameter and the variant constructed in each arm
    sw = None
    for blk in sorted(b.live):
        t = b.blocks[blk]["t"]
        if t[0] == "switch":
            sw = (blk, t)
            break
    if sw is None:
        raise AnchorMissing("%s has no switch" % fn)
    blk, t = sw
    table = {}
    for v, tgt in t[2]:
        var = _first_variant(b, tgt, adt["path"])
        table[v] = var
    want = {x["discr"]: x["name"] for x in adt["variants"]}
    cx.check(table == want, "%s decodes exactly the enum's discriminants %s" % (fn, want), "enum-decoder|%s" % fn, b.where(),
             "%s maps %s but the enum's discriminants are %s" % (fn, table, want))
    cx.table("%s decode table" % fn, [[k, v] for k, v in sorted(table.items())])


def _first_variant(b, start, adt_path):
    seen = set()
    cur = start
    for _ in range(6):
        if cur in seen:
            break
        seen.add(cur)
        for st in b.blocks[cur]["s"]:
            if st[0] == "=" and st[2][0] == "agg" and st[2][3] and st[2][3].get("adt") == adt_path:
                return st[2][3]["variant"]
        if len(b.succ[cur]) != 1:
            break
        cur = b.succ[cur][0]
    return None


@rule("C12", "C12.R2", "the reader checks length, fragment type and CRC before it uses payload bytes")
def r2(cx):
    f = cx.f
    b = f.body("wal::reader::Reader::next")
    ext = [c for c in sites(cx, b, "std::vec::Vec::extend_from_slice") if "rec" in origin_of_operand(b, c.args[0]).field_names()]
    cx.floor("payload append sites", len(ext), 1)
    crc = sites(cx, b, "wal::calculate_crc32")
    val = sites(cx, b, "wal::validate_record_type")
    dom(cx, b, crc, ext, "CRC computed before payload is accepted")
    dom(cx, b, val, ext, "fragment type validated before payload is accepted")
    # crc equality controls the append
    n = 0
    for c in ext:
        conds = []
        for cmp_ in comparisons(b):
            lo, ro = origin_of_operand(b, cmp_.lhs), origin_of_operand(b, cmp_.rhs)
            if lo.from_call("wal::calculate_crc32") != ro.from_call("wal::calculate_crc32") and (lo.from_call("wal::reader::Reader::parse_header") or ro.from_call("wal::reader::Reader::parse_header")):
                cond = cmp_.condition_to_reach(c.bb)
                if cond is not None:
                    conds.append((cmp_, cond))
        n += len(conds)
        cx.check(bool(conds) and all(cd == frozenset({"eq"}) for _, cd in conds), "payload is accepted only when computed CRC == stored CRC", "crc-gate", c.where(),
                 "payload bytes are accepted when computed CRC %s stored CRC" % ([rel_str(cd) for _, cd in conds] or "<unconstrained>"))
    cx.floor("CRC comparisons", n, 1)
    # length bounded by the bytes remaining before slicing
    m = 0
    for cmp_ in comparisons(b):
        lo, ro = origin_of_operand(b, cmp_.lhs), origin_of_operand(b, cmp_.rhs)
        l_len = lo.from_call("wal::reader::Reader::parse_header") and not lo.from_call("wal::reader::Reader::buffer_remaining")
        r_rem = ro.from_call("wal::reader::Reader::buffer_remaining")
        r_len = ro.from_call("wal::reader::Reader::parse_header") and not ro.from_call("wal::reader::Reader::buffer_remaining")
        l_rem = lo.from_call("wal::reader::Reader::buffer_remaining")
        if not ((l_len and r_rem) or (r_len and l_rem)):
            continue
        for c in ext:
            cond = cmp_.condition_to_reach(c.bb)
            if cond is None:
                continue
            if r_len:
                cond = mirror(cond)
            m += 1
            cx.check(cond == frozenset({"lt", "eq"}), "payload is sliced only when length <= bytes remaining", "length-gate", cmp_.where(),
                     "the reader slices `length` bytes when length %s remaining: a damaged length field indexes past the buffer (panic)" % rel_str(cond))
    cx.floor("length-vs-remaining comparisons controlling the payload", m, 1)
    rule_eof_only_at_block_boundary(cx)
    rule_every_record_crc_checked(cx)
    # result of validate_record_type and from_u8 are propagated
    from ..core import result_fate
    for c in val + sites(cx, b, "wal::RecordType::from_u8"):
        fate = result_fate(b, c)
        okf = fate == "propagated"
        if not okf and fate == "handled":
            # `match r { Ok(x) => x, Err(e) => return Err(e) }`: the error arm leaves through an error exit and nothing else
            re_ = result_edges(b, c)
            if re_:
                r_ = feasible_reach(b, re_[1])
                ex_ = [(x, k) for x, k in exits(b) if x in r_]
                okf = bool(ex_) and all(k == "err" for x, k in ex_) and not any(y.bb in r_ and b.in_cycle(y.bb) for y in b.calls if y.primary.split("::")[-1] == "parse_header")
        cx.check(okf, "`%s` errors are propagated" % c.primary.split("::")[-1], "dropped|%s" % c.primary, c.where())


@rule("C12", "C12.R3", "repair keeps a prefix: same append, stop at first corruption, close -> rename -> fsync dir")
def r3(cx):
    f = cx.f
    b = f.body("wal::recovery::repair_corrupted_wal_segment")
    rd = sites(cx, b, "wal::reader::Reader::read")
    ap = sites(cx, b, "Wal::append")
    cl = sites(cx, b, "Wal::close")
    rn = sites(cx, b, "std::fs::rename")
    fd = sites(cx, b, ["lsm::fsync_directory", "fsync_directory"])
    arms = _error_arms(b, rd[0])
    if not arms or "Corruption" not in arms:
        raise AnchorMissing("repair does not match on the Corruption variant")
    r = feasible_reach(b, arms["Corruption"])
    cx.check(rd[0].bb not in r and not any(c.bb in r for c in ap), "repair stops copying at the first corrupted record", "repair-continues", rd[0].where(),
             "repair keeps reading/copying after a corrupted record: the repaired segment is not a prefix")
    for c in ap:
        o = origin_of_operand(b, c.args[1])
        cx.check(any(x in rd for x in o.calls), "repair copies exactly the record just read", "repair-copy-source", c.where())
    dom(cx, b, cl, rn, "the repaired copy is closed (synced) before it replaces the segment")
    dom(cx, b, rn, fd, "directory fsync after rename")
    for x in [x for x, k in exits(b) if k == "ok"]:
        if x in b.reachable_after([rn[0].bb]):
            cx.check(b.set_dominates([c.bb for c in fd], x), "repair reports success after the directory was fsynced", "repair-ack", b.where(x))
    # a failed copy leaves the original untouched
    rmv = sites(cx, b, "std::fs::remove_file")
    # rename target is the original segment path
    cx.ok("rename present: %s" % rn[0].where(), rn[0].where())


@rule("C12", "C12.R4", "absolute-consistency mode never repairs; tolerant mode repairs then replays exactly once more")
def r4(cx):
    f = cx.f
    b = f.body("Core::replay_wal_with_repair")
    rp = sites(cx, b, "wal::recovery::replay_wal", minimum=2)
    rep = sites(cx, b, "wal::recovery::repair_corrupted_wal_segment")
    # the switch on recovery_mode
    mode_locals = [l for l in range(1, b.argc + 1) if b.local_name(l) == "recovery_mode"]
    if not mode_locals:
        raise AnchorMissing("replay_wal_with_repair has no recovery_mode parameter")
    adt = f.adt("WalRecoveryMode")
    discr = {v["discr"]: v["name"] for v in adt["variants"]}
    found = False
    for blk in sorted(b.live):
        bl = b.blocks[blk]
        dl = {}
        for st in bl["s"]:
            # (the mode may have travelled into a private helper that was spliced back in: follow plain moves)
            if st[0] == "=" and st[2][0] == "discr" and (st[2][1][0] == mode_locals[0] or origin_of_operand(b, ["c", [st[2][1][0]]], through_calls=False).from_param(mode_locals[0])):
                dl[st[1][0]] = True
        t = bl["t"]
        if t[0] == "switch" and t[1][0] in ("c", "m") and t[1][1][0] in dl:
            found = True
            from ..core import edge_condition
            edges = {}
            for v, tgt in t[2]:
                edges[tgt] = frozenset(edges.get(tgt, frozenset()) | {discr.get(v, v)})
            rest = set(discr.values()) - {discr.get(v, v) for v, _ in t[2]}
            if rest:
                edges[t[3]] = frozenset(edges.get(t[3], frozenset()) | rest)
            cond = edge_condition(b, blk, edges, rep[0].bb)
            cx.check(cond == frozenset({"TolerateCorruptedWithRepair"}), "repair is reachable only in TolerateCorruptedWithRepair mode", "mode-table", rep[0].where(),
                     "repair_corrupted_wal_segment is reachable in mode(s) %s" % (sorted(cond) if cond is not None else "<any: not controlled by the mode switch>"))
            # in AbsoluteConsistency the arm returns Err
            abs_t = [tgt for tgt, lab in edges.items() if "AbsoluteConsistency" in lab]
            r = feasible_reach(b, abs_t)
            cx.check(not any(x in r for x, k in exits(b) if k == "ok") and not any(c.bb in r for c in rp),
                     "AbsoluteConsistency: corruption makes open fail without another replay", "absolute-mode", b.where(abs_t[0]))
    cx.check(found, "replay_wal_with_repair switches on the recovery mode", "no-mode-switch", b.where())
    second = [c for c in rp if c.bb in b.reachable_after([rep[0].bb])]
    cx.check(len(second) == 1 and not b.in_cycle(second[0].bb), "exactly one re-replay after repair (no loop)", "re-replay", rep[0].where())
    dom(cx, b, [c for c in rp if c not in second], rep, "first replay before repair")
    # failed repair -> error
    ok, err = result_edges(b, rep[0]) or (None, None)
    if ok is None:
        raise AnchorMissing("repair result not branched on")
    r = feasible_reach(b, err)
    cx.check(not any(c.bb in r for c in second) and not any(x in r for x, k in exits(b) if k == "ok"), "a failed repair fails the open", "failed-repair-ignored", rep[0].where())
    who_calls(cx, ["wal::recovery::repair_corrupted_wal_segment"], {"Core::replay_wal_with_repair"}, "repair callers", "who:repair")
    rule_repair_temp_fresh(cx)


@rule("C12", "C12.R5", "records appended after open / repair are read back: writer resumes on a validated segment")
def r5(cx):
    rule_open_after_repair(cx)
    rule_writer_open_ignores_content(cx)
    rule_append_after_validated_tail(cx)
    rule_resume_offset_exact(cx)


@rule("C12", "C12.R6", "fragment typing: the writer's choice and the reader's acceptance table describe the same language")
def r6(cx):
    from ..e3 import Region
    f = cx.f
    wb = f.body("Writer::add_record")
    # the fragment loop: the cycle that contains the emit_physical_record call; its head is the block of the cycle
    # that is entered from outside
    em = [c for c in wb.calls_to("Writer::emit_physical_record") if wb.in_cycle(c.bb)]
    if not em:
        raise AnchorMissing("Writer::add_record: fragment loop not found")
    cyc = {x for x in wb.reachable_after([em[0].bb]) if em[0].bb in wb.reachable_after([x])} | {em[0].bb}
    heads = sorted(x for x in cyc if any(p not in cyc for p in wb.pred[x]) and not wb.blocks[x]["c"])
    if not heads:
        raise AnchorMissing("Writer::add_record: fragment loop has no entry block")
    head = heads[0]
    names = {l: "begin" for l, (ty, nm) in enumerate(wb.locals) if ty == "bool" and nm == "begin"}
    leaves = Region(wb, head, stops={head: "next"}, capture={"Writer::emit_physical_record": ("type", 1)}, local_names=names).run()
    wt = {}
    for lf in leaves:
        ty = [m.split("=")[1].replace("RecordType::", "").replace("()", "") for m in lf.marks if m.startswith("type=")]
        if not ty:
            continue
        begin = lf.cond.get("begin")
        rel = [v for k, v in lf.cond.items() if k.startswith("rel(len(")]
        if begin is None or not rel:
            continue
        wt.setdefault((begin, rel[0] == "eq"), set()).add(ty[0])
    want_w = {(True, True): {"Full"}, (True, False): {"First"}, (False, True): {"Last"}, (False, False): {"Middle"}}
    cx.table("writer fragment type (begin, is_end) -> type", [[str(k), str(sorted(v))] for k, v in sorted(wt.items(), key=str)])
    cx.check(wt == want_w, "writer: (first fragment?, last fragment?) -> Full / First / Last / Middle", "writer-fragment-table", wb.where(),
             "the writer's fragment typing is %s" % {str(k): sorted(v) for k, v in wt.items()})
    # `begin` is cleared after the first fragment
    clr = [i for i, j, lhs, rv, _ in wb.assigns() if len(lhs) == 1 and lhs[0] in names and rv[0] == "use" and rv[1][0] == "k" and rv[1][1].get("v") == "0"]
    cx.check(bool(clr) and all(wb.in_cycle(i) for i in clr), "`begin` is cleared inside the fragment loop", "begin-not-cleared", wb.where())
    # reader
    vb = f.body("wal::validate_record_type")
    rt = {}
    for lf in Region(vb, 0).run():
        var = lf.cond.get("variant(p1)")
        rel = [v for k, v in lf.cond.items() if k.startswith("rel(0,")]
        okv = lf.ret is not None and lf.ret[0] == "agg" and lf.ret[3] == "Ok"
        for r in (rel or ["lt", "eq", "gt"]):
            rt[(var, r == "eq")] = okv if (var, r == "eq") not in rt else (rt[(var, r == "eq")] and okv) if r != "eq" else okv
    accept = {k for k, v in rt.items() if v}
    want_r = {("Full", True), ("First", True), ("Middle", False), ("Last", False)}
    cx.table("reader validate_record_type (type, fragment_index == 0) -> accepted", [[str(k), str(v)] for k, v in sorted(rt.items(), key=str)])
    cx.check(accept == want_r, "reader accepts Full/First only as the first fragment and Middle/Last only after one", "reader-fragment-table", vb.where(),
             "validate_record_type accepts %s" % sorted(accept))
    # the reader ends a logical record on Last or Full and counts fragments otherwise
    nb = f.body("wal::reader::Reader::next")
    incs = [(i, rv) for i, j, lhs, rv, _ in nb.assigns() if rv[0] == "bin" and rv[1].startswith("Add") and any(nb.local_name(pl[0]) == "fragment_index" for pl in rvalue_places(rv))]
    cx.check(len(incs) == 1 and nb.in_cycle(incs[0][0]), "the reader counts fragments (fragment_index += 1 per non-final fragment)", "fragment-count", nb.where())
