"""C08 — inside a transaction: read-your-writes, savepoints, rollback and modes."""
from ..registry import rule
from ..core import (origin_of_operand, AnchorMissing, comparisons, rel_str, mirror, feasible_reach, bool_call_condition,
                    bool_edges, edge_condition, option_edges, REL)
from .common import *

EXPLANATION = ("Structural necessary conditions of transaction-local semantics: every public entry point that touches the "
               "write-set, the snapshot or the store passes the closed / mode / empty-key gates first (gate table; a new public "
               "method without a row fails closed); point reads consult the write-set before the snapshot and a hit never falls "
               "through; savepoint rollback removes exactly the entries of the current savepoint from every key; commit replays "
               "the surviving writes in issue order from the taken write-set, closes the transaction only on success; rollback and "
               "drop discard everything.  Equivalence with a reference model over all programs is NOT decided.")
ASSUMPTIONS = ["MIR models control/data flow faithfully", "BTreeMap / Vec behave as documented"]

TXN = "transaction::Transaction"


def field_gate(b, field, owner_suffix="Transaction"):
    """switch blocks on a copy of bool field `field`; returns list of (switch_bb, pass_targets, fail_targets) where pass = field false"""
    res = []
    for blk in sorted(b.live):
        bl = b.blocks[blk]
        cand = {}
        for st in bl["s"]:
            if st[0] == "=" and st[2][0] == "use" and st[2][1][0] in ("c", "m") and len(st[1]) == 1:
                fs = [p for p in st[2][1][1][1:] if isinstance(p, list) and p[0] == "f"]
                if fs and fs[-1][2] == field and fs[-1][3].endswith(owner_suffix):
                    cand[st[1][0]] = True
        t = bl["t"]
        if t[0] == "switch" and t[1][0] in ("c", "m") and t[1][1][0] in cand:
            zero = [x for v, x in t[2] if v == "0"]
            res.append((blk, zero, [t[3]]))
    return res


def call_gate(b, pat, pass_value):
    res = []
    for c in b.calls_to(pat):
        if c.target is None:
            continue
        e, sw = bool_edges(b, c.dest[0], c.target)
        if e is None:
            continue
        res.append((sw, [s for s, lab in e.items() if pass_value in lab and (not pass_value) not in lab],
                    [s for s, lab in e.items() if (not pass_value) in lab]))
    return res


def gate_dominates(b, gates, site_bb):
    """site reachable only through the pass edge of (one of) the gates"""
    for sw, passes, fails in gates:
        # remove pass edges: site must become unreachable
        def reach(skip_from, skip_to):
            seen = {0}
            work = [0]
            while work:
                x = work.pop()
                for y in b.succ[x]:
                    if x == skip_from and y in skip_to:
                        continue
                    if y not in seen:
                        seen.add(y)
                        work.append(y)
            return seen
        if site_bb not in reach(sw, set(passes)) and site_bb != sw:
            return True
        # the gate may sit in a private helper that was spliced in: its failing edge then reaches the site in the plain
        # CFG through the helper's single return (`Err` travels back and is propagated by the caller's `?`).  Decide
        # with the variant-aware reachability: without the pass targets, can the site be reached at all?
        if site_bb not in feasible_reach(b, [0], avoid=set(passes)) and site_bb != sw:
            return True
    return False


def touches(f, b):
    """blocks of body b that read/write Transaction.write_set / .snapshot or call into the store"""
    res = []
    for i, j, lhs, rv, line in b.assigns():
        for pl in [lhs] + rvalue_places(rv):
            fs = [p for p in pl[1:] if isinstance(p, list) and p[0] == "f"]
            for p in fs:
                if p[3].endswith("transaction::Transaction") and p[2] in ("write_set", "snapshot"):
                    res.append((i, p[2], line))
    for c in b.calls:
        if c.bb in b.live and c.names & {"Core::commit", "Snapshot::get", "Snapshot::get_at", "Snapshot::range", "Snapshot::history_iter"}:
            res.append((c.bb, c.primary.split("::")[-1], c.line))
    return res


GATES = {
    # function that directly touches state -> gates required before the first touch
    "Transaction::write": ["mutable", "closed", "key"],
    "Transaction::get_at": ["closed", "key", "write_only"],
    "Transaction::get_with_options": ["closed", "key", "write_only"],
    "TransactionRangeIterator::new_with_options": ["closed", "write_only"],
    "Transaction::history_with_options": ["closed", "write_only"],
    "Transaction::set_savepoint": ["mutable", "closed"],
    "Transaction::rollback_to_savepoint": ["mutable", "closed"],
}
DELEGATES = {
    # public method -> gated function every successful path must go through
    "Transaction::set": "Transaction::write", "Transaction::set_at": "Transaction::write", "Transaction::set_with_options": "Transaction::write",
    "Transaction::delete": "Transaction::write", "Transaction::delete_with_options": "Transaction::write",
    "Transaction::soft_delete": "Transaction::write", "Transaction::soft_delete_with_options": "Transaction::write",
    "Transaction::replace": "Transaction::write", "Transaction::get": "Transaction::get_with_options",
    "Transaction::range": "TransactionRangeIterator::new_with_options", "Transaction::range_with_options": "TransactionRangeIterator::new_with_options",
    "Transaction::history": "Transaction::history_with_options",
}
UNGATED_OK = {"Transaction::rollback": "rollback is allowed in every state", "Transaction::new": "constructor",
              "Transaction::set_durability": "touches only the durability flag", "Transaction::with_durability": "touches only the durability flag",
              "Transaction::next_write_seqno": "private counter"}


def gates_for(b, kind):
    if kind == "closed":
        return field_gate(b, "closed")
    if kind == "mutable":
        return call_gate(b, "Mode::mutable", True)
    if kind == "write_only":
        return call_gate(b, "Mode::is_write_only", False)
    if kind == "read_only":
        return call_gate(b, "Mode::is_read_only", False)
    if kind == "key":
        return [g for g in call_gate(b, "std::vec::Vec::is_empty", False) + call_gate(b, "core::slice::is_empty", False) +
                call_gate(b, "is_empty", False)]
    raise KeyError(kind)


@rule("C08", "C08.R1", "closed / mode / empty-key gates precede every touch of transaction state (gate table)")
def r1(cx):
    f = cx.f
    for fn, kinds in GATES.items():
        b = f.body(fn)
        ts = touches(f, b)
        if fn == "TransactionRangeIterator::new_with_options":
            ts = [(c.bb, "snapshot.range", c.line) for c in b.calls_to("Snapshot::range")] + \
                 [(c.bb, "write_set.range", c.line) for c in b.calls if c.primary.endswith("BTreeMap::range")]
        if fn in ("Transaction::set_savepoint", "Transaction::rollback_to_savepoint"):
            ts = []
            for i, j, lhs, rv, line in b.assigns():
                fs = [p for p in lhs[1:] if isinstance(p, list) and p[0] == "f"]
                if fs and fs[-1][2] in ("savepoints",) and fs[-1][3].endswith("Transaction"):
                    ts.append((i, "savepoints", line))
            ts += [(c.bb, "write_set", c.line) for c in b.calls if c.primary.split("::")[-1] in ("retain", "values_mut")]
        if not ts:
            raise AnchorMissing("%s no longer touches transaction state" % fn)
        for kind in kinds:
            gs = gates_for(b, kind)
            if not gs:
                cx.bad("gate-missing|%s|%s" % (fn, kind), "`%s` has no `%s` gate" % (fn, kind), b.where())
                continue
            bad = [(bb, what, line) for bb, what, line in ts if not gate_dominates(b, gs, bb)]
            cx.check(not bad, "`%s`: the %s gate precedes all %d state touches" % (fn, kind, len(ts)), "gate|%s|%s" % (fn, kind),
                     "%s:%d" % (b.file, bad[0][2]) if bad else b.where(),
                     "`%s` touches %s without passing the `%s` gate" % (fn, bad[0][1] if bad else "", kind))
            # the fail edge returns an error
            for sw, passes, fails in gs:
                r = feasible_reach(b, fails, avoid=passes)
                cx.check(not any(x in r for x, k in exits(b) if k == "ok"), "`%s`: failing the %s gate returns an error" % (fn, kind), "gate-fail-ok|%s|%s" % (fn, kind), b.where(sw))
    # commit
    cb = f.coroutine_of("Transaction::commit")
    cc = sites(cx, cb, "Core::commit")
    tk = [c for c in cb.calls if c.primary.endswith("mem::take")]
    for kind in ("closed", "read_only"):
        gs = gates_for(cb, kind)
        ok = bool(gs) and all(gate_dominates(cb, gs, c.bb) for c in cc + tk)
        cx.check(ok, "commit(): the %s gate precedes taking the write-set and committing" % kind, "gate|Transaction::commit|%s" % kind, cb.where(),
                 "Transaction::commit reaches the store without passing the `%s` gate" % kind)
    # delegation
    for pub, target in DELEGATES.items():
        b = f.body(pub)
        tb = f.body(target)
        cs = [c for c in b.calls if c.bb in b.live and f.call_may_reach(c, f.aliases_of(f.canon[tb.id]))]
        oks = [x for x, k in exits(b) if k in ("ok", "tail")]
        good = bool(cs) and all(b.set_dominates([c.bb for c in cs], x) or x in {c.bb for c in cs} for x in oks)
        direct_touch = touches(f, b)
        cx.check(good and not direct_touch, "`%s` reaches transaction state only through the gated `%s`" % (pub, target), "ungated-delegate|%s" % pub, b.where(),
                 "`%s` %s" % (pub, "touches transaction state directly" if direct_touch else "can succeed without going through `%s`" % target))
    # catch-all: public methods of Transaction not covered
    known = set(GATES) | set(DELEGATES) | set(UNGATED_OK) | {"Transaction::commit"}
    known_ids = set()
    for k in known:
        for x in f.bodies_like(k):
            known_ids.add(x.id)
    for b in f.scan_bodies():
        if b.kind == "method" and b.self_ty == TXN and b.is_pub and not b.impl_trait:
            if b.id in known_ids:
                continue
            t = touches(f, b) or any(f.may_reach(b.id, x) for x in ("Transaction::write", "Core::commit"))
            cx.check(not t, "public method `%s` does not touch transaction state" % b.id, "new-public-method|%s" % b.id, b.where(),
                     "public method `%s` touches transaction state but has no row in the gate table" % b.id)
    # mode predicates
    from .c12 import _first_variant
    mb = f.body("Mode::mutable")
    cx.ok("Mode::mutable present", mb.where())


@rule("C08", "C08.R2", "point reads consult the write-set first; a hit never falls through to the snapshot")
def r2(cx):
    f = cx.f
    for fn, snap in (("Transaction::get_with_options", "Snapshot::get"), ("Transaction::get_at", "Snapshot::get_at")):
        b = f.body(fn)
        ws = [c for c in b.calls if c.bb in b.live and c.primary.endswith("BTreeMap::get") and "write_set" in origin_of_operand(b, c.args[0]).field_names()]
        sn = sites(cx, b, snap)
        cx.floor("%s: write-set lookups" % fn, len(ws), 1)
        dom(cx, b, ws, sn, "%s: write-set lookup before snapshot" % fn.split("::")[-1])
        # the snapshot is only consulted on the None edge of the (last) option produced from the lookup
        last = ws[0]
        holder = last
        nxt = [c for c in b.calls if c.bb in b.live and c.args and c.args[0][0] in ("c", "m") and last in origin_of_operand(b, c.args[0]).calls
               and c.primary.split("::")[-1] in ("and_then", "map", "last")]
        e, sw = option_edges(b, (nxt[-1] if nxt else last).dest[0], (nxt[-1] if nxt else last).target)
        if e is None:
            raise AnchorMissing("%s: the write-set lookup result is not matched" % fn)
        some = [s for s, lab in e.items() if lab == frozenset({"1"})]
        r = feasible_reach(b, some)
        if fn == "Transaction::get_with_options":
            cx.check(not any(c.bb in r for c in sn), "a write-set hit returns without consulting the snapshot", "ws-hit-falls-through|%s" % fn, last.where(),
                     "%s: after finding the key in the write-set the code can still read the snapshot" % fn)
        else:
            cx.ok("get_at: a pending write newer than T legitimately falls through to storage", last.where())
    # tombstone in the write-set hides the key
    b = f.body("Transaction::get_with_options")
    it = sites(cx, b, "Entry::is_tombstone")
    for c in it:
        e, sw = bool_edges(b, c.dest[0], c.target)
        if e is None:
            raise AnchorMissing("is_tombstone result unused")
        tr = [s for s, lab in e.items() if True in lab]
        r = feasible_reach(b, tr)
        somes = [x for x, k in exits(b) if x in r and _returns_some_value(b, x)]
        cx.check(not somes, "a pending delete hides the key (tombstone arm never returns a value)", "ws-tombstone-visible", c.where())


@rule("C08", "C08.R7", "history: a pending hard delete hides the key whatever the history options are")
def r7(cx):
    """`history` overlays the write-set: a key whose latest pending entry is a hard delete must be registered (so that the
    snapshot versions of that key are suppressed) before any option-dependent filter (timestamp range, tombstone flag,
    limit) can skip the entry.  Decided on the per-key loop body of history_with_options: from the `Some(entry)` edge of
    `entry_list.last()` every path to the next iteration passes `is_hard_delete()`, and its true edge always registers the key."""
    f = cx.f
    b = f.body("Transaction::history_with_options")
    nx = [c for c in b.calls if c.bb in b.live and c.primary.endswith("Iterator>::next") and "btree_map::Range" in c.primary]
    cx.floor("write-set range loop in history", len(nx), 1)
    last = [c for c in sites(cx, b, "core::slice::last") if c.bb in b.reachable_after([nx[0].bb])]
    hd = sites(cx, b, "Entry::is_hard_delete")
    ins = [c for c in b.calls if c.bb in b.live and c.primary.endswith("HashSet::insert")]
    cx.floor("hard-delete registrations in history", len(ins), 1)
    leave = {c.bb for c in nx} | {x for x, k in exits(b)}
    for l in last:
        e, sw = option_edges(b, l.dest[0], l.target)
        if e is None:
            raise AnchorMissing("history: entry_list.last() is not matched")
        some = [s_ for s_, lab in e.items() if lab == frozenset({"1"})]
        r = b.reachable_from(some, avoid={c.bb for c in hd})
        bad = sorted(x for x in leave if x in r and x not in {c.bb for c in hd})
        cx.check(not bad, "every pending entry is classified by is_hard_delete() before any filter can skip it", "history-filter-before-hard-delete", l.where(),
                 "history_with_options can skip a write-set entry (timestamp range / option filter) before testing is_hard_delete(): a key this transaction "
                 "has hard-deleted is not registered, and the history scan returns its committed versions although get/range of the same transaction hide it")
    for c in hd:
        e, sw = bool_edges(b, c.dest[0], c.target)
        if e is None:
            raise AnchorMissing("history: is_hard_delete() result unused")
        tr = [s_ for s_, lab in e.items() if lab == frozenset({True})]
        r = b.reachable_from(tr, avoid={x.bb for x in ins})
        bad = sorted(x for x in leave if x in r and x not in {x.bb for x in ins})
        cx.check(bool(tr) and not bad, "a pending hard delete is always registered in hard_delete_keys", "history-hard-delete-unregistered", c.where(),
                 "history_with_options can see a pending hard delete and continue without registering the key")
    # the registered set reaches the iterator
    ctor = sites(cx, b, "TransactionHistoryIterator::new")
    for c in ctor:
        reg = any(any(x in ins for x in origin_of_operand(b, a).calls) or "HashSet" in (b.local_ty(a[1][0]) if a[0] in ("c", "m") else "") for a in c.args)
        cx.check(reg, "the hard-delete set is handed to the overlay iterator", "history-hard-delete-set-dropped", c.where())


def _returns_some_value(b, x):
    for st in b.blocks[x]["s"]:
        if st[0] == "=" and st[1] == [0] and st[2][0] == "agg":
            for op in st[2][2]:
                if op[0] in ("c", "m"):
                    o = origin_of_operand(b, op)
                    if any(a.get("variant") == "Some" for a in o.aggs):
                        return True
    return False


@rule("C08", "C08.R4", "savepoint rollback removes exactly the current savepoint's entries from every key")
def r4(cx):
    f = cx.f
    b = f.body("Transaction::rollback_to_savepoint")
    vm = [c for c in b.calls if c.bb in b.live and c.primary.endswith("BTreeMap::values_mut")]
    rt = [c for c in b.calls if c.bb in b.live and c.primary.endswith("Vec::retain")]
    cx.check(bool(vm) and bool(rt) and all(b.in_cycle(c.bb) for c in rt), "every key's entry list is filtered (retain inside the loop over all values)", "rollback-not-all-entries", b.where(),
             "rollback_to_savepoint no longer filters every entry of every key: entries of the rolled-back savepoint can survive")
    # the retain predicate: keep <=> entry.savepoint_no != self.savepoints
    preds = [cb for cb in f.closures_of(b)]
    okp = False
    for cb in preds:
        for cmp_ in comparisons(cb):
            lo, ro = origin_of_operand(cb, cmp_.lhs), origin_of_operand(cb, cmp_.rhs)
            if "savepoint_no" in (lo.field_names() | ro.field_names()):
                rel = frozenset(REL[cmp_.op]) if cmp_.op else None
                ret = origin_of_operand(cb, ["c", [0]])
                keep_ne = rel == frozenset({"lt", "gt"}) and "Not" not in ret.ops
                other = (ro if "savepoint_no" in lo.field_names() else lo)
                cx.check(keep_ne, "retain keeps an entry iff its savepoint differs from the current one", "retain-predicate", cmp_.where(),
                         "the savepoint filter keeps entries whose savepoint_no %s current savepoint" % rel_str(rel))
                src = set(other.field_names())
                # (the closure may capture a local copy taken before the loop: follow the captured variable into the parent)
                for nm in other.upvar_names:
                    for l in b.local_by_name(nm.split("__")[0]):
                        src |= origin_of_operand(b, ["c", [l]], through_calls=False).field_names()
                cx.check("savepoints" in src, "...compared with Transaction.savepoints", "retain-operand", cmp_.where())
                okp = True
    cx.check(okp, "a savepoint comparison exists in the retain predicate", "retain-no-predicate", b.where())
    # empty keys removed
    rm = [c for c in b.calls if c.bb in b.live and c.primary.endswith("BTreeMap::retain")]
    cx.check(bool(rm), "keys left without entries are removed from the write-set", "empty-keys-kept", b.where(),
             "rollback_to_savepoint keeps keys with an empty entry list: reads hit an empty write-set entry")
    never_after(cx, b, rm, rt, "empty keys are dropped after the entries were filtered")
    # zero check first, single decrement
    n = 0
    for cmp_ in comparisons(b):
        lo = origin_of_operand(b, cmp_.lhs)
        if "savepoints" in lo.field_names() and const_value(cmp_.rhs) == 0:
            n += 1
            for c in vm + rt:
                cond = cmp_.condition_to_reach(c.bb)
                cx.check(cond is not None and "eq" not in cond, "nothing is rolled back when no savepoint is set", "no-savepoint-check", cmp_.where())
    cx.floor("savepoint zero test", n, 1)
    decs = [(i, rv) for i, j, lhs, rv, _ in b.assigns() if rv[0] == "bin" and rv[1].startswith("Sub") and "savepoints" in origin_of_operand(b, rv[2]).field_names()]
    cx.check(len(decs) == 1 and not b.in_cycle(decs[0][0]) and const_value(decs[0][1][3]) == 1, "the savepoint counter is decremented exactly once by 1", "savepoint-decrement", b.where())
    sb = f.body("Transaction::set_savepoint")
    incs = [(i, rv) for i, j, lhs, rv, _ in sb.assigns() if rv[0] == "bin" and rv[1].startswith("Add") and "savepoints" in origin_of_operand(sb, rv[2]).field_names()]
    cx.check(len(incs) == 1 and const_value(incs[0][1][3]) == 1, "set_savepoint increments the counter by 1", "savepoint-increment", sb.where())
    # every new entry is tagged with the current savepoint number
    n = 0
    for c in f.callers_of("Entry::new"):
        if f.fn_of(c.body).self_ty != TXN:
            continue
        n += 1
        o = origin_of_operand(c.body, c.args[3])
        cx.check("savepoints" in o.field_names() and not o.ops, "new entries carry the current savepoint number", "entry-savepoint|%s" % f.fn_of(c.body).id, c.where())
    cx.floor("Entry::new call sites in Transaction", n, 4)


@rule("C08", "C08.R5", "commit applies surviving writes in issue order; closes once the writes were taken; rollback/drop discard everything")
def r5(cx):
    f = cx.f
    b = f.coroutine_of("Transaction::commit")
    srt = [c for c in b.calls if c.bb in b.live and c.primary.split("::")[-1] in ("sort_by_key", "sort_by", "sort_unstable_by_key")]
    add = sites(cx, b, "Batch::add_record")
    cc = sites(cx, b, "Core::commit")
    tk = [c for c in b.calls if c.primary.endswith("mem::take") and "write_set" in origin_of_operand(b, c.args[0]).field_names()]
    cx.check(bool(tk), "commit takes the whole write-set", "commit-no-take", b.where())
    cx.check(bool(srt), "commit sorts the pending writes", "commit-no-sort", b.where(), "Transaction::commit no longer orders the pending writes by issue order")
    if srt:
        dom(cx, b, srt, add, "writes sorted before they are added to the batch")
        kc = [cb for cb in f.closures_of(b) if any("seqno" in {p[2] for p in pl[1:] if isinstance(p, list) and p[0] == "f"} for i, j, lhs, rv, _ in cb.assigns() for pl in rvalue_places(rv))]
        cx.check(bool(kc), "the sort key is the per-transaction issue number (seqno)", "sort-key", srt[0].where(), "the commit sort key is no longer Entry.seqno")
        o = origin_of_operand(b, srt[0].args[0], through_calls="all")
        cx.check(any(x in tk for x in o.calls), "the sorted list is the taken write-set", "sort-source", srt[0].where())
    for c in add:
        cx.check(b.in_cycle(c.bb), "every surviving write is added (add_record inside the loop)", "add-not-in-loop", c.where())
    dom(cx, b, add[:1] and tk, cc, "write-set taken before the store commit")
    for c in cc:
        o = origin_of_operand(b, c.args[1], through_calls="all")
        cx.check(o.from_call("Batch::new"), "the committed batch is the one built here", "batch-source", c.where())
    # issue numbers strictly increase
    nb = f.body("Transaction::next_write_seqno")
    incs = [(i, rv) for i, j, lhs, rv, _ in nb.assigns() if rv[0] == "bin" and rv[1].startswith("Add") and "write_seqno" in origin_of_operand(nb, rv[2]).field_names()]
    cx.check(len(incs) == 1 and const_value(incs[0][1][3]) == 1, "issue numbers increase by one per write", "seqno-increment", nb.where())
    # closed = true only after the awaited commit (or on the empty path)
    from .pipeline import await_polls
    polls = await_polls(b, cc)
    for i, j, lhs, rv, line in b.assigns():
        fs = [p for p in lhs[1:] if isinstance(p, list) and p[0] == "f"]
        if fs and fs[-1][2] == "closed" and const_value(_rv0(rv)) == 1:
            after_commit = b.set_dominates(polls, i)
            no_commit = not ({c.bb for c in cc} & b.reachable_after([i]))
            cx.check(after_commit or no_commit, "closed=true only after the store commit was awaited (or nothing to commit)", "closed-early", "%s:%d" % (b.file, line),
                     "Transaction::commit marks the transaction closed before the store commit")
            if after_commit:
                ok, err = result_edges(b, _call_at_poll_result(b, polls)) if False else (None, None)
    # failure of Core::commit returns the error (the `?`) and does not close
    # rollback / drop
    rb = f.body("Transaction::rollback")
    clr = [c for c in rb.calls if c.primary.endswith("BTreeMap::clear") and "write_set" in origin_of_operand(rb, c.args[0]).field_names()]
    cx.check(bool(clr), "rollback clears the write-set", "rollback-keeps-writes", rb.where(), "Transaction::rollback no longer clears the pending writes")
    tks = [c for c in rb.calls if c.primary.endswith("Option::take")]
    fields = set()
    for c in tks:
        fields |= origin_of_operand(rb, c.args[0]).field_names()
    cx.check({"snapshot", "txn_guard"} <= fields, "rollback drops the snapshot and the active-transaction registration", "rollback-keeps-%s" % "-".join(sorted({"snapshot", "txn_guard"} - fields)), rb.where())
    closed_set = any(fs and fs[-1][2] == "closed" for i, j, lhs, rv, _ in rb.assigns() for fs in [[p for p in lhs[1:] if isinstance(p, list) and p[0] == "f"]])
    cx.check(closed_set, "rollback closes the transaction", "rollback-not-closed", rb.where())
    db = f.body("<Transaction as Drop>::drop")
    cx.check(f.may_reach(db.id, "Transaction::rollback"), "dropping a transaction rolls it back", "drop-no-rollback", db.where())


def _rv0(rv):
    ops = [x for x in ([rv[1]] if rv[0] == "use" else [])]
    return ops[0] if ops else ["k", {}]


def _call_at_poll_result(b, polls):
    return None


@rule("C08", "C08.R6", "pending writes never leave the transaction except through commit")
def r6(cx):
    f = cx.f
    n = 0
    allowed_owner_files = ("transaction.rs",)
    for b in f.scan_bodies():
        hit = False
        for i, j, lhs, rv, line in b.assigns():
            for pl in [lhs] + rvalue_places(rv):
                for p in pl[1:]:
                    if isinstance(p, list) and p[0] == "f" and p[2] == "write_set" and p[3].endswith("transaction::Transaction"):
                        hit = True
        if hit:
            n += 1
            cx.check(b.file.endswith("transaction.rs"), "`%s` (reads Transaction.write_set) lives in the transaction module" % b.id, "write-set-escape|%s" % b.id, b.where(),
                     "`%s` outside the transaction module reads Transaction.write_set" % b.id)
    cx.floor("functions touching Transaction.write_set", n, 5)
    adt = f.adt("Transaction")
    ws = [fl for fl in adt["variants"][0]["fields"] if fl[0] == "write_set"]
    cx.check(ws and not ws[0][2], "Transaction.write_set is not a public field", "write-set-public", "%s:%d" % (adt["file"], adt["line"]))
    who_calls(cx, ["Core::commit"], {"Transaction::commit"}, "Core::commit callers", "who:corecommit")


@rule("C08", "C08.R3", "pending-write replace-or-push decision table equals the oracle")
def r3(cx):
    from ..e3 import Region, name_of
    f = cx.f
    b = f.body("Transaction::write")
    leaves = Region(b, 0, marks={"push": "push", "last_mut": "replace", "VacantEntry::insert": "insert_new"}).run()
    rows = []
    bad = []
    n = 0
    for lf in leaves:
        if lf.ret is None or not name_of(lf.ret).startswith("Result::Ok"):
            continue
        c = {}
        for a, v in lf.cond.items():
            if a.startswith("variant(entry("):
                c["occupied"] = (v == "0")  # btree_map::Entry: Vacant = 0? resolved below by marks
                c["entry_variant"] = v
            elif a.startswith("variant(last("):
                c["has_last"] = (v == "Some")
            elif a.startswith("rel(last(") and "savepoint_no" in a:
                c["same_savepoint"] = (v == "eq")
            elif a.startswith("rel(0,last("):
                c["last_explicit"] = (v != "eq")
            elif a.startswith("rel(0,p2.timestamp"):
                c["new_explicit"] = (v != "eq")
            elif a.startswith("rel(last(") and "timestamp" in a:
                c["same_ts"] = (v == "eq")
        act = "insert_new" if "insert_new" in lf.marks else ("push" if "push" in lf.marks else ("replace" if "replace" in lf.marks else "nothing"))
        n += 1
        if act == "insert_new":
            want = "insert_new"
        elif c.get("has_last") is False:
            want = "push"
        elif c.get("same_savepoint") is False:
            want = "push"
        elif c.get("last_explicit") and c.get("new_explicit") and c.get("same_ts") is False:
            want = "push"
        else:
            want = "replace"
        rows.append([str({k: v for k, v in sorted(c.items()) if k != "occupied"}), act, want])
        if act != want:
            bad.append(rows[-1])
    cx.table("Transaction::write replace-or-push", rows)
    cx.check(not bad and n >= 8, "new savepoint => push; same savepoint with two different explicit timestamps => push; otherwise the last pending write is replaced (%d rows)" % n,
             "replace-or-push", b.where(), "Transaction::write decision differs from the oracle: %s" % bad[:3])
    acts = {r[1] for r in rows}
    cx.check({"push", "replace", "insert_new"} <= acts, "all three actions occur in the table", "replace-or-push-actions", b.where())


@rule("C08", "C08.R8", "read-your-writes through range cursors: an absolute seek re-positions the pending-write side absolutely")
def r8(cx):
    from .c09 import rule_ws_seek_absolute
    rule_ws_seek_absolute(cx)


@rule("C08", "C08.R9", "once commit() has taken the pending writes, the transaction is closed on every exit")
def r9(cx):
    """Transaction::commit moves the write-set out (`mem::take`) to build the batch.  From that point on the transaction
    object no longer holds its pending writes: if any exit -- in particular the failing ones (conflict, I/O error, batch
    too large) -- leaves it open, reads silently stop reflecting the transaction's own writes and a second commit() finds an
    empty write-set and reports Ok(()) although nothing was ever written.  Decided on the coroutine of commit(): every path
    from the take to a return passes `closed = true`."""
    f = cx.f
    b = f.coroutine_of("Transaction::commit")
    tk = [c for c in b.calls if c.bb in b.live and c.primary.endswith("mem::take") and "write_set" in origin_of_operand(b, c.args[0]).field_names()]
    cx.floor("write-set take in Transaction::commit", len(tk), 1)
    cl = sorted({i for i, j, lhs, rv, line in b.assigns() if i in b.live and any(isinstance(p, list) and p[0] == "f" and p[2] == "closed" for p in lhs[1:]) and const_value(_rv0(rv)) == 1})
    cx.floor("closed = true sites in Transaction::commit", len(cl), 1)
    exs = [x for x, k in exits(b)] or b.rets
    for c in tk:
        r = b.reachable_after([c.bb], avoid=set(cl))
        bad = sorted(x for x in exs if x in r and x not in cl)
        # an exit block that writes Err and only afterwards (scope drops) reaches the return is still a bad exit unless a close lies in between
        bad = [x for x in bad if any(t in b.reachable_from([x], avoid=set(cl)) for t in b.rets) or x in b.rets]
        cx.check(not bad, "after the write-set was taken every exit of commit() closes the transaction", "commit-failure-leaves-open", b.where(bad[0]) if bad else c.where(),
                 "Transaction::commit can return (with an error) after it moved the pending writes out of the transaction without closing it: the transaction stays usable with an "
                 "empty write-set -- its reads lose read-your-writes and a second commit() returns Ok(()) for writes that were never committed")


@rule("C08", "C08.R10", "a time-travel read inside a transaction considers every pending version of the key")
def r10(cx):
    """The write-set keeps several entries per key when they carry different explicit timestamps, and commit() writes all of
    them.  `get_at(key, T)` must therefore pick, among ALL pending versions of the key, the newest one with timestamp <= T;
    looking only at the last issued entry gives an answer that changes when the transaction commits.  Decided: the
    comparison of a pending entry's timestamp with the query timestamp is evaluated per entry -- it sits in a loop over the
    key's entries or in a closure handed to an iterator over them."""
    from ..core import comparisons
    f = cx.f
    b = f.body("Transaction::get_at")
    tparam = [i for i in range(1, b.argc + 1) if b.local_name(i) == "timestamp"]
    if not tparam:
        tparam = [b.argc]
    bodies = [b] + [c for c in f.closures_of(b)]
    found = 0
    per_entry = 0
    for bb_ in bodies:
        for cm in comparisons(bb_):
            lo, ro = origin_of_operand(bb_, cm.lhs), origin_of_operand(bb_, cm.rhs)
            ent = lambda o: any(nm == "timestamp" and own.endswith("Entry") for own, nm in o.fields)
            qry = lambda o: any(p[0] in tparam for p in o.params) or "timestamp" in o.upvar_names
            if (ent(lo) and qry(ro)) or (ent(ro) and qry(lo)):
                found += 1
                if bb_ is not b or b.in_cycle(cm.bb) or b.blocks[cm.bb].get("inl"):
                    per_entry += 1
    cx.floor("pending-timestamp vs query-timestamp comparisons in get_at", found, 1)
    cx.check(per_entry >= 1, "get_at evaluates `entry.timestamp <= T` for every pending entry of the key", "get_at-last-pending-only", b.where(),
             "Transaction::get_at compares only ONE pending entry (the last issued) with the query timestamp: with several pending versions of a key (explicit timestamps) the "
             "time-travel read ignores an older pending version that is the right answer, or prefers an older one over a newer one that is also <= T; the answer changes at commit")
