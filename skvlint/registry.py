"""rule registry (separate module so that `python -m skvlint.runner` and the rule modules share it)"""

RULES = {}  # prop -> list of (rule_id, title, fn, tiers)


def rule(prop, rid, title, tier="quick"):
    def deco(fn):
        RULES.setdefault(prop, []).append((rid, title, fn, tier))
        return fn
    return deco


