"""rule registry (separate module so that `python -m skvlint.runner` and the rule modules share it)"""

RULES = {}  # prop -> list of (rule_id, title, fn, tiers)


def rule(prop, rid, title, tier="quick"):
    def deco(fn):
        if any(r[0] == rid for r in RULES.get(prop, [])):
            raise RuntimeError("duplicate rule id %s" % rid)
        RULES.setdefault(prop, []).append((rid, title, fn, tier))
        return fn
    return deco


