"""Splicing of private helper functions into their callers, on the raw fact JSON.

Why: most rules are stated about one function's control-flow graph ("in `Core::new`, the WAL is
opened after the repair", "on every path of `commit` to an Ok return ...").  A maintainer who moves
five statements of such a function into a private helper has not changed behaviour, and the rule
must not notice.  Rather than teaching every rule to look through helpers, the caller's MIR is
extended: for every call whose callee is a *private* (visible only in its own module), non-async,
non-recursive local function of the same file, the callee's blocks are copied into the caller.

Shape of the splice (caller block `bb` ends in `call B(args) -> dest, target T`):

    bb:   ...; p1' = use(arg1); ...; pn' = use(argn);  call B(args) -> dest   [succ: E']
    E'..: copy of B's blocks, locals renumbered (+off), blocks renumbered (+boff),
          every `return` replaced by `goto J`
    J:    dest = use(move R')            (R' = B's return place `_0`, renumbered)
          goto T

The call terminator itself is kept (so `calls_to("B")`, call-graph and must-call summaries are
unchanged) but is marked with `inl = {entry, join, after, ret, callee}`; `Call.target` of such a
call is the join block J, i.e. "the continuation after the call", where `dest` has been written.

Never spliced: callees that take or return lock guards (the guard analysis has its own wrapper
summaries and would see a double acquisition), trait-impl methods, closures, diverging calls.
"""
import os
from collections import defaultdict

MAX_CALLEE_BLOCKS = 300   # size of the callee *after* its own helpers were spliced in
MAX_CALLER_BLOCKS = 3000
GUARD_MARKERS = ("Guard<", "MutexGuard", "RwLockReadGuard", "RwLockWriteGuard")


def _strip(s):
    from .core import strip_generics
    return strip_generics(s)


def _map_place(pl, off):
    out = [pl[0] + off]
    for p in pl[1:]:
        if isinstance(p, list) and p and p[0] == "i":
            out.append(["i", p[1] + off])
        else:
            out.append(p)
    return out


def _map_op(op, off):
    if op[0] in ("c", "m"):
        return [op[0], _map_place(op[1], off)]
    return op


def _map_rv(rv, off):
    k = rv[0]
    if k in ("use", "repeat"):
        return [k, _map_op(rv[1], off)]
    if k == "ref":
        return [k, rv[1], _map_place(rv[2], off)]
    if k in ("ptr", "discr", "cfd"):
        return [k, _map_place(rv[1], off)]
    if k == "cast":
        return [k, rv[1], _map_op(rv[2], off), rv[3]]
    if k == "bin":
        return [k, rv[1], _map_op(rv[2], off), _map_op(rv[3], off)]
    if k == "un":
        return [k, rv[1], _map_op(rv[2], off)]
    if k == "agg":
        return [k, rv[1], [_map_op(o, off) for o in rv[2]], rv[3]]
    return rv


def _map_stmt(st, off):
    if st[0] == "=":
        return ["=", _map_place(st[1], off), _map_rv(st[2], off), st[3]]
    if st[0] == "setdiscr":
        return ["setdiscr", _map_place(st[1], off), st[2]]
    if st[0] == "dead":
        return ["dead", st[1] + off]
    return st


def _map_callee(cal, off):
    if "ind" in cal:
        return {"ind": _map_op(cal["ind"], off)}
    return cal


def _map_term(t, off, boff, join):
    k = t[0]
    mb = lambda b: None if b is None else b + boff
    if k == "goto":
        return ["goto", mb(t[1])]
    if k == "switch":
        return ["switch", _map_op(t[1], off), [[v, mb(b)] for v, b in t[2]], mb(t[3])]
    if k == "drop":
        return ["drop", _map_place(t[1], off), t[2], mb(t[3]), mb(t[4]), t[5]]
    if k == "call":
        r = ["call", _map_callee(t[1], off), [_map_op(a, off) for a in t[2]], _map_place(t[3], off),
             mb(t[4]), mb(t[5]), t[6]]
        if len(t) > 7:
            i = dict(t[7])
            for key in ("entry", "join", "after"):
                i[key] = mb(i[key])
            i["ret"] = i["ret"] + off
            r.append(i)
        return r
    if k == "assert":
        return ["assert", _map_op(t[1], off), t[2], mb(t[3]), t[4]]
    if k == "yield":
        return ["yield", _map_op(t[1], off), mb(t[2]), mb(t[3])]
    if k == "falseedge":
        return ["falseedge", mb(t[1]), mb(t[2])]
    if k == "falseunwind":
        return ["falseunwind", mb(t[1])]
    if k == "ret":
        return ["goto", join]
    return t


def baseline_units():
    p = os.path.join(os.path.dirname(os.path.abspath(__file__)), "baseline_private_fns.txt")
    with open(p) as fh:
        return {l.strip() for l in fh if l.strip() and not l.startswith("#")}


def _is_guardish(ty):
    return any(m in ty for m in GUARD_MARKERS)


def inline_private_helpers(raw):
    """mutates raw["bodies"] in place; returns a report dict"""
    bodies = {b["id"]: b for b in raw["bodies"]}
    canon = {}
    for bid in bodies:
        canon.setdefault(_strip(bid), bid)

    def direct_callee(t):
        cal = t[1]
        if "ind" in cal or cal.get("dyn") or cal.get("unres"):
            return None
        p = cal.get("r") or cal.get("p")
        if not p:
            return None
        return canon.get(_strip(p))

    # candidate helpers
    def eligible(b):
        if b.get("kind") not in ("fn", "method"):
            return False
        if not b.get("priv") or b.get("async") or b.get("impl_trait") or b.get("in_trait"):
            return False
        if len(b["blocks"]) > MAX_CALLEE_BLOCKS:
            return False
        tys = [b["locals"][i][0] for i in range(0, b["argc"] + 1)]
        if any(_is_guardish(t) for t in tys):
            return False
        for bl in b["blocks"]:
            if bl["t"][0] in ("yield", "tailcall", "asm", "codrop"):
                return False
        return True

    base = baseline_units()
    cand = {bid for bid, b in bodies.items() if eligible(b) and _strip(bid) not in base}
    # call edges among candidates, to order callees first and to drop recursive ones
    edges = defaultdict(set)
    for bid, b in bodies.items():
        for bl in b["blocks"]:
            if bl["t"][0] == "call":
                c = direct_callee(bl["t"])
                if c in cand:
                    edges[bid].add(c)

    def reaches_self(x):
        seen = set()
        st = list(edges[x])
        while st:
            y = st.pop()
            if y == x:
                return True
            if y in seen:
                continue
            seen.add(y)
            st.extend(edges[y])
        return False

    cand = {x for x in cand if not reaches_self(x)}
    order = []
    state = {}

    def visit(x):
        if state.get(x):
            return
        state[x] = 1
        for y in sorted(edges[x]):
            if y in cand:
                visit(y)
        order.append(x)

    for x in sorted(bodies):
        visit(x)

    report = {"helpers": {}, "sites": 0, "skipped_sites": []}
    done_sites = defaultdict(int)
    all_sites = defaultdict(int)
    for aid in order:
        A = bodies[aid]
        nblocks0 = len(A["blocks"])
        i = 0
        while i < nblocks0:  # only original blocks: nested helpers were already spliced into B itself
            bl = A["blocks"][i]
            t = bl["t"]
            i += 1
            if t[0] != "call" or len(t) > 7:
                continue
            bid = direct_callee(t)
            if bid is None or bid not in cand or bid == aid:
                continue
            all_sites[bid] += 1
            B = bodies[bid]
            if bl["c"] or t[4] is None or B["file"] != A["file"] or len(t[2]) != B["argc"] \
                    or len(B["blocks"]) > MAX_CALLEE_BLOCKS \
                    or len(A["blocks"]) + len(B["blocks"]) > MAX_CALLER_BLOCKS:
                report["skipped_sites"].append([aid, bid])
                continue
            off = len(A["locals"])
            boff = len(A["blocks"])
            join = boff + len(B["blocks"])
            short = B.get("name") or bid.split("::")[-1]
            for ty, nm in B["locals"]:
                A["locals"].append([ty, ("%s::%s" % (short, nm)) if nm else None])
            for k, a in enumerate(t[2]):
                bl["s"].append(["=", [off + 1 + k], ["use", a], bl["l"]])
            for cb in B["blocks"]:
                A["blocks"].append({
                    "c": cb["c"], "s": [_map_stmt(s, off) for s in cb["s"]],
                    "t": _map_term(cb["t"], off, boff, join), "l": cb["l"], "x": cb["x"], "inl": bid})
            A["blocks"].append({"c": False, "s": [["=", t[3], ["use", ["m", [off]]], bl["l"]]],
                                "t": ["goto", t[4]], "l": bl["l"], "x": bl["x"], "inl": bid})
            info = {"entry": boff, "join": join, "after": t[4], "ret": off, "callee": bid}
            bl["t"] = ["call", t[1], t[2], t[3], boff, t[5], t[6], info]
            A.setdefault("inlined", [])
            if bid not in A["inlined"]:
                A["inlined"].append(bid)
                for x in B.get("inlined", []):
                    if x not in A["inlined"]:
                        A["inlined"].append(x)
            done_sites[bid] += 1
            report["sites"] += 1
    # helpers mentioned as a function value (passed to map(), stored, ...) have callers we do not see
    mentioned = set()

    def scan_op(op):
        if op and op[0] == "k" and isinstance(op[1], dict) and "fn" in op[1]:
            cal = op[1]["fn"]
            pth = cal.get("r") or cal.get("p")
            if pth and canon.get(_strip(pth)) in cand:
                mentioned.add(canon[_strip(pth)])

    for b in bodies.values():
        for bl in b["blocks"]:
            for st in bl["s"]:
                if st[0] == "=":
                    rv = st[2]
                    for x in rv[1:]:
                        if isinstance(x, list) and x and x[0] == "k":
                            scan_op(x)
                        elif isinstance(x, list) and x and isinstance(x[0], list):
                            for y in x:
                                if isinstance(y, list):
                                    scan_op(y)
            if bl["t"][0] == "call":
                for a in bl["t"][2]:
                    scan_op(a)
    for bid in cand:
        if all_sites[bid]:
            report["helpers"][bid] = {"sites": all_sites[bid], "spliced": done_sites[bid]}
            # a helper is `absorbed` when every call site was spliced: its own body then adds nothing
            bodies[bid]["absorbed"] = (all_sites[bid] == done_sites[bid]) and bid not in mentioned
    return report


if __name__ == "__main__":
    import json
    import sys
    if "--freeze" in sys.argv:
        os.environ["SKV_NO_INLINE"] = "1"
        from .runner import get_facts
        f, _ = get_facts()
        names = sorted({_strip(b.id) for b in f.bodies.values() if b.is_priv})
        p = os.path.join(os.path.dirname(os.path.abspath(__file__)), "baseline_private_fns.txt")
        with open(p) as fh:
            head = [l for l in fh if l.startswith("#")]
        with open(p, "w") as fh:
            fh.write("".join(head) + "\n".join(names) + "\n")
        print("froze %d private functions" % len(names))
    else:
        from .runner import get_facts
        f, _ = get_facts()
        print(json.dumps(f.inline_report, indent=1))
