"""Splicing of private helper functions into their callers, on the raw fact JSON.

Why: most rules are stated about one function's control-flow graph ("in `Core::new`, the WAL is
opened after the repair", "on every path of `commit` to an Ok return ...").  A maintainer who moves
five statements of such a function into a private helper has not changed behaviour, and the rule
must not notice.  Rather than teaching every rule to look through helpers, the caller's MIR is
extended: for every call whose callee is a *private* (visible only in its own module), non-async,
non-recursive local function of the same file, the callee's blocks are copied into the caller.

Shape of the splice (caller block `bb` ends in `call B(args) -> dest, target T`):

    bb:   ...; p1' = use(arg1); ...; pn' = use(argn);  call B(args) -> dest   [succ: E']
    E'..: copy of B's blocks, locals renumbered (+off), blocks renumbered (+boff),
          every `return` replaced by `goto J`
    J:    dest = use(move R')            (R' = B's return place `_0`, renumbered)
          goto T

The call terminator itself is kept (so `calls_to("B")`, call-graph and must-call summaries are
unchanged) but is marked with `inl = {entry, join, after, ret, callee}`; `Call.target` of such a
call is the join block J, i.e. "the continuation after the call", where `dest` has been written.

Never spliced: callees that take or return lock guards (the guard analysis has its own wrapper
summaries and would see a double acquisition), trait-impl methods, closures, diverging calls.
"""
import hashlib
import json
import os
import re
from collections import defaultdict

MAX_CALLEE_BLOCKS = 300   # size of the callee *after* its own helpers were spliced in
MAX_CALLER_BLOCKS = 3000
GUARD_MARKERS = ("Guard<", "MutexGuard", "RwLockReadGuard", "RwLockWriteGuard")


def _strip(s):
    from .core import strip_generics
    return strip_generics(s)


def _map_place(pl, off):
    out = [pl[0] + off]
    for p in pl[1:]:
        if isinstance(p, list) and p and p[0] == "i":
            out.append(["i", p[1] + off])
        else:
            out.append(p)
    return out


def _map_op(op, off):
    if op[0] in ("c", "m"):
        return [op[0], _map_place(op[1], off)]
    return op


def _map_rv(rv, off):
    k = rv[0]
    if k in ("use", "repeat"):
        return [k, _map_op(rv[1], off)]
    if k == "ref":
        return [k, rv[1], _map_place(rv[2], off)]
    if k in ("ptr", "discr", "cfd"):
        return [k, _map_place(rv[1], off)]
    if k == "cast":
        return [k, rv[1], _map_op(rv[2], off), rv[3]]
    if k == "bin":
        return [k, rv[1], _map_op(rv[2], off), _map_op(rv[3], off)]
    if k == "un":
        return [k, rv[1], _map_op(rv[2], off)]
    if k == "agg":
        return [k, rv[1], [_map_op(o, off) for o in rv[2]], rv[3]]
    return rv


def _map_stmt(st, off):
    if st[0] == "=":
        return ["=", _map_place(st[1], off), _map_rv(st[2], off), st[3]]
    if st[0] == "setdiscr":
        return ["setdiscr", _map_place(st[1], off), st[2]]
    if st[0] == "dead":
        return ["dead", st[1] + off]
    return st


def _map_callee(cal, off):
    if "ind" in cal:
        return {"ind": _map_op(cal["ind"], off)}
    return cal


def _map_term(t, off, boff, join):
    k = t[0]
    mb = lambda b: None if b is None else b + boff
    if k == "goto":
        return ["goto", mb(t[1])]
    if k == "switch":
        return ["switch", _map_op(t[1], off), [[v, mb(b)] for v, b in t[2]], mb(t[3])]
    if k == "drop":
        return ["drop", _map_place(t[1], off), t[2], mb(t[3]), mb(t[4]), t[5]]
    if k == "call":
        r = ["call", _map_callee(t[1], off), [_map_op(a, off) for a in t[2]], _map_place(t[3], off),
             mb(t[4]), mb(t[5]), t[6]]
        if len(t) > 7:
            i = dict(t[7])
            for key in ("entry", "join", "after", "dispatch"):
                if key in i:
                    i[key] = mb(i[key])
            if "ret" in i:
                i["ret"] = i["ret"] + off
            r.append(i)
        return r
    if k == "assert":
        return ["assert", _map_op(t[1], off), t[2], mb(t[3]), t[4]]
    if k == "yield":
        return ["yield", _map_op(t[1], off), mb(t[2]), mb(t[3])]
    if k == "falseedge":
        return ["falseedge", mb(t[1]), mb(t[2])]
    if k == "falseunwind":
        return ["falseunwind", mb(t[1])]
    if k == "ret":
        return ["goto", join]
    return t


_BASE = None


def baseline():
    """{canonical fn name: [is_private, fingerprint]} of the tree the rules were written and confirmed on"""
    global _BASE
    if _BASE is None:
        p = os.path.join(os.path.dirname(os.path.abspath(__file__)), "baseline_fns.json")
        with open(p) as fh:
            _BASE = json.load(fh)["fns"]
    return _BASE


def baseline_units():
    return {n for n, (pv, _) in baseline().items() if pv}


def fingerprint(b):
    """name-independent identity of a function: signature types + multiset of resolved callees (without itself).
    A pure rename keeps it; used to recognise a renamed baseline function (git-style rename detection)."""
    me = _strip(b["id"])
    cal = []
    for bl in b["blocks"]:
        t = bl["t"]
        if t[0] == "call" and "ind" not in t[1]:
            n = _strip(t[1].get("r") or t[1].get("p") or "")
            if n != me:
                cal.append(n)
    norm = lambda ty: re.sub(r"\{(closure|coroutine|async [a-z ]+)@[^}]*\}", "{closure}", ty)
    sig = [b.get("kind"), _strip(b.get("self_ty") or ""), b["argc"], [norm(b["locals"][i][0]) for i in range(0, b["argc"] + 1)]]
    return hashlib.sha1(json.dumps([sig, sorted(cal)]).encode()).hexdigest()[:16]


def detect_renames(raw):
    """{new canonical name: old canonical name} for baseline functions that are missing under their old name while
    exactly one function unknown to the baseline has the same fingerprint, in the same impl (self type)"""
    base = baseline()
    cur = {}
    for b in raw["bodies"]:
        if b.get("kind") in ("fn", "method"):
            cur[_strip(b["id"])] = b
    missing = [n for n in base if n not in cur]
    fresh = [n for n in cur if n not in base]
    if not missing or not fresh:
        return {}
    by_fp = defaultdict(list)
    for n in fresh:
        by_fp[fingerprint(cur[n])].append(n)
    old_by_fp = defaultdict(list)
    for n in missing:
        old_by_fp[base[n][1]].append(n)
    res = {}
    for fp_, olds in old_by_fp.items():
        news = by_fp.get(fp_, [])
        if len(olds) == 1 and len(news) == 1:
            o, n = olds[0], news[0]
            if o.rsplit("::", 1)[0] == n.rsplit("::", 1)[0]:  # same module / impl path, only the last segment changed
                res[n] = o
    return res


def _is_guardish(ty):
    return any(m in ty for m in GUARD_MARKERS)


def closure_fingerprints(raw):
    """{canonical parent fn: sorted list of fingerprints of the closures defined (at any depth) in it}"""
    res = defaultdict(list)
    for b in raw["bodies"]:
        if b.get("kind") == "closure" and b.get("root"):
            res[_strip(b["root"])].append(fingerprint(b))
    return {k: sorted(v) for k, v in res.items()}


def splice_closures(raw):
    """A closure that is passed straight to a non-local higher-order function (`iter.any(|x| ..)`, `.for_each(..)`,
    `.map_err(..)`, `.retain(..)` ...) and that is NOT one of the baseline closures of its function is copied into the
    function's CFG at the call site, as code that runs zero or more times:

        bb:  call std_fn(.., closure, ..) -> dest        [succ: D]
        D:   switch <unknown> [-> E' (closure entry), -> T (old target)]
        E'.. copy of the closure's blocks; `_1'` = &closure value (so captured variables resolve through the
             closure aggregate); every return -> D

    Purpose: rewriting a `for` loop as an iterator chain (or back) does not hide the loop body from the rules."""
    bodies = {b["id"]: b for b in raw["bodies"]}
    base = baseline_closures()
    report = {"sites": 0, "closures": []}
    budget = defaultdict(list)
    for par, fps in base.items():
        budget[par] = list(fps)
    # decide which closures are new: per root fn, remove baseline fingerprints one by one
    new_closures = set()
    for b in sorted(raw["bodies"], key=lambda x: x["id"]):
        if b.get("kind") != "closure" or not b.get("root"):
            continue
        root = _strip(b["root"])
        root = raw.get("_closure_root_alias", {}).get(root, root)
        fp_ = fingerprint(b)
        if fp_ in budget.get(root, []):
            budget[root].remove(fp_)
        else:
            new_closures.add(b["id"])
    if not new_closures:
        return report
    for A in sorted(raw["bodies"], key=lambda x: -len(x["id"])):  # inner closures first
        nblocks0 = len(A["blocks"])
        # local -> closure def (through plain moves)
        cdef = {}
        for bl in A["blocks"]:
            for st in bl["s"]:
                if st[0] == "=" and len(st[1]) == 1 and st[2][0] == "agg" and st[2][1] == "closure" and st[2][3]:
                    cdef[st[1][0]] = st[2][3]["def"]
        if not cdef:
            continue
        ch = True
        while ch:
            ch = False
            for bl in A["blocks"]:
                for st in bl["s"]:
                    if st[0] == "=" and len(st[1]) == 1 and st[1][0] not in cdef and st[2][0] == "use" and st[2][1][0] in ("c", "m") \
                            and len(st[2][1][1]) == 1 and st[2][1][1][0] in cdef:
                        cdef[st[1][0]] = cdef[st[2][1][1][0]]
                        ch = True
        def ok_closure(did):
            D = bodies.get(did)
            return D is not None and did in new_closures and D.get("kind") == "closure" and D["file"] == A["file"] \
                and len(D["blocks"]) <= MAX_CALLEE_BLOCKS and len(A["blocks"]) + len(D["blocks"]) <= MAX_CALLER_BLOCKS

        def copy_in(bl, D, did, env_local, others, ret_to):
            """append a copy of closure D; returns (local offset, entry block).  Block numbers: entry = current end"""
            off = len(A["locals"])
            boff = len(A["blocks"])
            for ty, nm in D["locals"]:
                A["locals"].append([ty, ("closure::%s" % nm) if nm else None])
            env_ty = D["locals"][1][0] if len(D["locals"]) > 1 else ""
            if env_ty.startswith("&"):
                bl["s"].append(["=", [off + 1], ["ref", env_ty.startswith("&mut"), [env_local]], bl["l"]])
            else:
                bl["s"].append(["=", [off + 1], ["use", ["c", [env_local]]], bl["l"]])
            # the closure's own parameters are supplied by the higher-order function; provenance: whatever it hands to the
            # closure derives from its other arguments (`opt.is_some_and(|&v| ..)`: v comes from opt)
            for k in range(2, D["argc"] + 1):
                if others:
                    for x in others:
                        bl["s"].append(["=", [off + k], ["use", ["c", x[1]]], bl["l"]])
                else:
                    bl["s"].append(["=", [off + k], ["use", ["k", {"ty": "closure-argument"}]], bl["l"]])
            for cb in D["blocks"]:
                A["blocks"].append({"c": cb["c"], "s": [_map_stmt(s_, off) for s_ in cb["s"]],
                                    "t": _map_term(cb["t"], off, boff, ret_to), "l": cb["l"], "x": cb["x"], "inl": did})
            A.setdefault("inlined", [])
            if did not in A["inlined"]:
                A["inlined"].append(did)
            D["absorbed"] = True
            report["sites"] += 1
            report["closures"].append(did)
            return off, boff

        # pass 1: higher-order call sites with a new closure argument; lazy `filter` adapters and what consumes them
        sites_ = []
        adapter = {}   # local holding an iterator adapter -> index into sites_ of the filter site that produced it
        for i in range(nblocks0):
            bl = A["blocks"][i]
            t = bl["t"]
            if t[0] != "call" or len(t) > 7 or bl["c"] or t[4] is None or "ind" in t[1] or t[1].get("local"):
                continue
            for a in t[2]:
                if a[0] in ("c", "m") and len(a[1]) == 1 and a[1][0] in cdef and ok_closure(cdef[a[1][0]]):
                    sites_.append({"i": i, "a": a, "did": cdef[a[1][0]], "filter": _strip(t[1].get("p", "")).endswith("Iterator::filter"), "consumed": False})
                    if sites_[-1]["filter"] and len(t[3]) == 1:
                        adapter[t[3][0]] = len(sites_) - 1
        ch = bool(adapter)
        while ch:
            ch = False
            for bl in A["blocks"][:nblocks0]:
                for st in bl["s"]:
                    if st[0] == "=" and len(st[1]) == 1 and st[1][0] not in adapter and st[2][0] == "use" and st[2][1][0] in ("c", "m") \
                            and len(st[2][1][1]) == 1 and st[2][1][1][0] in adapter:
                        adapter[st[1][0]] = adapter[st[2][1][1][0]]
                        ch = True
                t = bl["t"]
                if t[0] == "call" and len(t[3]) == 1 and t[3][0] not in adapter and t[2] and t[2][0][0] in ("c", "m") and len(t[2][0][1]) == 1 \
                        and t[2][0][1][0] in adapter and ("::iter::" in t[6]):
                    adapter[t[3][0]] = adapter[t[2][0][1][0]]   # .map(..) / .enumerate() / .rev() ... keep the filter in front
                    ch = True
        for sx in sites_:
            t = A["blocks"][sx["i"]]["t"]
            r0 = t[2][0] if t[2] else None
            if not sx["filter"] and r0 and r0[0] in ("c", "m") and len(r0[1]) == 1 and r0[1][0] in adapter and r0 is not sx["a"]:
                sx["pred"] = adapter[r0[1][0]]
                sites_[sx["pred"]]["consumed"] = True
        # pass 2: splice
        for sx in sites_:
            if sx["filter"] and sx["consumed"]:
                continue   # runs lazily, inside its consumer (below)
            bl = A["blocks"][sx["i"]]
            t = bl["t"]
            a = sx["a"]
            did = sx["did"]
            T = t[4]
            disp = len(A["blocks"])
            A["blocks"].append(None)  # placeholder for the dispatch block
            others = [x for x in t[2] if x is not a and x[0] in ("c", "m")]
            if "pred" in sx:
                # `iter.filter(pred).<consumer>(body)`: body runs only for elements on which pred returned true
                px = sites_[sx["pred"]]
                pt = A["blocks"][px["i"]]["t"]
                pothers = [x for x in pt[2] if x is not px["a"] and x[0] in ("c", "m")]
                sel = len(A["blocks"])
                A["blocks"].append(None)
                poff, pentry = copy_in(bl, bodies[px["did"]], px["did"], px["a"][1][0], pothers, sel)
                coff, centry = copy_in(bl, bodies[did], did, a[1][0], others, disp)
                A["blocks"][sel] = {"c": False, "s": [], "t": ["switch", ["c", [poff]], [["0", disp]], centry], "l": bl["l"], "x": bl["x"], "inl": px["did"]}
                first = pentry
            else:
                coff, centry = copy_in(bl, bodies[did], did, a[1][0], others, disp)
                first = centry
            A["blocks"][disp] = {"c": False, "s": [], "t": ["switch", ["k", {"ty": "bool"}], [["0", T]], first], "l": bl["l"], "x": bl["x"], "inl": did}
            after = T if not (len(t) > 7) else t[7]["after"]
            bl["t"] = ["call", t[1], t[2], t[3], disp, t[5], t[6], {"hof": True, "after": after, "dispatch": disp, "closure": did}]
    return report


_BASE_CL = None


def baseline_closures():
    global _BASE_CL
    if _BASE_CL is None:
        p = os.path.join(os.path.dirname(os.path.abspath(__file__)), "baseline_fns.json")
        with open(p) as fh:
            _BASE_CL = json.load(fh).get("closures", {})
    return _BASE_CL


def inline_private_helpers(raw):
    """mutates raw["bodies"] in place; returns a report dict"""
    bodies = {b["id"]: b for b in raw["bodies"]}
    canon = {}
    for bid in bodies:
        canon.setdefault(_strip(bid), bid)

    back = {v: k for k, v in raw.get("_renamed", {}).items()}  # real (new) name -> baseline name carried by the body id

    def direct_callee(t):
        cal = t[1]
        if "ind" in cal or cal.get("dyn") or cal.get("unres"):
            return None
        p = cal.get("r") or cal.get("p")
        if not p:
            return None
        n = _strip(p)
        return canon.get(back.get(n, n))

    # candidate helpers
    def eligible(b):
        if b.get("kind") not in ("fn", "method"):
            return False
        if not b.get("priv") or b.get("async") or b.get("impl_trait") or b.get("in_trait"):
            return False
        if len(b["blocks"]) > MAX_CALLEE_BLOCKS:
            return False
        tys = [b["locals"][i][0] for i in range(0, b["argc"] + 1)]
        if any(_is_guardish(t) for t in tys):
            return False
        for bl in b["blocks"]:
            if bl["t"][0] in ("yield", "tailcall", "asm", "codrop"):
                return False
        return True

    base = baseline_units()
    cand = {bid for bid, b in bodies.items() if eligible(b) and _strip(bid) not in base}
    # call edges among candidates, to order callees first and to drop recursive ones
    edges = defaultdict(set)
    for bid, b in bodies.items():
        for bl in b["blocks"]:
            if bl["t"][0] == "call":
                c = direct_callee(bl["t"])
                if c in cand:
                    edges[bid].add(c)

    def reaches_self(x):
        seen = set()
        st = list(edges[x])
        while st:
            y = st.pop()
            if y == x:
                return True
            if y in seen:
                continue
            seen.add(y)
            st.extend(edges[y])
        return False

    cand = {x for x in cand if not reaches_self(x)}
    order = []
    state = {}

    def visit(x):
        if state.get(x):
            return
        state[x] = 1
        for y in sorted(edges[x]):
            if y in cand:
                visit(y)
        order.append(x)

    for x in sorted(bodies):
        visit(x)

    report = {"helpers": {}, "sites": 0, "skipped_sites": []}
    done_sites = defaultdict(int)
    all_sites = defaultdict(int)
    for aid in order:
        A = bodies[aid]
        nblocks0 = len(A["blocks"])
        i = 0
        while i < nblocks0:  # only original blocks: nested helpers were already spliced into B itself
            bl = A["blocks"][i]
            t = bl["t"]
            i += 1
            if t[0] != "call" or len(t) > 7:
                continue
            bid = direct_callee(t)
            if bid is None or bid not in cand or bid == aid:
                continue
            all_sites[bid] += 1
            B = bodies[bid]
            if bl["c"] or t[4] is None or B["file"] != A["file"] or len(t[2]) != B["argc"] \
                    or len(B["blocks"]) > MAX_CALLEE_BLOCKS \
                    or len(A["blocks"]) + len(B["blocks"]) > MAX_CALLER_BLOCKS:
                report["skipped_sites"].append([aid, bid])
                continue
            off = len(A["locals"])
            boff = len(A["blocks"])
            join = boff + len(B["blocks"])
            short = B.get("name") or bid.split("::")[-1]
            for ty, nm in B["locals"]:
                A["locals"].append([ty, ("%s::%s" % (short, nm)) if nm else None])
            for k, a in enumerate(t[2]):
                bl["s"].append(["=", [off + 1 + k], ["use", a], bl["l"]])
            for cb in B["blocks"]:
                A["blocks"].append({
                    "c": cb["c"], "s": [_map_stmt(s, off) for s in cb["s"]],
                    "t": _map_term(cb["t"], off, boff, join), "l": cb["l"], "x": cb["x"], "inl": bid})
            A["blocks"].append({"c": False, "s": [["=", t[3], ["use", ["m", [off]]], bl["l"]]],
                                "t": ["goto", t[4]], "l": bl["l"], "x": bl["x"], "inl": bid})
            info = {"entry": boff, "join": join, "after": t[4], "ret": off, "callee": bid}
            bl["t"] = ["call", t[1], t[2], t[3], boff, t[5], t[6], info]
            A.setdefault("inlined", [])
            if bid not in A["inlined"]:
                A["inlined"].append(bid)
                for x in B.get("inlined", []):
                    if x not in A["inlined"]:
                        A["inlined"].append(x)
            done_sites[bid] += 1
            report["sites"] += 1
    # helpers mentioned as a function value (passed to map(), stored, ...) have callers we do not see
    mentioned = set()

    def scan_op(op):
        if op and op[0] == "k" and isinstance(op[1], dict) and "fn" in op[1]:
            cal = op[1]["fn"]
            pth = cal.get("r") or cal.get("p")
            if pth and canon.get(_strip(pth)) in cand:
                mentioned.add(canon[_strip(pth)])

    for b in bodies.values():
        for bl in b["blocks"]:
            for st in bl["s"]:
                if st[0] == "=":
                    rv = st[2]
                    for x in rv[1:]:
                        if isinstance(x, list) and x and x[0] == "k":
                            scan_op(x)
                        elif isinstance(x, list) and x and isinstance(x[0], list):
                            for y in x:
                                if isinstance(y, list):
                                    scan_op(y)
            if bl["t"][0] == "call":
                for a in bl["t"][2]:
                    scan_op(a)
    for bid in cand:
        if all_sites[bid]:
            report["helpers"][bid] = {"sites": all_sites[bid], "spliced": done_sites[bid]}
            # a helper is `absorbed` when every call site was spliced: its own body then adds nothing
            bodies[bid]["absorbed"] = (all_sites[bid] == done_sites[bid]) and bid not in mentioned
    return report


if __name__ == "__main__":
    import sys
    if "--freeze" in sys.argv:
        os.environ["SKV_NO_INLINE"] = "1"
        from .runner import get_facts
        f, _ = get_facts()
        fns = {}
        for b in f.raw["bodies"]:
            if b.get("kind") in ("fn", "method"):
                fns[_strip(b["id"])] = [1 if b.get("priv") else 0, fingerprint(b)]
        p = os.path.join(os.path.dirname(os.path.abspath(__file__)), "baseline_fns.json")
        with open(p, "w") as fh:
            json.dump({"comment": "functions of surrealkv at the time the rules were written and confirmed: [private?, fingerprint]. "
                                  "Private ones are analysed as units; any other private helper is spliced into its callers; a baseline "
                                  "function missing under its name is looked up by fingerprint (rename detection). Regenerate with "
                                  "python3 -m skvlint.inline --freeze only after re-confirming the rules on the new tree.",
                       "fns": dict(sorted(fns.items())), "closures": dict(sorted(closure_fingerprints(f.raw).items()))}, fh, indent=0)
        print("froze %d functions (%d private)" % (len(fns), sum(1 for v in fns.values() if v[0])))
    else:
        from .runner import get_facts
        f, _ = get_facts()
        print(json.dumps({"renamed": f.renamed, "inline": f.inline_report}, indent=1))
