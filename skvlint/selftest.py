"""engine self-test on /verif/selftest: zero-expected rules must be able to fire"""
import os
import subprocess
import sys

from .core import Facts, guard_regions, lock_wrappers, result_fate, comparisons, origin_of_operand, mirror
from .e3 import Region

VERIF = os.path.dirname(os.path.dirname(os.path.abspath(__file__)))


def run():
    out = os.path.join(VERIF, ".cache", "selftest-facts.json")
    env = dict(os.environ, SKV_FACTS_CRATE="selftest")
    r = subprocess.run([os.path.join(VERIF, "bin", "extract.sh"), os.path.join(VERIF, "selftest"), out, os.path.join(VERIF, ".cache", "selftest-target")],
                       env=env, stdout=subprocess.PIPE, stderr=subprocess.STDOUT, text=True)
    if r.returncode != 0:
        return {"ok": False, "error": r.stdout[-800:]}
    f = Facts(out)
    res = {}
    w = lock_wrappers(f)
    ys = {}
    for b in f.bodies.values():
        for g in guard_regions(b, w):
            if [y for y in b.yields if y in g.region]:
                ys[b.id] = g.lock
    res["await_under_lock_found"] = any("await_under_lock" in k for k in ys)
    res["release_then_await_clean"] = not any("release_then_await" in k for k in ys)
    # lock order
    edges = set()
    for b in f.bodies.values():
        gs = guard_regions(b, w)
        for g in gs:
            for g2 in gs:
                if g2 is not g and g2.call.bb in g.region:
                    edges.add((g.lock, g2.lock))
    res["lock_inversion_found"] = ("Two.a", "Two.b") in edges and ("Two.b", "Two.a") in edges
    # dropped results
    b = f.body("dropping")
    fates = sorted(str(result_fate(b, c)) for c in b.calls if c.ret_ty.startswith("std::result::Result<"))
    res["fates"] = fates
    drops = [c for c in b.calls if (result_fate(b, c) or "").startswith("dropped")]
    # `let _ = f()`, `f().ok()` are found; `if let Ok(v) = f() { return .. }` with a fall-through Err arm is a documented blind spot
    res["dropped_found"] = len([c for c in drops if c.primary.split("::")[-1] == "fallible"]) >= 2
    res["infallible_recognised"] = all((not f.call_can_fail(c)) for c in b.calls if "infallible" in c.primary) and any(f.call_can_fail(c) for c in b.calls if c.primary.endswith("fallible") and "in" not in c.primary.split("::")[-1][:2])
    # comparison shapes via E3
    tabs = {}
    for fn in ("vis1", "vis2", "vis3", "vis_wrong"):
        bb = f.body(fn)
        t = set()
        for lf in Region(bb, 0, force_bool_return=True).run():
            rel = [v for k, v in lf.cond.items() if k.startswith("rel(")]
            if lf.ret[1]:
                t.add(rel[0] if rel else "all")
        tabs[fn] = sorted(t)
    res["tables"] = tabs
    # names are positional (p1 = seq, p2 = horizon): rel(p1,p2)
    res["comparison_shapes_agree"] = tabs["vis1"] == tabs["vis2"] == tabs["vis3"] == ["eq", "lt"] and tabs["vis_wrong"] == ["lt"]
    # helper splicing: dominance and decision tables through private helpers
    rep = f.inline_report or {}
    res["helpers_spliced"] = rep.get("sites", 0)
    cb = f.body("Log::commit")
    sy = [c for c in cb.calls if c.bb in cb.live and c.names & {"store::fsync", "fsync"}]
    ak = [c for c in cb.calls if c.bb in cb.live and c.names & {"store::ack", "ack"}]
    # `seal` has an early `return Err`, so plain dominance fails; the variant-aware reachability must prune that path at the caller's `?`
    from .core import feasible_reach
    res["splice_plain_dominance_is_insufficient"] = not all(cb.set_dominates({c.bb for c in sy}, a.bb) for a in ak)
    res["splice_dominance_found"] = bool(sy) and bool(ak) and not any(a.bb in feasible_reach(cb, [0], avoid={c.bb for c in sy}) for a in ak)
    ub = f.body("Log::commit_unsynced")
    res["splice_missing_sync_found"] = not [c for c in ub.calls if c.bb in ub.live and c.names & {"store::fsync", "fsync"}]
    t4 = set()
    for lf in Region(f.body("vis4"), 0, force_bool_return=True).run():
        rel = [v for k, v in lf.cond.items() if k.startswith("rel(")]
        if lf.ret[1]:
            t4.add(rel[0] if rel else "all")
    tabs["vis4"] = sorted(t4)
    res["splice_table_agrees"] = tabs["vis4"] == ["eq", "lt"]
    res["absorbed_helpers_skipped"] = all(b.absorbed for b in f.bodies.values() if b.id.endswith("Log::seal") or b.id.endswith("store::le")) and \
        not any(b.id.endswith("Log::seal") for b in f.scan_bodies())
    res["ok"] = all(v for k, v in res.items() if isinstance(v, bool))
    return res


if __name__ == "__main__":
    import json
    r = run()
    print(json.dumps(r, indent=1))
    sys.exit(0 if r.get("ok") else 1)
