"""debug helper: python3 -m skvlint.dump <facts.json> <body-name> [--calls]"""
import sys
from .core import Facts


def fmt_place(b, p):
    s = "_%d" % p[0]
    nm = b.local_name(p[0])
    if nm:
        s += "{%s}" % nm
    for e in p[1:]:
        if e == "*":
            s = "(*%s)" % s
        elif isinstance(e, list) and e[0] == "f":
            s += ".%s" % (e[2] or e[1])
        elif isinstance(e, list) and e[0] == "v":
            s += " as %s" % e[1]
        elif isinstance(e, list) and e[0] == "i":
            s += "[_%d]" % e[1]
        else:
            s += "[%s]" % (e,)
    return s


def fmt_op(b, o):
    if o[0] in ("c", "m"):
        return ("move " if o[0] == "m" else "") + fmt_place(b, o[1])
    k = o[1]
    if "v" in k:
        return "const %s_%s" % (k["v"], k["ty"])
    if "fn" in k:
        return "fn(%s)" % k["fn"].get("r", k["fn"]["p"])
    if "cdef" in k:
        return "const %s" % k["cdef"]
    return "const<%s>" % k["ty"]


def fmt_rv(b, rv):
    k = rv[0]
    if k == "use":
        return fmt_op(b, rv[1])
    if k == "ref":
        return "&%s%s" % ("mut " if rv[1] else "", fmt_place(b, rv[2]))
    if k == "bin":
        return "%s(%s, %s)" % (rv[1], fmt_op(b, rv[2]), fmt_op(b, rv[3]))
    if k == "un":
        return "%s(%s)" % (rv[1], fmt_op(b, rv[2]))
    if k == "cast":
        return "%s as %s" % (fmt_op(b, rv[2]), rv[3])
    if k == "discr":
        return "discr(%s)" % fmt_place(b, rv[1])
    if k == "cfd":
        return "cfd(%s)" % fmt_place(b, rv[1])
    if k == "agg":
        x = rv[3]
        nm = rv[1]
        if x and "adt" in x:
            nm = "%s::%s" % (x["adt"], x["variant"])
        elif x and "def" in x:
            nm = "%s %s" % (rv[1], x["def"])
        return "%s{%s}" % (nm, ", ".join(fmt_op(b, o) for o in rv[2]))
    return str(rv)


def dump(b, calls_only=False):
    print("== %s (%s) %s  argc=%d" % (b.id, b.kind, b.where(), b.argc))
    for i, bl in enumerate(b.blocks):
        if bl["c"]:
            continue
        if i not in b.live:
            continue
        t = bl["t"]
        if calls_only and t[0] != "call":
            continue
        print("bb%d: (line %d)" % (i, bl["l"]))
        if not calls_only:
            for st in bl["s"]:
                if st[0] == "=":
                    print("    %s = %s" % (fmt_place(b, st[1]), fmt_rv(b, st[2])))
                elif st[0] == "setdiscr":
                    print("    setdiscr %s %s" % (fmt_place(b, st[1]), st[2]))
        if t[0] == "call":
            c = b.call_at[i]
            print("    %s = CALL %s(%s) -> bb%s   %s" % (
                fmt_place(b, t[3]), "|".join(c.targets) or "<ind>",
                ", ".join(fmt_op(b, a) for a in t[2]), t[4],
                "[dyn]" if c.callee.get("dyn") else ("[unres]" if c.callee.get("unres") else "")))
        elif t[0] == "switch":
            print("    SWITCH %s %s else bb%d" % (fmt_op(b, t[1]), ["%s->bb%d" % (v, x) for v, x in t[2]], t[3]))
        elif t[0] == "drop":
            print("    DROP %s : %s -> bb%d %s" % (fmt_place(b, t[1]), t[2], t[3], t[5] or ""))
        elif t[0] == "yield":
            print("    YIELD -> bb%d" % t[2])
        elif t[0] == "assert":
            print("    ASSERT %s==%s -> bb%d" % (fmt_op(b, t[1]), t[2], t[3]))
        else:
            print("    %s" % (t,))


if __name__ == "__main__":
    f = Facts(sys.argv[1])
    name = sys.argv[2]
    bs = f.bodies_like(name) or ([f.bodies[name]] if name in f.bodies else [])
    for b in bs:
        dump(b, "--calls" in sys.argv)
