"""E3 — finite decision-table tabulator.

Abstract interpretation of a LOOP-FREE region of one MIR body over a finite predicate domain:
every value that is not a compile-time constant is an *atom* (a named unknown) which the code
may only branch on: booleans, enum discriminants, and three-valued relations `a ? b`
(lt/eq/gt) for comparisons.  The region is explored path-sensitively; at every branch on an
undetermined atom the exploration forks, recording the choice.  The result is the complete
decision table of the region: (assignment of the atoms consulted on the path) -> outcome.

Nothing of surrealkv is executed: the interpreter walks MIR facts.  Anything it does not
understand becomes a fresh atom (sound: more rows, never fewer) or, where that would hide a
data dependency the table's consumer relies on, raises E3Error (fail closed).  Loops are not
unrolled: re-entering a block already on the current path ends the path with outcome
('loop', bb).
"""
from .core import strip_generics, REL, ALLREL


class E3Error(Exception):
    pass


# ---- symbolic values ---------------------------------------------------------------------
# ("c", int)                     constant (ints, bools, chars; unit = ("c", 0))
# ("a", name)                    boolean atom
# ("n", value)                   logical negation
# ("and"/"or", v1, v2)
# ("rel", a, b, frozenset)       true iff relation(a,b) in set   (a, b canonical names, a < b lexicographically)
# ("ord", a, b)                  std::cmp::Ordering of (a,b)
# ("agg", adt, variant_index, variant_name, [values])   known enum / struct value
# ("tup", [values])
# ("e", name, adt)               atom of enum type: only its discriminant can be branched on
# ("o", name)                    opaque atom (anything else)
# ("ref", key)                   reference to an env slot

def C(v):
    return ("c", int(v))


def is_const(v):
    return v[0] == "c"


def neg(v):
    if v[0] == "c":
        return C(0 if v[1] else 1)
    if v[0] == "n":
        return v[1]
    if v[0] == "rel":
        return ("rel", v[1], v[2], frozenset(ALLREL - v[3]))
    return ("n", v)


def name_of(v):
    k = v[0]
    if k == "c":
        return str(v[1])
    if k in ("a", "o"):
        return v[1]
    if k == "e":
        return v[1]
    if k == "n":
        return "!" + name_of(v[1])
    if k in ("and", "or"):
        return "(%s %s %s)" % (name_of(v[1]), "&&" if k == "and" else "||", name_of(v[2]))
    if k == "rel":
        return "rel(%s,%s)in%s" % (v[1], v[2], sorted(v[3]))
    if k == "ord":
        return "cmp(%s,%s)" % (v[1], v[2])
    if k == "agg":
        return "%s::%s(%s)" % (v[1].split("::")[-1], v[3], ",".join(name_of(x) for x in v[4]))
    if k == "tup":
        return "(%s)" % ",".join(name_of(x) for x in v[1])
    if k == "ref":
        return "&%s" % (v[1],)
    return str(v)


_MIR = {"lt": "gt", "gt": "lt", "eq": "eq"}


def make_rel(op, a, b):
    """relation value for `a op b` on two non-constant operands (names)"""
    allowed = frozenset(REL[op])
    an, bn = name_of(a), name_of(b)
    if an == bn:
        return C(1 if "eq" in allowed else 0)
    if an > bn:
        an, bn = bn, an
        allowed = frozenset(_MIR[x] for x in allowed)
    return ("rel", an, bn, allowed)


class Leaf:
    def __init__(self, cond, outcome, ret, marks, trace):
        self.cond = cond  # dict atom-name -> value (bool / variant name / 'lt'|'eq'|'gt')
        self.outcome = outcome
        self.ret = ret
        self.marks = marks
        self.trace = trace

    def row(self):
        return {"if": {k: self.cond[k] for k in sorted(self.cond)}, "then": self.outcome,
                "ret": name_of(self.ret) if self.ret is not None else None, "marks": list(self.marks)}


class Region:
    def __init__(self, body, start, stops=None, marks=None, presets=None, call_models=None, max_paths=50000,
                 atom_namer=None, entry_env=None, local_names=None, force_bool_return=False, observe=None, capture=None):
        """start: block index.  stops: {bb: label} blocks ending a path when *entered*.
        marks: {call pattern: label} calls recorded on the path.  presets: {local: value}."""
        self.b = body
        self.f = body.facts
        self.start = start
        self.stops = stops or {}
        self.marks = marks or {}
        self.presets = presets or {}
        self.models = call_models or {}
        self.max_paths = max_paths
        self.leaves = []
        self.namer = atom_namer
        self.entry_env = entry_env or {}
        self.local_names = local_names or {}
        self.force_bool_return = force_bool_return
        self.observe = observe or {}
        self.capture = capture or {}  # {call pattern: (label, arg index)} -> mark "label=<value>"

    # ---- naming of unknowns ---------------------------------------------------------------
    def place_name(self, pl):
        b = self.b
        if pl[0] in self.local_names:
            base = self.local_names[pl[0]]
        elif 1 <= pl[0] <= b.argc and b.kind in ("fn", "method"):
            base = "p%d" % pl[0]  # positional: renaming a parameter must not change the table
        else:
            base = b.local_name(pl[0]) or ("_%d" % pl[0])
        s = base
        for p in pl[1:]:
            if p == "*":
                continue
            if isinstance(p, list) and p[0] == "f":
                s += "." + (p[2] or str(p[1]))
            elif isinstance(p, list) and p[0] == "v":
                s += "@" + p[1]
            elif isinstance(p, list) and p[0] == "i":
                s += "[%s]" % (b.local_name(p[1]) or "_%d" % p[1])
            else:
                s += "[..]"
        if self.namer:
            s = self.namer(s)
        return s

    def fresh_for_place(self, pl):
        ty = self.place_ty(pl)
        nm = self.place_name(pl)
        if ty == "bool":
            return ("a", nm)
        if ty in self.f.adts and self.f.adts[ty]["kind"] == "enum":
            return ("e", nm, ty)
        return ("o", nm)

    def place_ty(self, pl):
        """best-effort static type of a place: exact for plain locals and single field projections"""
        b = self.b
        ty = b.local_ty(pl[0])
        for p in pl[1:]:
            if p == "*":
                ty = ty.lstrip("&").strip()
                if ty.startswith("mut "):
                    ty = ty[4:]
            elif isinstance(p, list) and p[0] == "f":
                adt = self.f.adts.get(strip_type(ty))
                if adt and adt["kind"] == "struct":
                    fl = [x for x in adt["variants"][0]["fields"] if x[0] == p[2]]
                    ty = fl[0][1] if fl else "?"
                else:
                    ty = "?"
            else:
                ty = "?"
        return strip_type(ty) if strip_type(ty) in self.f.adts else ty

    # ---- evaluation -------------------------------------------------------------------------
    def read_place(self, env, pl):
        key = self.key(pl)
        if key in env:
            v = env[key]
            return v
        # projections of known aggregates
        if len(pl) > 1:
            base = [pl[0]]
            v = env.get(self.key(base))
            rest = pl[1:]
            while v is not None and rest:
                p = rest[0]
                if v[0] == "ref":
                    v = env.get(v[1])
                    if p == "*":
                        rest = rest[1:]
                    continue
                if p == "*":
                    rest = rest[1:]
                    continue
                if isinstance(p, list) and p[0] == "v":
                    rest = rest[1:]
                    continue
                if isinstance(p, list) and p[0] == "f":
                    if v[0] == "agg" and p[1] < len(v[4]):
                        v = v[4][p[1]]
                        rest = rest[1:]
                        continue
                    if v[0] == "tup" and p[1] < len(v[1]):
                        v = v[1][p[1]]
                        rest = rest[1:]
                        continue
                    if v[0] in ("o", "e", "a"):
                        # field of an opaque value: name it after the opaque + field
                        nm = v[1] + "." + (p[2] or str(p[1]))
                        fty = None
                        v = self.typed_atom(nm, self.place_ty(pl))
                        rest = rest[1:]
                        continue
                v = None
            if v is not None and not rest:
                return v
        v = self.fresh_for_place(pl)
        env[key] = v
        return v

    def typed_atom(self, nm, ty):
        if ty == "bool":
            return ("a", nm)
        if ty in self.f.adts and self.f.adts[ty]["kind"] == "enum":
            return ("e", nm, ty)
        return ("o", nm)

    def key(self, pl):
        return self.place_name_raw(pl)

    def place_name_raw(self, pl):
        s = "_%d" % pl[0]
        for p in pl[1:]:
            if p == "*":
                s += "*"
            elif isinstance(p, list) and p[0] == "f":
                s += ".%d" % p[1]
            elif isinstance(p, list) and p[0] == "v":
                s += "@%d" % p[2]
            elif isinstance(p, list) and p[0] == "i":
                s += "[_%d]" % p[1]
            else:
                s += "[?]"
        return s

    def operand(self, env, op):
        if op[0] in ("c", "m"):
            return self.read_place(env, op[1])
        k = op[1]
        if "v" in k:
            return C(k["v"])
        if "cdef" in k:
            c = self.f.consts.get(k["cdef"])
            if c and c["v"] is not None:
                return C(c["v"])
            return ("o", "const:" + k["cdef"].split("::")[-1])
        if k.get("ty") == "()":
            return C(0)
        if "fn" in k:
            return ("o", "fn:" + k["fn"].get("p", "?"))
        return ("o", "const<%s>" % k.get("ty"))

    def binop(self, op, a, b):
        base = op.replace("WithOverflow", "").replace("Unchecked", "")
        if a[0] == "c" and b[0] == "c":
            x, y = a[1], b[1]
            try:
                r = {"Add": x + y, "Sub": x - y, "Mul": x * y, "BitAnd": x & y, "BitOr": x | y, "BitXor": x ^ y,
                     "Eq": int(x == y), "Ne": int(x != y), "Lt": int(x < y), "Le": int(x <= y), "Gt": int(x > y), "Ge": int(x >= y),
                     "Shl": x << y, "Shr": x >> y}[base]
            except KeyError:
                return ("o", "%s(%s,%s)" % (base, x, y))
            if op.endswith("WithOverflow"):
                return ("tup", [C(r), C(0)])
            return C(r)
        if base in REL and ((a[0] == "ord" and b[0] == "agg") or (b[0] == "ord" and a[0] == "agg")):
            o, g, sw = (a, b, False) if a[0] == "ord" else (b, a, True)
            if g[1] == "std::cmp::Ordering":
                rank = {"Less": -1, "Equal": 0, "Greater": 1}
                rv = {"lt": -1, "eq": 0, "gt": 1}
                gv = rank[g[3]]
                import operator
                fn = {"Eq": operator.eq, "Ne": operator.ne, "Lt": operator.lt, "Le": operator.le, "Gt": operator.gt, "Ge": operator.ge}[base]
                allowed = frozenset(r for r, x in rv.items() if (fn(gv, x) if sw else fn(x, gv)))
                flip = o[1] > o[2]
                x, y = (o[2], o[1]) if flip else (o[1], o[2])
                if flip:
                    allowed = frozenset(_MIR[r] for r in allowed)
                return ("rel", x, y, allowed)
        if base in ("Eq", "Ne") and a[0] == "agg" and b[0] == "agg" and a[1] == b[1] and a[3] != b[3]:
            # two values of one enum in different variants (None vs Some(..)) are never equal
            return C(0 if base == "Eq" else 1)
        if base in REL:
            # bool == const
            if base in ("Eq", "Ne") and (a[0] == "c" or b[0] == "c"):
                v, c = (b, a) if a[0] == "c" else (a, b)
                if v[0] in ("a", "n", "and", "or", "rel"):
                    r = v if c[1] else neg(v)
                    return r if base == "Eq" else neg(r)
            return make_rel(base, a, b)
        if base in ("BitAnd", "BitOr") and all(x[0] in ("a", "n", "and", "or", "rel", "c") for x in (a, b)):
            if a[0] == "c":
                a, b = b, a
            if b[0] == "c":
                if base == "BitAnd":
                    return a if b[1] else C(0)
                return C(1) if b[1] else a
            return ("and" if base == "BitAnd" else "or", a, b)
        r = ("o", "%s(%s,%s)" % (base, name_of(a), name_of(b)))
        if op.endswith("WithOverflow"):
            return ("tup", [r, C(0)])
        return r

    def rvalue(self, env, rv):
        k = rv[0]
        if k == "use":
            return self.operand(env, rv[1])
        if k == "ref":
            pl = rv[2]
            # reference to a slot: keep as alias when it is a plain local or a tracked key
            return ("ref", self.key(pl)) if self.key(pl) in env or len(pl) == 1 else self._ref_to_fresh(env, pl)
        if k == "cfd":
            return self.read_place(env, rv[1])
        if k == "ptr":
            return ("ref", self.key(rv[1]))
        if k == "cast":
            return self.operand(env, rv[2])
        if k == "bin":
            return self.binop(rv[1], self.operand(env, rv[2]), self.operand(env, rv[3]))
        if k == "un":
            v = self.operand(env, rv[2])
            if rv[1] == "Not":
                return neg(v)
            if v[0] == "c":
                return C(-v[1])
            return ("o", "%s(%s)" % (rv[1], name_of(v)))
        if k == "discr":
            v = self.read_place(env, rv[1])
            while v[0] == "ref":
                v = env.get(v[1]) or ("o", v[1])
            if v[0] == "agg":
                adt = self.f.adts.get(v[1])
                if adt and adt["kind"] == "enum" and adt["variants"][v[2]]["discr"] is not None:
                    return C(adt["variants"][v[2]]["discr"])
                return C(v[2])
            if v[0] == "ord":
                return ("dord", v[1], v[2])
            if v[0] == "e":
                return ("de", v[1], v[2])
            if v[0] in ("o", "a"):
                return ("de", v[1], self.place_ty(rv[1]))
            return ("de", name_of(v), self.place_ty(rv[1]))
        if k == "agg":
            vals = [self.operand(env, o) for o in rv[2]]
            x = rv[3]
            if rv[1] == "tuple":
                return ("tup", vals)
            if rv[1] == "adt":
                return ("agg", x["adt"], x["vi"], x["variant"], vals)
            return ("o", "agg:%s" % rv[1])
        if k == "repeat":
            return ("o", "repeat")
        return ("o", "rv:%s" % k)

    def _ref_to_fresh(self, env, pl):
        k = self.key(pl)
        if k not in env:
            env[k] = self.read_place(env, pl)
        return ("ref", k)

    def deref(self, env, v):
        n = 0
        while v[0] == "ref" and n < 10:
            n += 1
            v = env.get(v[1]) or ("o", v[1])
        return v

    # ---- branching ----------------------------------------------------------------------------
    def branch_bool(self, v, cond):
        """yield (truth, cond') for every way the boolean value can evaluate under cond"""
        k = v[0]
        if k == "c":
            yield bool(v[1]), cond
        elif k == "a" or k == "o":
            if v[1] in cond:
                yield bool(cond[v[1]]), cond
            else:
                for t in (False, True):
                    c2 = dict(cond)
                    c2[v[1]] = t
                    yield t, c2
        elif k == "n":
            for t, c2 in self.branch_bool(v[1], cond):
                yield (not t), c2
        elif k == "and":
            for t, c2 in self.branch_bool(v[1], cond):
                if not t:
                    yield False, c2
                else:
                    for t2, c3 in self.branch_bool(v[2], c2):
                        yield t2, c3
        elif k == "or":
            for t, c2 in self.branch_bool(v[1], cond):
                if t:
                    yield True, c2
                else:
                    for t2, c3 in self.branch_bool(v[2], c2):
                        yield t2, c3
        elif k == "rel":
            key = "rel(%s,%s)" % (v[1], v[2])
            cur = cond.get(key)
            poss = [cur] if cur else ["lt", "eq", "gt"]
            # group by outcome to avoid needless splitting
            for want in (False, True):
                vals = [x for x in poss if (x in v[3]) == want]
                for x in vals:
                    c2 = dict(cond)
                    c2[key] = x
                    yield want, c2
        elif k == "tup":
            raise E3Error("branch on tuple")
        else:
            nm = name_of(v)
            if nm in cond:
                yield bool(cond[nm]), cond
            else:
                for t in (False, True):
                    c2 = dict(cond)
                    c2[nm] = t
                    yield t, c2

    def switch(self, v, targets, otherwise, cond):
        """yield (next_bb, cond')"""
        if v[0] == "c":
            for val, t in targets:
                if int(val) == v[1] or (v[1] < 0 and int(val) == v[1] % (1 << 64)):
                    yield t, cond
                    return
            yield otherwise, cond
            return
        if v[0] in ("a", "n", "and", "or", "rel") or (v[0] == "o"):
            # boolean switch: listed value 0 = false
            vals = [val for val, _ in targets]
            if set(vals) <= {"0", "1"}:
                for truth, c2 in self.branch_bool(v, cond):
                    want = "1" if truth else "0"
                    hit = [t for val, t in targets if val == want]
                    yield (hit[0] if hit else otherwise), c2
                return
        if v[0] == "dord":
            flip = v[1] > v[2]
            x, y = (v[2], v[1]) if flip else (v[1], v[2])
            key = "rel(%s,%s)" % (x, y)
            cur = cond.get(key)
            m = {"255": "lt", "-1": "lt", "0": "eq", "1": "gt", "18446744073709551615": "lt"}
            if flip:
                m = {k_: _MIR[r_] for k_, r_ in m.items()}
            used = set()
            for val, t in targets:
                r = m.get(val)
                if r is None:
                    raise E3Error("Ordering discriminant %s" % val)
                used.add(r)
                if cur is None or cur == r:
                    c2 = dict(cond)
                    c2[key] = r
                    yield t, c2
            for r in sorted(ALLREL - used):
                if cur is None or cur == r:
                    c2 = dict(cond)
                    c2[key] = r
                    yield otherwise, c2
            return
        if v[0] == "de":
            nm, ty = v[1], v[2]
            adt = self.f.adts.get(ty) or self.f.adts.get(strip_type(ty)) or _builtin_enum(ty)
            key = "variant(%s)" % nm
            cur = cond.get(key)
            if adt is None:
                # unknown enum: listed values + other
                for val, t in targets:
                    if cur is None or cur == val:
                        c2 = dict(cond)
                        c2[key] = val
                        yield t, c2
                if cur is None or cur == "other":
                    c2 = dict(cond)
                    c2[key] = "other"
                    yield otherwise, c2
                return
            byd = {x["discr"] if x["discr"] is not None else str(i): x["name"] for i, x in enumerate(adt["variants"])}
            used = set()
            for val, t in targets:
                vn = byd.get(val, val)
                used.add(vn)
                if cur is None or cur == vn:
                    c2 = dict(cond)
                    c2[key] = vn
                    yield t, c2
            for vn in [x for x in byd.values() if x not in used]:
                if cur is None or cur == vn:
                    c2 = dict(cond)
                    c2[key] = vn
                    yield otherwise, c2
            return
        # integer-valued opaque: fork over listed constants + other
        nm = name_of(v)
        cur = cond.get(nm)
        for val, t in targets:
            if cur is None or cur == val:
                c2 = dict(cond)
                c2[nm] = val
                yield t, c2
        if cur is None or cur == "other":
            c2 = dict(cond)
            c2[nm] = "other"
            yield otherwise, c2

    # ---- calls ------------------------------------------------------------------------------------
    def call(self, env, c, cond):
        args = [self.deref(env, self.operand(env, a)) for a in c.args]
        for pat, fn in self.models.items():
            if pat in c.names:
                r = fn(self, c, args, env)
                if r is not None:
                    return r
        meth = c.primary.split("::")[-1]
        tr = c.callee.get("trait", "")
        if tr in ("std::cmp::PartialOrd", "std::cmp::PartialEq") and meth in ("lt", "le", "gt", "ge", "eq", "ne") and len(args) == 2:
            op = {"lt": "Lt", "le": "Le", "gt": "Gt", "ge": "Ge", "eq": "Eq", "ne": "Ne"}[meth]
            return self.binop(op, args[0], args[1])
        if (tr in ("std::cmp::Ord", "std::cmp::PartialOrd") and meth in ("cmp",)) or (meth == "compare" and len(args) >= 2):
            a, b = name_of(args[-2]), name_of(args[-1])
            if a == b:
                return ("agg", "std::cmp::Ordering", 1, "Equal", [])
            return ("ord", a, b)
        if c.primary in ("std::option::Option::is_some", "std::option::Option::is_none") and args and args[0][0] == "agg":
            some = args[0][3] == "Some"
            return C(int(some if meth == "is_some" else not some))
        if c.primary in ("std::option::Option::is_some", "std::option::Option::is_none") and args:
            base = ("a", "is_some(%s)" % name_of(args[0]))
            return base if meth == "is_some" else neg(base)
        if c.primary == "std::ops::Not::not" and args:
            return neg(args[0])
        if c.primary in ("std::clone::Clone::clone", "std::convert::Into::into", "std::convert::From::from", "std::ops::Deref::deref",
                         "std::borrow::Borrow::borrow", "std::convert::AsRef::as_ref") and args:
            return args[0]
        if any(t in ("std::ops::Deref::deref",) or t.endswith("Deref>::deref") or t.endswith("::clone") for t in c.targets) and args:
            return args[0]
        nm = "%s(%s)" % (meth, ",".join(name_of(a) for a in args))
        if self.namer:
            nm = self.namer(nm)
        rt = strip_type(c.ret_ty)
        if c.ret_ty == "bool":
            return ("a", nm)
        if rt in self.f.adts and self.f.adts[rt]["kind"] == "enum":
            return ("e", nm, rt)
        if c.ret_ty.startswith("std::option::Option<"):
            return ("e", nm, "std::option::Option")
        if c.ret_ty.startswith("std::result::Result<"):
            return ("e", nm, "std::result::Result")
        return ("o", nm)

    # ---- exploration ----------------------------------------------------------------------------------
    def run(self):
        b = self.b
        env0 = {}
        for l, v in self.presets.items():
            env0["_%d" % l] = v
        env0.update(self.entry_env)
        stack = [(self.start, env0, {}, (), (self.start,))]
        npaths = 0
        while stack:
            bb, env, cond, marks, trace = stack.pop()
            steps = 0
            while True:
                steps += 1
                if steps > 4000:
                    raise E3Error("path too long in %s" % b.id)
                if bb in self.stops and (bb != self.start or len(trace) > 1):
                    self._leaf(cond, ("stop", self.stops[bb]), None, marks, trace, env)
                    break
                bl = b.blocks[bb]
                for st in bl["s"]:
                    if st[0] == "=":
                        v = self.rvalue(env, st[2])
                        self.assign(env, st[1], v)
                    elif st[0] == "setdiscr":
                        env.pop(self.key(st[1]), None)
                t = bl["t"]
                k = t[0]
                nxt = None
                if k == "goto":
                    nxt = [(t[1], cond)]
                elif k in ("falseedge", "falseunwind"):
                    nxt = [(t[1], cond)]
                elif k == "drop":
                    nxt = [(t[3], cond)]
                elif k == "assert":
                    nxt = [(t[3], cond)]
                elif k == "ret":
                    rv_ = self.deref(env, env.get("_0", ("o", "_0")))
                    if self.force_bool_return and rv_[0] in ("a", "n", "and", "or", "rel"):
                        for truth, c2 in self.branch_bool(rv_, cond):
                            self._leaf(c2, ("return",), C(int(truth)), marks, trace, env)
                    else:
                        self._leaf(cond, ("return",), rv_, marks, trace, env)
                    break
                elif k == "unreachable":
                    break
                elif k == "yield":
                    nxt = [(t[2], cond)]
                elif k == "call":
                    c = b.call_at[bb]
                    for pat, lab in self.marks.items():
                        if pat in c.names:
                            marks = marks + (lab,)
                    for pat, (lab, ai) in self.capture.items():
                        if pat in c.names and ai < len(c.args):
                            marks = marks + ("%s=%s" % (lab, name_of(self.deref(env, self.operand(env, c.args[ai])))),)
                    if c.target is None:
                        self._leaf(cond, ("diverges", c.primary.split("::")[-1]), None, marks, trace)
                        break
                    if c.inl and not any(pat in c.names for pat in self.models):
                        # spliced private helper: walk its copy; the join block writes dest
                        nxt = [(c.inl["entry"], cond)]
                    else:
                        v = self.call(env, c, cond)
                        self.assign(env, c.dest, v)
                        nxt = [(c.inl["after"] if c.inl else c.target, cond)]
                elif k == "switch":
                    v = self.deref(env, self.operand(env, t[1]))
                    nxt = list(self.switch(v, t[2], t[3], cond))
                else:
                    raise E3Error("terminator %s" % k)
                # continue along the first successor, push the others
                cont = None
                for (x, c2) in nxt:
                    if x in trace and not (x in self.stops):
                        self._leaf(c2, ("loop", x), None, marks, trace + (x,), env)
                        continue
                    if cont is None:
                        cont = (x, c2)
                    else:
                        npaths += 1
                        if npaths > self.max_paths:
                            raise E3Error("more than %d paths in region of %s" % (self.max_paths, b.id))
                        stack.append((x, dict(env), c2, marks, trace + (x,)))
                if cont is None:
                    break
                bb, cond = cont
                trace = trace + (bb,)
        return self.leaves

    def assign(self, env, pl, v):
        key = self.key(pl)
        if len(pl) == 1:
            # drop stale projection slots of this local
            pre = key + "."
            for k in [k for k in env if k.startswith(pre) or k.startswith(key + "@") or k.startswith(key + "*")]:
                del env[k]
            env[key] = v
            return
        # write through a reference: `(*_5) = v` where _5 = &slot
        base = env.get("_%d" % pl[0])
        if base is not None and base[0] == "ref" and pl[1:] == ["*"]:
            env[base[1]] = v
            return
        if base is not None and base[0] == "ref" and pl[1] == "*":
            # projection behind a reference: store under the referenced slot's key + projection
            env[base[1] + self.place_name_raw([0] + pl[2:])[2:]] = v
            return
        # field of a known aggregate
        if base is not None and base[0] in ("agg", "tup") and len(pl) == 2 and isinstance(pl[1], list) and pl[1][0] == "f":
            vals = list(base[4] if base[0] == "agg" else base[1])
            if pl[1][1] < len(vals):
                vals[pl[1][1]] = v
                env["_%d" % pl[0]] = ("agg", base[1], base[2], base[3], vals) if base[0] == "agg" else ("tup", vals)
                return
        env[key] = v

    def _leaf(self, cond, outcome, ret, marks, trace, env=None):
        lf = Leaf(dict(cond), outcome, ret, marks, trace)
        lf.obs = {}
        if env is not None:
            for nm, key in self.observe.items():
                v = env.get(key)
                lf.obs[nm] = None if v is None else self.deref(env, v)
        self.leaves.append(lf)


def strip_type(ty):
    ty = ty.strip()
    while ty.startswith("&"):
        ty = ty[1:].strip()
        if ty.startswith("mut "):
            ty = ty[4:]
        if ty.startswith("'"):
            ty = ty.split(" ", 1)[1] if " " in ty else ty
    i = ty.find("<")
    return ty[:i] if i > 0 else ty


_BUILTIN = {
    "std::option::Option": {"kind": "enum", "variants": [{"name": "None", "discr": "0"}, {"name": "Some", "discr": "1"}]},
    "std::result::Result": {"kind": "enum", "variants": [{"name": "Ok", "discr": "0"}, {"name": "Err", "discr": "1"}]},
    "std::ops::Bound": {"kind": "enum", "variants": [{"name": "Included", "discr": "0"}, {"name": "Excluded", "discr": "1"}, {"name": "Unbounded", "discr": "2"}]},
    "std::collections::Bound": {"kind": "enum", "variants": [{"name": "Included", "discr": "0"}, {"name": "Excluded", "discr": "1"}, {"name": "Unbounded", "discr": "2"}]},
    "std::cmp::Ordering": {"kind": "enum", "variants": [{"name": "Less", "discr": "255"}, {"name": "Equal", "discr": "0"}, {"name": "Greater", "discr": "1"}]},
    "std::ops::ControlFlow": {"kind": "enum", "variants": [{"name": "Continue", "discr": "0"}, {"name": "Break", "discr": "1"}]},
}


def _builtin_enum(ty):
    return _BUILTIN.get(strip_type(ty))


# ---- table utilities -----------------------------------------------------------------------------------

def table(leaves):
    return [l.row() for l in leaves]


def completions(cond, atoms_domains):
    """all total assignments over `atoms_domains` consistent with partial `cond`"""
    import itertools
    free = [a for a in atoms_domains if a not in cond]
    for combo in itertools.product(*[atoms_domains[a] for a in free]):
        d = dict(cond)
        d.update(zip(free, combo))
        yield d
