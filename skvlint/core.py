"""skvlint core: fact model, call graph, CFG analyses (dominance, must-pass-through),
def-use provenance, guard regions.  Python 3 stdlib only.

All analyses work on the facts emitted by /verif/driver (MIR `mir_built` of the lib crate).
Nothing here executes surrealkv code.
"""
import json
import os
import re
from collections import defaultdict, deque


class AnchorMissing(Exception):
    """An anchor a rule depends on cannot be resolved on the current tree (fail closed)."""


# ----------------------------------------------------------------------------------------
# names


def strip_generics(s):
    """remove `::<...>` generic argument lists (balanced) from a def path"""
    out = []
    i = 0
    n = len(s)
    while i < n:
        if s.startswith("::<", i):
            depth = 0
            j = i + 2
            while j < n:
                if s[j] == "<":
                    depth += 1
                elif s[j] == ">" and s[j - 1] != "-":
                    depth -= 1
                    if depth == 0:
                        break
                j += 1
            i = j + 1
            continue
        out.append(s[i])
        i += 1
    return "".join(out)


def strip_type_generics(s):
    """`a::B<X, Y>` -> `a::B` (for type strings)"""
    out = []
    depth = 0
    for i, ch in enumerate(s):
        if ch == "<":
            depth += 1
            continue
        if ch == ">" and i > 0 and s[i - 1] != "-":
            depth -= 1
            continue
        if depth == 0:
            out.append(ch)
    return "".join(out)


_TRAIT_FORM = re.compile(r"^<(.+) as ([^>]+(?:<.*>)?)>::(.+)$")


def last_seg(path):
    path = strip_type_generics(path).strip()
    path = path.lstrip("&").replace("mut ", "").replace("dyn ", "").strip()
    return path.split("::")[-1]


def aliases(name):
    """set of names under which a function def path can be addressed by rules"""
    name = strip_generics(name)
    res = {name}
    m = _TRAIT_FORM.match(name)
    if m:
        s, t, meth = m.group(1), m.group(2), m.group(3)
        s1, t1 = last_seg(s), last_seg(t)
        res.add("%s::%s" % (s1, meth))
        res.add("%s::%s" % (t1, meth))
        res.add("<%s as %s>::%s" % (s1, t1, meth))
        res.add("<%s as %s>::%s" % (strip_type_generics(s), strip_type_generics(t), meth))
    else:
        parts = name.split("::")
        for i in range(1, len(parts)):
            res.add("::".join(parts[i:]))
    return res


# ----------------------------------------------------------------------------------------
# model


class Call:
    __slots__ = ("body", "bb", "callee", "args", "dest", "target", "unwind", "ret_ty", "line",
                 "targets", "names", "expansion", "inl", "copy_of", "hof")

    def __init__(self, body, bb, t, line, expansion):
        self.body = body
        self.bb = bb
        self.callee = t[1]
        self.args = t[2]
        self.dest = t[3]
        self.target = t[4]
        self.unwind = t[5]
        self.ret_ty = t[6]
        # spliced private helper (see inline.py): the CFG successor is the copy's entry block, the
        # continuation "after the call" (where dest is written) is the join block
        self.inl = t[7] if len(t) > 7 else None
        self.hof = None
        if self.inl and self.inl.get("hof"):
            # higher-order std call whose closure argument was spliced in (inline.splice_closures): the CFG successor is
            # the dispatch block, the continuation after the call is the original target
            self.hof = self.inl
            self.inl = None
            self.target = self.hof["after"]
        if self.inl:
            self.target = self.inl["join"]
        self.line = line
        self.expansion = expansion
        self.targets = []  # canonical names of possible callees
        self.names = set()  # aliases of all possible callees

    @property
    def primary(self):
        return self.targets[0] if self.targets else "<indirect>"

    def where(self):
        return "%s:%d" % (self.body.file, self.line)

    def __repr__(self):
        return "Call(%s in %s bb%d @%s)" % (self.primary, self.body.id, self.bb, self.where())


class Body:
    def __init__(self, raw, facts):
        self.raw = raw
        self.facts = facts
        self.id = raw["id"]
        self.kind = raw["kind"]
        self.file = raw["file"]
        self.line = raw["line"]
        self.argc = raw["argc"]
        self.locals = raw["locals"]
        self.blocks = raw["blocks"]
        self.root = raw.get("root")
        self.parent = raw.get("parent")
        self.is_pub = raw.get("pub", False)
        self.self_ty = raw.get("self_ty")
        self.impl_trait = raw.get("impl_trait")
        self.name = raw.get("name")
        self.inlined = raw.get("inlined", [])  # private helpers whose blocks were spliced in
        self.absorbed = raw.get("absorbed", False)  # private helper spliced into every caller
        self.is_priv = raw.get("priv", False)
        n = len(self.blocks)
        self.succ = [[] for _ in range(n)]
        self.pred = [[] for _ in range(n)]
        self.calls = []
        self.call_at = {}
        self.rets = []
        self.yields = []
        self.drops = []  # (bb, place, ty, dropimpls)
        for i, bl in enumerate(self.blocks):
            if bl["c"]:
                continue
            t = bl["t"]
            k = t[0]
            s = []
            if k == "goto":
                s = [t[1]]
            elif k == "switch":
                s = [x[1] for x in t[2]] + [t[3]]
            elif k == "drop":
                s = [t[3]]
                self.drops.append((i, t[1], t[2], t[5]))
            elif k == "call":
                if t[4] is not None:
                    s = [t[4]]
                c = Call(self, i, t, bl["l"], bl["x"])
                c.copy_of = bl.get("inl")
                self.calls.append(c)
                self.call_at[i] = c
            elif k == "assert":
                s = [t[3]]
            elif k == "yield":
                s = [t[2]]
                self.yields.append(i)
            elif k == "falseedge":
                s = [t[1]]
            elif k == "falseunwind":
                s = [t[1]]
            elif k == "ret":
                self.rets.append(i)
            seen = set()
            for x in s:
                if x not in seen:
                    seen.add(x)
                    self.succ[i].append(x)
                    self.pred[x].append(i)
        self._reach0 = None
        self._defs = None

    # -- basics -------------------------------------------------------------------------
    def where(self, bb=None):
        if bb is None:
            return "%s:%d" % (self.file, self.line)
        return "%s:%d" % (self.file, self.blocks[bb]["l"])

    def local_ty(self, l):
        return self.locals[l][0]

    def local_name(self, l):
        return self.locals[l][1]

    def local_by_name(self, name):
        return [i for i, (_, n) in enumerate(self.locals) if n == name]

    def reachable_from(self, starts, avoid=()):
        """blocks reachable (>=0 steps) from `starts` without entering `avoid` blocks.
        A start block that is itself in `avoid` is not expanded."""
        avoid = set(avoid)
        seen = set()
        dq = deque()
        for s in starts:
            if s not in seen:
                seen.add(s)
                dq.append(s)
        while dq:
            b = dq.popleft()
            if b in avoid:
                continue
            for x in self.succ[b]:
                if x not in seen:
                    seen.add(x)
                    dq.append(x)
        return seen

    def reachable_after(self, starts, avoid=()):
        """blocks reachable in >=1 step from the *end* of each start block, not passing
        through `avoid` blocks (avoid blocks themselves are returned but not expanded)."""
        avoid = set(avoid)
        seen = set()
        dq = deque()
        for s in starts:
            for x in self.succ[s]:
                if x not in seen:
                    seen.add(x)
                    dq.append(x)
        while dq:
            b = dq.popleft()
            if b in avoid:
                continue
            for x in self.succ[b]:
                if x not in seen:
                    seen.add(x)
                    dq.append(x)
        return seen

    @property
    def live(self):
        if self._reach0 is None:
            self._reach0 = self.reachable_from([0])
        return self._reach0

    # -- dominance-style queries -----------------------------------------------------------
    def set_dominates(self, A, b):
        """every path entry -> end of... start of block b passes through (the end of) a block in A.
        (b in A counts as dominated only if b is reachable solely via A or b itself is in A)"""
        A = set(A)
        if b in A:
            return True
        if b not in self.live:
            return True
        r = self.reachable_from([0], avoid=A)
        # blocks in A are in r (entered) but not expanded
        return b not in r or b in A

    def must_pass(self, frm, through, exits=None):
        """every path from the end of block `frm` to any block in `exits` (default: Return
        blocks) passes through a block in `through`.  Returns (ok, witness_exit)."""
        if exits is None:
            exits = self.rets
        through = set(through)
        r = self.reachable_after([frm], avoid=through)
        for e in exits:
            if e in r and e not in through:
                return False, e
        return True, None

    def path(self, src, dst, avoid=()):
        """a shortest block path src -> dst avoiding `avoid` (for diagnostics)"""
        avoid = set(avoid)
        prev = {src: None}
        dq = deque([src])
        while dq:
            b = dq.popleft()
            if b == dst and b != src or (b == dst and prev[b] is not None):
                break
            if b in avoid and b != src:
                continue
            for x in self.succ[b]:
                if x not in prev:
                    prev[x] = b
                    dq.append(x)
        if dst not in prev:
            return None
        p = []
        x = dst
        while x is not None:
            p.append(x)
            x = prev[x]
        return list(reversed(p))

    def in_cycle(self, b):
        return b in self.reachable_after([b])

    # -- statements -------------------------------------------------------------------------
    def assigns(self):
        """iterate (bb, idx, lhs_place, rvalue, line) over non-cleanup blocks"""
        for i, bl in enumerate(self.blocks):
            if bl["c"]:
                continue
            for j, st in enumerate(bl["s"]):
                if st[0] == "=":
                    yield i, j, st[1], st[2], st[3]

    def defs(self):
        """local -> list of definitions: ('assign', bb, idx, rvalue) | ('call', bb, Call)
        (whole-local definitions only; projections recorded under key (local,'proj'))"""
        if self._defs is None:
            d = defaultdict(list)
            for i, j, lhs, rv, _ in self.assigns():
                if len(lhs) == 1:
                    d[lhs[0]].append(("assign", i, j, rv))
                else:
                    d[(lhs[0], "proj")].append(("assign", i, j, rv, lhs))
            for c in self.calls:
                if c.inl:
                    continue  # spliced helper: dest is assigned from the copy's return place in the join block
                if len(c.dest) == 1:
                    d[c.dest[0]].append(("call", c.bb, c))
                else:
                    d[(c.dest[0], "proj")].append(("call", c.bb, c))
            for i, bl in enumerate(self.blocks):
                if bl["c"]:
                    continue
                if bl["t"][0] == "yield":
                    pass
            self._defs = d
        return self._defs

    # -- call queries -----------------------------------------------------------------------
    def calls_to(self, *pats, via=False):
        """call sites in this body whose callee matches one of the patterns; with via=True also
        call sites whose (local) callee may transitively reach a matching callee."""
        res = []
        pats = set(pats)
        for c in self.calls:
            if c.bb not in self.live:
                continue
            if c.names & pats:
                res.append(c)
            elif via and self.facts.call_may_reach(c, pats):
                res.append(c)
        return res

    def blocks_of(self, calls):
        return sorted({c.bb for c in calls})


PASS_THROUGH = {
    "std::clone::Clone::clone", "std::ops::Deref::deref", "std::ops::DerefMut::deref_mut",
    "std::convert::AsRef::as_ref", "std::convert::Into::into", "std::convert::From::from",
    "std::borrow::Borrow::borrow", "std::sync::Arc::clone", "std::option::Option::as_ref",
    "std::option::Option::as_mut", "std::option::Option::as_deref", "std::option::Option::cloned",
    "std::option::Option::copied", "std::borrow::ToOwned::to_owned", "std::convert::AsMut::as_mut",
    "std::pin::Pin::new", "std::pin::Pin::new_unchecked", "std::future::IntoFuture::into_future",
    "std::pin::Pin::as_mut", "std::pin::Pin::get_mut", "std::boxed::Box::pin", "std::boxed::Box::new",
    "std::sync::Arc::new", "std::option::Option::unwrap", "std::result::Result::unwrap",
    "std::option::Option::expect", "std::result::Result::expect", "std::ops::Try::branch",
    "std::slice::<impl [T]>::to_vec", "std::vec::Vec::as_slice",
}


class Facts:
    def __init__(self, path):
        with open(path) as fh:
            raw = json.load(fh)
        self.raw = raw
        self.inline_report = None
        self.closure_report = None
        self.renamed = {}
        if not os.environ.get("SKV_NO_INLINE"):
            from .inline import inline_private_helpers, detect_renames
            self.renamed = detect_renames(raw)  # new canonical name -> baseline name it is recognised as
            self._undo_renames(raw)
            raw["_renamed"] = {v: k for k, v in self.renamed.items()}  # (ids now carry the baseline names)
            from .inline import splice_closures
            self.closure_report = splice_closures(raw)
            self.inline_report = inline_private_helpers(raw)
        self.bodies = {}
        for b in raw["bodies"]:
            self.bodies[b["id"]] = Body(b, self)
        self.adts = {a["path"]: a for a in raw["adts"]}
        self.consts = {c["path"]: c for c in raw["consts"]}
        self.fns = {f["path"]: f for f in raw["fns"]}
        self.impls = raw["impls"]
        # trait item -> [impl items]
        self.trait_impls = defaultdict(list)
        self.trait_implementors = defaultdict(list)
        for im in self.impls:
            self.trait_implementors[im["trait"]].append(im["self"])
            for ti, ii in im["items"]:
                self.trait_impls[strip_generics(ti)].append(ii)
        # alias index
        self.alias_index = defaultdict(set)
        self.canon = {}
        self._alias_cache = {}
        for bid in self.bodies:
            c = strip_generics(bid)
            self.canon[bid] = c
            for a in self.aliases_of(c):
                self.alias_index[a].add(bid)
        self._resolve_calls()
        self._build_callgraph()
        self._reach_cache = {}
        self.n_blocks = sum(len(b.blocks) for b in self.bodies.values())
        self.n_calls = sum(len(b.calls) for b in self.bodies.values())

    def _undo_renames(self, raw):
        """a baseline function that was only renamed is presented to the rules under the name they know: body ids (and
        the ids of its closures) are rewritten; calls to the new name resolve to it (see _callee_targets)"""
        if not self.renamed:
            return
        pref = {}
        for b in raw["bodies"]:
            c = strip_generics(b["id"])
            if c in self.renamed and b.get("kind") in ("fn", "method"):
                old_last = self.renamed[c].rsplit("::", 1)[-1]
                new_id = b["id"].rsplit("::", 1)[0] + "::" + old_last if "::" in b["id"] else old_last
                pref[b["id"]] = new_id
        for b in raw["bodies"]:
            for k in ("id", "root", "parent"):
                v = b.get(k)
                if not v:
                    continue
                for o, n in pref.items():
                    if v == o or v.startswith(o + "::"):
                        if k == "id":
                            b["real_id"] = v
                        b[k] = n + v[len(o):]
                        break
            for bl in b["blocks"]:
                for st in bl["s"]:
                    if st[0] == "=" and st[2][0] == "agg" and st[2][3] and "def" in st[2][3]:
                        d = st[2][3]["def"]
                        for o, n in pref.items():
                            if d.startswith(o + "::"):
                                st[2][3]["def"] = n + d[len(o):]

    # -- lookup ------------------------------------------------------------------------------
    def aliases_of(self, name):
        r = self._alias_cache.get(name)
        if r is None:
            r = frozenset(aliases(name))
            self._alias_cache[name] = r
        return r

    def body(self, name):
        """resolve a body by exact id or unique alias; fail closed otherwise"""
        if name in self.bodies:
            return self.bodies[name]
        c = self.alias_index.get(name)
        if not c:
            raise AnchorMissing("no function body named `%s` in the analysed crate" % name)
        if len(c) > 1:
            raise AnchorMissing("anchor `%s` is ambiguous: %s" % (name, sorted(c)))
        return self.bodies[next(iter(c))]

    def bodies_like(self, name):
        return [self.bodies[b] for b in sorted(self.alias_index.get(name, ()))]

    def has_body(self, name):
        return name in self.bodies or bool(self.alias_index.get(name))

    def closures_of(self, body, recursive=True):
        """closure / coroutine bodies syntactically nested in `body`"""
        res = []
        owners = {body.id} | set(body.inlined)
        for b in self.bodies.values():
            if b.parent in owners:
                res.append(b)
                if recursive:
                    res.extend(self.closures_of(b, True))
        return res

    def coroutine_of(self, name):
        """the coroutine body of an `async fn` (or of an async-trait method)"""
        b = self.body(name)
        cands = [c for c in self.closures_of(b, recursive=False) if c.kind == "coroutine"]
        if len(cands) != 1:
            raise AnchorMissing("`%s` has %d coroutine bodies, expected 1" % (name, len(cands)))
        return cands[0]

    def adt(self, name):
        if name in self.adts:
            return self.adts[name]
        c = [a for p, a in self.adts.items() if p.endswith("::" + name)]
        if len(c) != 1:
            raise AnchorMissing("ADT `%s`: %d candidates" % (name, len(c)))
        return c[0]

    def const(self, name):
        c = [a for p, a in self.consts.items() if p == name or p.endswith("::" + name)]
        if len(c) != 1:
            raise AnchorMissing("const `%s`: %d candidates" % (name, len(c)))
        if c[0]["v"] is None:
            raise AnchorMissing("const `%s` not evaluable" % name)
        return int(c[0]["v"])

    # -- call resolution -----------------------------------------------------------------------
    def _resolve_calls(self):
        for b in self.bodies.values():
            for c in b.calls:
                self._resolve_call(c)

    def _callee_targets(self, cal):
        if "ind" in cal:
            return []
        p = cal["p"]
        if cal.get("r"):
            r = strip_generics(cal["r"])
            return [self.renamed.get(r, r)]
        pc = strip_generics(p)
        pc = self.renamed.get(pc, pc)
        # dyn receivers: every in-crate implementor; generic receivers: only for in-crate traits
        if cal.get("trait") and (cal.get("dyn") or (cal.get("unres") and cal.get("local"))):
            impls = self.trait_impls.get(pc)
            if impls:
                return [strip_generics(x) for x in impls] + [pc]
        return [pc]

    def _resolve_call(self, c):
        c.targets = self._callee_targets(c.callee)
        names = set()
        for t in c.targets:
            names |= self.aliases_of(t)
        if "p" in c.callee:
            names |= self.aliases_of(strip_generics(c.callee["p"]))
        c.names = names

    def _build_callgraph(self):
        """edges: body id -> set of local body ids it may invoke (calls, closures it builds,
        fn items it mentions, destructors it may run)"""
        self.cg = defaultdict(set)
        self.ext = defaultdict(set)  # body id -> external callee canonical names (direct)
        for b in self.bodies.values():
            e = self.cg[b.id]
            for c in b.calls:
                for t in c.targets:
                    if t in self.canon_to_id:
                        e.add(self.canon_to_id[t])
                    else:
                        self.ext[b.id].add(t)
            for i, bl in enumerate(b.blocks):
                if bl["c"]:
                    continue
                for st in bl["s"]:
                    if st[0] != "=":
                        continue
                    rv = st[2]
                    if rv[0] == "agg" and rv[1] in ("closure", "coroutine", "coroutine_closure"):
                        d = rv[3]["def"]
                        if d in self.bodies:
                            e.add(d)
                    for op in _rvalue_operands(rv):
                        if op[0] == "k" and "fn" in op[1]:
                            for t in self._callee_targets(op[1]["fn"]):
                                if t in self.canon_to_id:
                                    e.add(self.canon_to_id[t])
                t = bl["t"]
                if t[0] == "call":
                    for op in t[2]:
                        if op[0] == "k" and "fn" in op[1]:
                            for tt in self._callee_targets(op[1]["fn"]):
                                if tt in self.canon_to_id:
                                    e.add(self.canon_to_id[tt])
                if t[0] == "drop":
                    for d in t[5]:
                        dc = strip_generics(d)
                        if dc in self.canon_to_id:
                            e.add(self.canon_to_id[dc])
        self.callers = defaultdict(set)
        for a, bs in self.cg.items():
            for x in bs:
                self.callers[x].add(a)

    @property
    def canon_to_id(self):
        m = getattr(self, "_c2i", None)
        if m is None:
            m = {}
            for bid, c in self.canon.items():
                m[c] = bid
            self._c2i = m
        return m

    def reach(self, bid):
        """set of local body ids transitively invocable from body `bid` (including itself)"""
        r = self._reach_cache.get(bid)
        if r is None:
            r = {bid}
            dq = deque([bid])
            while dq:
                x = dq.popleft()
                for y in self.cg.get(x, ()):
                    if y not in r:
                        r.add(y)
                        dq.append(y)
            self._reach_cache[bid] = r
        return r

    def reach_names(self, bid):
        """alias set of everything (local or external) transitively callable from `bid`"""
        key = ("n", bid)
        r = self._reach_cache.get(key)
        if r is None:
            r = set()
            for x in self.reach(bid):
                r |= self.aliases_of(self.canon[x])
                for e in self.ext.get(x, ()):
                    r |= self.aliases_of(e)
            self._reach_cache[key] = r
        return r

    def call_may_reach(self, c, pats):
        pats = set(pats)
        if c.names & pats:
            return True
        for t in c.targets:
            bid = self.canon_to_id.get(t)
            if bid and (self.reach_names(bid) & pats):
                return True
        # closures passed as arguments are attributed to the constructing body already
        return False

    def must_call(self, bid, pats, _stack=None):
        """every path from the entry of body `bid` to a (non-error) return passes a call that IS one of
        `pats` or whose (single, resolved, in-crate) callee itself must call one of them.  Calls through
        dyn / unresolved receivers never count.  Recursion through cycles yields False."""
        pats = frozenset(pats)
        key = ("must", bid, pats)
        if key in self._reach_cache:
            return self._reach_cache[key]
        _stack = _stack or set()
        if bid in _stack:
            return False
        _stack = _stack | {bid}
        b = self.bodies[bid]
        good = set()
        for c in b.calls:
            if c.bb not in b.live:
                continue
            if c.names & pats:
                good.add(c.bb)
                continue
            if len(c.targets) == 1 and c.targets[0] in self.canon_to_id and not c.callee.get("dyn") and not c.callee.get("unres"):
                if self.must_call(self.canon_to_id[c.targets[0]], pats, _stack):
                    good.add(c.bb)
        # exits: blocks assigning _0 an Ok / plain value; fall back to Return blocks
        exits_ = []
        for i, j, lhs, rv, _ in b.assigns():
            if lhs == [0] and i in b.live:
                if rv[0] == "agg" and rv[3] and rv[3].get("adt") == "std::result::Result" and rv[3]["variant"] == "Err":
                    continue
                exits_.append(i)
        for c in b.calls:
            if c.dest == [0] and c.bb in b.live and not any("from_residual" in t for t in c.targets):
                exits_.append(c.bb)
        if not exits_:
            exits_ = list(b.rets)
        r = b.reachable_from([0], avoid=good)
        res = bool(good) and not any(x in r and x not in good for x in exits_)
        self._reach_cache[key] = res
        return res

    def can_return_err(self, bid, _stack=None):
        """may the in-crate function `bid` (returning Result) return Err?  False only when every return
        value is an `Ok(..)` aggregate or the result of a call that itself cannot return Err."""
        key = ("canerr", bid)
        if key in self._reach_cache:
            return self._reach_cache[key]
        _stack = _stack or set()
        if bid in _stack:
            return True
        b = self.bodies[bid]
        res = False
        for i, j, lhs, rv, _ in b.assigns():
            if lhs == [0] and i in b.live:
                if rv[0] == "agg" and rv[3] and rv[3].get("adt") == "std::result::Result":
                    if rv[3]["variant"] == "Err":
                        res = True
                else:
                    res = True
        for c in b.calls:
            if c.dest == [0] and c.bb in b.live:
                if any("from_residual" in t for t in c.targets):
                    res = True
                elif len(c.targets) == 1 and c.targets[0] in self.canon_to_id and not c.callee.get("dyn") and not c.callee.get("unres"):
                    if self.can_return_err(self.canon_to_id[c.targets[0]], _stack | {bid}):
                        res = True
                else:
                    res = True
        self._reach_cache[key] = res
        return res

    def call_can_fail(self, c):
        """False only if every possible callee is an in-crate function that cannot return Err"""
        if not c.targets:
            return True
        for t in c.targets:
            bid = self.canon_to_id.get(t)
            if bid is None:
                if t in [strip_generics(x) for xs in self.trait_impls.values() for x in xs]:
                    continue
                # trait method declaration itself (no body) or external function
                if any(t == strip_generics(k) for k in self.trait_impls):
                    continue
                return True
            if self.can_return_err(bid):
                return True
        return False

    def call_must_reach(self, c, pats):
        if c.names & set(pats):
            return True
        if len(c.targets) == 1 and c.targets[0] in self.canon_to_id and not c.callee.get("dyn") and not c.callee.get("unres"):
            return self.must_call(self.canon_to_id[c.targets[0]], pats)
        return False

    def may_reach(self, bid, *pats):
        return bool(self.reach_names(bid) & set(pats))

    def witness_path(self, bid, pats):
        """a call chain bid -> ... -> function calling one of pats (for diagnostics)"""
        pats = set(pats)
        prev = {bid: None}
        dq = deque([bid])
        hit = None
        while dq:
            x = dq.popleft()
            direct = set()
            for c in self.bodies[x].calls:
                if c.names & pats:
                    direct.add(c.primary)
            if direct:
                hit = (x, sorted(direct)[0])
                break
            for y in sorted(self.cg.get(x, ())):
                if y not in prev:
                    prev[y] = x
                    dq.append(y)
        if not hit:
            return None
        chain = [hit[1]]
        x = hit[0]
        while x is not None:
            chain.append(x)
            x = prev[x]
        return list(reversed(chain))

    def callers_of(self, *pats, include_closures=True):
        """all call sites in the crate whose callee matches"""
        pats = set(pats)
        res = []
        for b in self.scan_bodies():
            for c in b.calls:
                if c.bb in b.live and (c.names & pats):
                    res.append(c)
        return res

    def scan_bodies(self):
        """the bodies a crate-wide scan should visit: everything except private helpers that were
        spliced into every one of their callers (their code is visited there, in context)"""
        return [b for b in self.bodies.values() if not b.absorbed]

    def lock_for_type(self, prot):
        """the struct field `Owner.field` whose type is a lock around type `prot` (unique), e.g.
        LevelManifest -> CoreInner.level_manifest"""
        m = getattr(self, "_lock_types", None)
        if m is None:
            m = defaultdict(set)
            for a in self.adts.values():
                for v in a["variants"]:
                    for (fname, fty, _pub) in v["fields"]:
                        for lk in ("RwLock<", "Mutex<"):
                            k = fty.find(lk)
                            if k >= 0:
                                inner = fty[k + len(lk):]
                                # strip RawRwLock param of lock_api types
                                depth = 0
                                cur = []
                                parts = []
                                for ch in inner:
                                    if ch == "<":
                                        depth += 1
                                    if ch == ">":
                                        if depth == 0:
                                            break
                                        depth -= 1
                                    if ch == "," and depth == 0:
                                        parts.append("".join(cur).strip())
                                        cur = []
                                        continue
                                    cur.append(ch)
                                parts.append("".join(cur).strip())
                                t = strip_type_generics(parts[-1])
                                m[t].add("%s.%s" % (last_seg(a["path"]), fname))
            self._lock_types = m
        c = m.get(prot) or m.get(last_seg(prot))
        if not c:
            c = {v for k, vs in m.items() if last_seg(k) == last_seg(prot) for v in vs}
        cs = sorted(c)
        if not cs:
            return None
        # several fields hold the same Arc'd lock (CoreInner / CompactionOptions): prefer CoreInner
        for x in cs:
            if x.startswith("CoreInner."):
                return x
        return cs[0] if len(cs) == 1 else None

    def fn_of(self, body):
        """the enclosing named function of a closure/coroutine body (or the body itself)"""
        while body.parent and body.parent in self.bodies:
            body = self.bodies[body.parent]
        return body


def _rvalue_operands(rv):
    k = rv[0]
    if k in ("use", "repeat"):
        return [rv[1]]
    if k == "cast":
        return [rv[2]]
    if k == "bin":
        return [rv[2], rv[3]]
    if k == "un":
        return [rv[2]]
    if k == "agg":
        return rv[2]
    return []


def rvalue_places(rv):
    """places read by an rvalue"""
    res = []
    k = rv[0]
    if k == "ref":
        res.append(rv[2])
    elif k in ("discr", "cfd", "ptr"):
        res.append(rv[1])
    for op in _rvalue_operands(rv):
        if op[0] in ("c", "m"):
            res.append(op[1])
    return res


# ----------------------------------------------------------------------------------------
# def-use provenance


class Origin:
    """result of chasing an operand backwards: the set of roots it may derive from"""

    def __init__(self):
        self.params = set()  # (param_local, tuple(field names))
        self.calls = []  # Call objects whose result flows in
        self.consts = []  # constant dicts
        self.fields = set()  # every (owner, field) crossed on the way
        self.ops = set()  # binary/unary ops crossed
        self.aggs = []  # aggregate extra dicts crossed
        self.unknown = False
        self.upvars = set()
        self.index_locals = set()  # locals used as `[i]` index on the way
        self.upvar_names = set()  # captured variables read (closures / coroutines), e.g. `start_seq`, `self__savepoints`

    def call_names(self):
        s = set()
        for c in self.calls:
            s |= c.names
        return s

    def from_call(self, *pats):
        return bool(self.call_names() & set(pats))

    def from_param(self, idx):
        return any(p[0] == idx for p in self.params)

    def field_names(self):
        return {f for (_, f) in self.fields}

    def __repr__(self):
        return "Origin(params=%s calls=%s fields=%s consts=%d ops=%s unk=%s)" % (
            sorted(self.params), [c.primary for c in self.calls], sorted(self.fields),
            len(self.consts), sorted(self.ops), self.unknown)


def place_fields(place):
    return [(p[3], p[2]) for p in place[1:] if isinstance(p, list) and p[0] == "f"]


def origin_of_operand(body, op, through_calls=True, max_steps=4000, stop_calls=()):
    """Backward def-use chase (flow-insensitive over all definitions of each local).
    Follows Use/Ref/CopyForDeref/Cast/field projections, aggregates, and (optionally) the
    first argument of pass-through calls plus every argument of other calls when
    through_calls == 'all'."""
    o = Origin()
    seen = set()
    work = deque()

    def push_place(pl, inherited=()):
        for f in place_fields(pl):
            o.fields.add(f)
        for p in pl[1:]:
            if isinstance(p, list) and p[0] == "i":
                o.index_locals.add(p[1])
        if pl[0] == 1 and body.kind in ("closure", "coroutine"):
            fidx = [p[1] for p in pl[1:] if isinstance(p, list) and p[0] == "f"]
            for nm, upl in body.raw.get("upvars", []):
                uf = [p[1] for p in upl[1:] if isinstance(p, list) and p[0] == "f"]
                if uf and fidx[:len(uf)] == uf:
                    o.upvar_names.add(nm)
                    parts = nm.split("__")
                    for comp in parts[1:]:
                        o.fields.add(("<captured %s>" % parts[0], comp))
        # field selection directly on the local (before any deref): `_t.1`, `(_e as Some).0`, `((_r as Ok).0).1`.
        # A selection PATH is carried through plain moves, aggregates and pass-through calls, so that the second
        # component of a tuple returned through `Ok(..)?` is not confused with the first.
        own = []
        clean = True
        for p in pl[1:]:
            if p == "*":
                clean = False
                break
            if isinstance(p, list) and p[0] == "f":
                own.append(p[1])
                continue
            if isinstance(p, list) and p[0] == "v":
                continue
            clean = False
            break
        path = tuple(own) + (tuple(inherited) if clean else ())
        work.append((pl[0], path))

    def push_op(op, inherited=()):
        if op[0] in ("c", "m"):
            push_place(op[1], inherited)
        elif op[0] == "k":
            o.consts.append(op[1])

    push_op(op)
    defs = body.defs()
    steps = 0
    while work:
        item = work.popleft()
        if item in seen:
            continue
        seen.add(item)
        l, path = item
        sel = path[0] if path else None
        rest = path[1:] if path else ()
        steps += 1
        if steps > max_steps:
            o.unknown = True
            break
        if 1 <= l <= body.argc:
            o.params.add((l, ()))
            if body.kind in ("closure", "coroutine") and l == 1:
                o.upvars.add(l)
        ds = list(defs.get(l, ())) + list(defs.get((l, "proj"), ()))
        if not ds and not (1 <= l <= body.argc):
            if l != 0:
                o.unknown = True
        for d in ds:
            if d[0] == "assign":
                rv = d[3]
                k = rv[0]
                inh = path
                if len(d) > 4:
                    # projection assignment `_l.f = ...`: only relevant if it writes the selected field
                    wf = [p[1] for p in d[4][1:] if isinstance(p, list) and p[0] == "f"]
                    if sel is not None and wf and wf[0] != sel:
                        continue
                    inh = rest if (sel is not None and wf and len(wf) == 1) else ()
                if k == "ref":
                    push_place(rv[2])
                elif k == "ptr":
                    push_place(rv[1])
                elif k in ("cfd", "discr"):
                    push_place(rv[1])
                    if k == "discr":
                        o.ops.add("discr")
                elif k in ("use", "repeat"):
                    push_op(rv[1], inh if k == "use" else ())
                elif k == "cast":
                    push_op(rv[2])
                elif k == "bin":
                    o.ops.add(rv[1])
                    push_op(rv[2])
                    push_op(rv[3])
                elif k == "un":
                    o.ops.add(rv[1])
                    push_op(rv[2])
                elif k == "agg":
                    if rv[3]:
                        o.aggs.append(rv[3])
                    ops_ = rv[2]
                    if sel is not None and len(d) <= 4 and rv[1] in ("tuple", "adt", "closure", "coroutine") and sel < len(ops_):
                        push_op(ops_[sel], rest)
                    else:
                        for x in ops_:
                            push_op(x)
                else:
                    o.unknown = True
            else:
                c = d[2]
                o.calls.append(c)
                if c.names & set(stop_calls):
                    continue
                if through_calls == "all":
                    for a in c.args:
                        push_op(a)
                elif through_calls:
                    if set(c.targets) & PASS_THROUGH or any(
                            strip_generics(c.callee.get("p", "")) == p for p in PASS_THROUGH):
                        pn = strip_generics(c.callee.get("p", "")).split("::")[-1]
                        for a in c.args[:1]:
                            if not path:
                                push_op(a)
                            elif pn in ("unwrap", "expect"):
                                push_op(a, (0,) + tuple(path))
                            elif pn in ("branch", "clone", "deref", "deref_mut", "as_ref", "as_mut", "borrow", "into", "from", "to_owned", "cloned", "copied", "as_deref"):
                                push_op(a, path)
                            else:
                                push_op(a)
    return o


def origin_of_place(body, place, **kw):
    return origin_of_operand(body, ["c", place], **kw)


# ----------------------------------------------------------------------------------------
# forward flow: which locals may hold (a value derived from) a given source


def forward_taint(body, seeds, through_calls=True):
    """seeds: set of locals.  Returns set of locals that may derive from them
    (flow-insensitive; through use/ref/cast/bin/agg/field reads and pass-through calls;
    with through_calls='all' through every call's result)."""
    tainted = set(seeds)
    changed = True
    while changed:
        changed = False
        for i, j, lhs, rv, _ in body.assigns():
            if lhs[0] in tainted:
                continue
            if any(pl[0] in tainted for pl in rvalue_places(rv)):
                tainted.add(lhs[0])
                changed = True
        for c in body.calls:
            if c.dest[0] in tainted:
                continue
            argl = [a[1][0] for a in c.args if a[0] in ("c", "m")]
            if not argl:
                continue
            if through_calls == "all":
                hit = any(a in tainted for a in argl)
            elif through_calls:
                hit = (set(c.targets) & PASS_THROUGH) and argl[0] in tainted
            else:
                hit = False
            if hit:
                tainted.add(c.dest[0])
                changed = True
    return tainted


# ----------------------------------------------------------------------------------------
# lock guard regions

LOCK_ACQUIRE = {
    "parking_lot::lock_api::Mutex::lock": "mutex",
    "parking_lot::lock_api::RwLock::read": "read",
    "parking_lot::lock_api::RwLock::write": "write",
    "parking_lot::lock_api::RwLock::upgradable_read": "upread",
    "parking_lot::lock_api::RwLock::read_recursive": "read",
    "std::sync::Mutex::lock": "mutex",
    "std::sync::RwLock::read": "read",
    "std::sync::RwLock::write": "write",
    "lock_api::Mutex::lock": "mutex",
    "lock_api::RwLock::read": "read",
    "lock_api::RwLock::write": "write",
    "guardian::ArcRwLockReadGuardian::take": "read",
    "guardian::ArcRwLockWriteGuardian::take": "write",
    "guardian::ArcMutexGuardian::take": "mutex",
}
LOCK_TRY = {
    "parking_lot::lock_api::Mutex::try_lock", "parking_lot::lock_api::RwLock::try_read",
    "parking_lot::lock_api::RwLock::try_write",
}


class Guard:
    def __init__(self, call, mode, lock_id, local, region, escapes):
        self.call = call
        self.mode = mode
        self.lock = lock_id
        self.local = local
        self.region = region  # set of blocks in which the guard may be held at block *end*...
        self.escapes = escapes

    def __repr__(self):
        return "Guard(%s %s in %s @%s, %d blocks%s)" % (
            self.mode, self.lock, self.call.body.id, self.call.where(), len(self.region),
            " ESCAPES" if self.escapes else "")


def lock_identity(body, call):
    """identify the lock by the innermost struct field its receiver derives from"""
    if not call.args:
        return "?"
    a = call.args[0]
    if a[0] == "k":
        return "?const"
    # walk back collecting fields in order
    cur = a[1]
    defs = body.defs()
    seen = set()
    last_field = None
    steps = 0
    while steps < 200:
        steps += 1
        fs = place_fields(cur)
        if fs:
            last_field = fs[-1]
            return "%s.%s" % (last_seg(last_field[0]), last_field[1])
        l = cur[0]
        if l in seen:
            break
        seen.add(l)
        ds = defs.get(l, [])
        if len(ds) != 1:
            break
        d = ds[0]
        if d[0] == "assign":
            rv = d[3]
            if rv[0] == "ref":
                cur = rv[2]
            elif rv[0] in ("cfd", "ptr"):
                cur = rv[1]
            elif rv[0] == "use" and rv[1][0] in ("c", "m"):
                cur = rv[1][1]
            else:
                break
        else:
            c = d[2]
            if c.args and c.args[0][0] in ("c", "m"):
                cur = c.args[0][1]
            else:
                break
    l = cur[0]
    if 1 <= l <= body.argc:
        nm = body.local_name(l) or "arg%d" % l
        return "param:%s:%s" % (nm, last_seg(body.local_ty(l)))
    return "local:%s" % last_seg(body.local_ty(l))


GUARD_TYPES = ("MutexGuard<", "RwLockReadGuard<", "RwLockWriteGuard<", "RwLockUpgradableReadGuard<",
               "MappedMutexGuard<", "MappedRwLockReadGuard<", "MappedRwLockWriteGuard<",
               "ArcRwLockReadGuardian<", "ArcRwLockWriteGuardian<", "ArcMutexGuardian<")
DROP_FNS = {"std::mem::drop", "core::mem::drop"}


def _is_guard_ty(t):
    return any(g in t for g in GUARD_TYPES) and "tokio::sync" not in t


def _transfer_call(c):
    """calls that hand a guard-carrying value through unchanged (`?`, unwrap, map_err, ...)"""
    for t in c.targets:
        if t in PASS_THROUGH:
            return True
        if t.startswith("std::result::Result::") or t.startswith("std::option::Option::"):
            return True
        if "Try>::branch" in t or t.endswith("Try::branch"):
            return True
        if "PoisonError" in t:
            return True
    return False


def guard_regions(body, wrappers=None):
    """For every blocking lock acquisition in `body` (direct `lock()/read()/write()` calls and calls
    of in-crate wrappers that return a guard): the blocks at whose terminator the guard is held.
    Ownership of the guard value is tracked through moves, `?`/unwrap-style calls and field
    projections; it ends at `Drop` of the owning local, `mem::drop`, or when the value escapes
    (returned / stored / passed to another function)."""
    wrappers = wrappers or {}
    res = []
    starts = []
    for c in body.calls:
        if c.bb not in body.live or c.target is None:
            continue
        mode = None
        lock = None
        for t in c.targets:
            if t in LOCK_ACQUIRE:
                mode = LOCK_ACQUIRE[t]
        if mode is None:
            for t in c.targets:
                if t in wrappers:
                    mode, lock = wrappers[t]
        if mode is None:
            continue
        if lock is None:
            lock = lock_identity(body, c)
        if len(c.dest) != 1:
            continue
        starts.append((c, mode, lock, c.target, c.dest[0]))
    # guards received by value as parameters: held from function entry
    if body.kind in ("fn", "method"):
        for l in range(1, body.argc + 1):
            ty = body.local_ty(l)
            if _is_guard_ty(ty) and not ty.startswith("&"):
                inner = split_generic_args(ty)
                prot = strip_type_generics(inner[-1]) if inner else "?"
                mode = "read" if "Read" in ty else ("mutex" if "Mutex" in ty else "write")
                lock = body.facts.lock_for_type(prot) or ("guard-param:%s" % last_seg(prot))
                pc = ParamAcquire(body, l)
                starts.append((pc, mode, lock, 0, l))
    for c, mode, lock, start_bb, start_local in starts:
        # forward dataflow: block -> set of owner locals at block entry
        entry = {start_bb: frozenset([start_local])}
        work = deque([start_bb])
        held_at_term = set()
        escapes = []
        release_calls = set()
        it = 0
        while work and it < 20000:
            it += 1
            b = work.popleft()
            owners = set(entry[b])
            bl = body.blocks[b]
            for st in bl["s"]:
                if st[0] != "=":
                    continue
                lhs, rv = st[1], st[2]
                moved = None
                for op in _rvalue_operands(rv):
                    if op[0] in ("m", "c") and op[1][0] in owners:
                        # a read through a reference (deref) is not an ownership transfer
                        if "*" in op[1][1:]:
                            continue
                        if op[0] == "c" and not _is_guard_ty(body.local_ty(lhs[0])):
                            continue
                        moved = op[1][0]
                if moved is not None:
                    owners.discard(moved)
                    if lhs[0] == 0 or len(lhs) > 1 and not _is_guard_ty(body.local_ty(lhs[0])):
                        escapes.append(("stored", b))
                        if lhs[0] == 0:
                            escapes[-1] = ("returned", b)
                    else:
                        owners.add(lhs[0])
            t = bl["t"]
            if owners:
                held_at_term.add(b)
            out = set(owners)
            if t[0] == "drop" and len(t[1]) == 1 and t[1][0] in out:
                out.discard(t[1][0])
            elif t[0] == "call":
                cc = body.call_at[b]
                marg = [op[1][0] for op in t[2] if op[0] == "m" and len(op[1]) == 1 and op[1][0] in out]
                if marg:
                    for m in marg:
                        out.discard(m)
                    release_calls.add(b)
                    if set(cc.targets) & DROP_FNS or any(x.endswith("mem::drop") for x in cc.targets):
                        pass
                    elif any("from_residual" in x for x in cc.targets):
                        pass  # `?` on a poisoned lock: the error conversion drops the guard
                    elif _transfer_call(cc) and len(cc.dest) == 1:
                        if _is_guard_ty(body.local_ty(cc.dest[0])):
                            out.add(cc.dest[0])
                            if cc.dest[0] == 0:
                                escapes.append(("returned", b))
                        # else: consumed by the call (e.g. `.map(|g| g.len())`): released when it returns
                    else:
                        escapes.append(("passed to %s" % cc.primary, b))
            elif t[0] == "ret":
                if 0 in out:
                    escapes.append(("returned", b))
            fo = frozenset(out)
            if not fo:
                continue
            for x in body.succ[b]:
                old = entry.get(x)
                new = fo if old is None else (old | fo)
                if new != old:
                    entry[x] = new
                    work.append(x)
        g = Guard(c, mode, lock, start_local, held_at_term, [e for e in escapes])
        g.release_calls = release_calls
        res.append(g)
    return res


class ParamAcquire:
    """pseudo call site standing for 'guard received as parameter' """

    def __init__(self, body, local):
        self.body, self.bb, self.line = body, 0, body.line
        self.primary = "<guard parameter %s>" % (body.local_name(local) or local)
        self.targets, self.names, self.args, self.dest, self.target = [], set(), [], [local], 0

    def where(self):
        return self.body.where()


def lock_wrappers(facts):
    """in-crate functions that return a lock guard they acquired: canonical name -> (mode, lock id)"""
    w = {}
    for _ in range(3):
        changed = False
        for b in facts.bodies.values():
            if b.kind not in ("fn", "method"):
                continue
            c = facts.canon[b.id]
            if c in w:
                continue
            for g in guard_regions(b, w):
                if any(e[0] == "returned" for e in g.escapes):
                    w[c] = (g.mode, g.lock)
                    changed = True
                    break
        if not changed:
            break
    return w


# ----------------------------------------------------------------------------------------
# comparisons as finite relations (the "values touched only through comparisons" domain)

REL = {"Lt": {"lt"}, "Le": {"lt", "eq"}, "Gt": {"gt"}, "Ge": {"gt", "eq"}, "Eq": {"eq"}, "Ne": {"lt", "gt"}}
ALLREL = frozenset({"lt", "eq", "gt"})
_MIRROR = {"lt": "gt", "gt": "lt", "eq": "eq"}
CMP_METHODS = {"lt": "Lt", "le": "Le", "gt": "Gt", "ge": "Ge", "eq": "Eq", "ne": "Ne"}


def mirror(rel):
    return frozenset(_MIRROR[r] for r in rel)


def rel_str(rel):
    rel = frozenset(rel)
    return {frozenset({"lt"}): "<", frozenset({"lt", "eq"}): "<=", frozenset({"gt"}): ">",
            frozenset({"gt", "eq"}): ">=", frozenset({"eq"}): "==", frozenset({"lt", "gt"}): "!=",
            frozenset(): "never", ALLREL: "always"}.get(rel, str(sorted(rel)))


class Cmp:
    """a comparison site: `dest = lhs <op> rhs` (BinaryOp, PartialOrd/PartialEq method call, or
    Ord::cmp / Comparator::compare producing an Ordering)"""

    def __init__(self, body, bb, kind, lhs, rhs, dest, line, op=None, call=None):
        self.body, self.bb, self.kind = body, bb, kind
        self.lhs, self.rhs, self.dest, self.line = lhs, rhs, dest, line
        self.op = op
        self.call = call

    def where(self):
        return "%s:%d" % (self.body.file, self.line)

    def switches(self):
        """[(switch block, {successor: frozenset(relation lhs vs rhs)})] for every switch whose
        discriminant is this comparison's result (through moves and `!`, anywhere in the body)"""
        b = self.body
        neg = {self.dest: False}
        isdiscr = set()
        changed = True
        while changed:
            changed = False
            for i, j, lhs, rv, _ in b.assigns():
                if len(lhs) != 1 or lhs[0] in neg:
                    continue
                if rv[0] == "use" and rv[1][0] in ("c", "m") and len(rv[1][1]) == 1 and rv[1][1][0] in neg:
                    neg[lhs[0]] = neg[rv[1][1][0]]
                    changed = True
                elif rv[0] == "un" and rv[1] == "Not" and rv[2][0] in ("c", "m") and len(rv[2][1]) == 1 and rv[2][1][0] in neg:
                    neg[lhs[0]] = not neg[rv[2][1][0]]
                    changed = True
                elif rv[0] == "discr" and len(rv[1]) == 1 and rv[1][0] in neg and self.kind == "ord":
                    neg[lhs[0]] = False
                    isdiscr.add(lhs[0])
                    changed = True
        # a result local with more than one definition (e.g. `a && b` lowered to a phi-like temp) is not ours alone
        defs = b.defs()
        res = []
        for blk in sorted(b.live):
            t = b.blocks[blk]["t"]
            if t[0] != "switch" or t[1][0] not in ("c", "m") or len(t[1][1]) != 1:
                continue
            l = t[1][1][0]
            if l not in neg:
                continue
            if self.kind == "ord" and l not in isdiscr:
                continue
            if len(defs.get(l, ())) > 1:
                continue
            e = {}
            if self.kind == "ord":
                m = {"0": {"eq"}, "1": {"gt"}, "255": {"lt"}, "-1": {"lt"},
                     "18446744073709551615": {"lt"}, "340282366920938463463374607431768211455": {"lt"}}
                used = set()
                bad = False
                for v, x in t[2]:
                    r = m.get(v)
                    if r is None:
                        bad = True
                        break
                    e[x] = frozenset(e.get(x, frozenset()) | r)
                    used |= r
                if bad:
                    continue
                rest = ALLREL - used
                if rest:
                    e[t[3]] = frozenset(e.get(t[3], frozenset()) | rest)
            else:
                base = frozenset(REL[self.op])
                tr = (ALLREL - base) if neg[l] else base
                fl = ALLREL - tr
                for v, x in t[2]:
                    r = fl if v == "0" else tr
                    e[x] = frozenset(e.get(x, frozenset()) | r)
                oth = tr if any(v == "0" for v, _ in t[2]) else fl
                e[t[3]] = frozenset(e.get(t[3], frozenset()) | oth)
            res.append((blk, e))
        return res

    def edges(self):
        sw = self.switches()
        return sw[0][1] if sw else None

    def condition_to_reach(self, target):
        """relation (lhs vs rhs) under which block `target` can be reached, provided every path
        entry -> target passes a switch on this comparison's result; None if the comparison
        does not control it"""
        res = None
        for sw, e in self.switches():
            c = edge_condition(self.body, sw, e, target)
            if c is not None:
                res = c if res is None else (res & c)
        return res


def edge_condition(body, sw, edges, target):
    """union of labels of those out-edges of switch block `sw` via which `target` stays reachable,
    or None if target is reachable without passing `sw` at all"""
    def reach(allowed_succ):
        seen = {0}
        dq = deque([0])
        while dq:
            x = dq.popleft()
            if x == target and x != 0:
                return True
            ss = body.succ[x]
            if x == sw:
                ss = [s for s in ss if s in allowed_succ]
            for y in ss:
                if y not in seen:
                    seen.add(y)
                    dq.append(y)
        return target in seen
    if target == sw:
        return None
    if reach(set()):
        return None
    res = frozenset()
    for s, lab in edges.items():
        if reach({s}):
            res |= lab
    return res


def comparisons(body):
    res = []
    for i, j, lhs, rv, line in body.assigns():
        if i not in body.live:
            continue
        if rv[0] == "bin" and rv[1] in REL and len(lhs) == 1:
            res.append(Cmp(body, i, "bin", rv[2], rv[3], lhs[0], line, op=rv[1]))
    for c in body.calls:
        if c.bb not in body.live or len(c.args) != 2 or len(c.dest) != 1:
            continue
        meth = c.primary.split("::")[-1]
        tr = c.callee.get("trait", "")
        if tr in ("std::cmp::PartialOrd", "std::cmp::PartialEq") and meth in CMP_METHODS:
            res.append(Cmp(body, c.bb, "call", c.args[0], c.args[1], c.dest[0], c.line, op=CMP_METHODS[meth], call=c))
        elif (tr in ("std::cmp::Ord", "std::cmp::PartialOrd") and meth in ("cmp", "partial_cmp")) or \
                (meth == "compare" and "Comparator" in c.callee.get("trait", "") + c.primary):
            res.append(Cmp(body, c.bb, "ord", c.args[-2], c.args[-1], c.dest[0], c.line, call=c))
    return res


# ----------------------------------------------------------------------------------------
# boolean results controlling branches


def bool_edges(body, local, start_bb):
    """{succ: frozenset({True|False})} for the switch consuming boolean `local` (through
    moves, `!`, and tuples that are matched on: `match (a, b)` switches on `_t.0`), searching forward from start_bb
    along single successors (calls that do not redefine the value are stepped over); also returns the switch block."""
    neg = {local: False}
    tup = {}
    cur = start_bb
    seen = set()
    while cur is not None and cur not in seen and len(seen) < 12:
        seen.add(cur)
        bl = body.blocks[cur]
        for st in bl["s"]:
            if st[0] != "=" or len(st[1]) != 1:
                continue
            rv = st[2]
            if rv[0] == "use" and rv[1][0] in ("c", "m") and len(rv[1][1]) == 1 and rv[1][1][0] in neg:
                neg[st[1][0]] = neg[rv[1][1][0]]
            elif rv[0] == "use" and rv[1][0] in ("c", "m") and len(rv[1][1]) == 2 and isinstance(rv[1][1][1], list) and rv[1][1][1][0] == "f" \
                    and (rv[1][1][0], rv[1][1][1][1]) in tup:
                neg[st[1][0]] = tup[(rv[1][1][0], rv[1][1][1][1])]
            elif rv[0] == "un" and rv[1] == "Not" and rv[2][0] in ("c", "m") and rv[2][1][0] in neg:
                neg[st[1][0]] = not neg[rv[2][1][0]]
            elif rv[0] == "agg" and rv[1] == "tuple":
                for k, op_ in enumerate(rv[2]):
                    if op_[0] in ("c", "m") and len(op_[1]) == 1 and op_[1][0] in neg:
                        tup[(st[1][0], k)] = neg[op_[1][0]]
        t = bl["t"]
        n = None
        if t[0] == "switch" and t[1][0] in ("c", "m"):
            pl = t[1][1]
            if len(pl) == 1 and pl[0] in neg:
                n = neg[pl[0]]
            elif len(pl) == 2 and isinstance(pl[1], list) and pl[1][0] == "f" and (pl[0], pl[1][1]) in tup:
                n = tup[(pl[0], pl[1][1])]
        if n is not None:
            res = {}
            for v, x in t[2]:
                val = (v != "0") != n
                res[x] = frozenset(res.get(x, frozenset()) | {val})
            # otherwise-arm: if the listed value is 0 the otherwise arm means "true"
            listed_zero = any(v == "0" for v, _ in t[2])
            oval = (True if listed_zero else False) != n
            res[t[3]] = frozenset(res.get(t[3], frozenset()) | {oval})
            return res, cur
        if t[0] in ("goto", "falseedge", "falseunwind", "drop"):
            cur = body.succ[cur][0] if body.succ[cur] else None
            continue
        if t[0] == "call" and body.succ[cur]:
            c = body.call_at.get(cur) if hasattr(body, "call_at") and isinstance(body.call_at, dict) else None
            dest = c.dest if c is not None else None
            if dest is not None and len(dest) == 1 and (dest[0] in neg or any(dest[0] == tl for tl, _ in tup)):
                return None, None
            cur = body.succ[cur][0]
            continue
        return None, None
    return None, None


def bool_call_condition(body, call, target):
    """set of boolean results of `call` under which `target` is reachable (None: not controlled)"""
    if call.target is None or len(call.dest) != 1:
        return None
    e, sw = bool_edges(body, call.dest[0], call.target)
    if e is None:
        return None
    return edge_condition(body, sw, e, target)


def option_edges(body, local, start_bb):
    """{succ: {'Some'|'None'}} for a switch on discriminant(local) of an Option/Result-like"""
    cur = start_bb
    seen = set()
    holders = {local}
    while cur is not None and cur not in seen and len(seen) < 8:
        seen.add(cur)
        bl = body.blocks[cur]
        dl = {}
        for st in bl["s"]:
            if st[0] != "=" or len(st[1]) != 1:
                continue
            rv = st[2]
            if rv[0] == "use" and rv[1][0] in ("c", "m") and len(rv[1][1]) == 1 and rv[1][1][0] in holders:
                holders.add(st[1][0])
            if rv[0] == "ref" and len(rv[2]) == 1 and rv[2][0] in holders:
                holders.add(st[1][0])
            if rv[0] == "discr" and rv[1][0] in holders:
                dl[st[1][0]] = True
        t = bl["t"]
        if t[0] == "switch" and t[1][0] in ("c", "m") and t[1][1][0] in dl:
            res = {}
            used = set()
            for v, x in t[2]:
                res[x] = frozenset(res.get(x, frozenset()) | {v})
                used.add(v)
            rest = {"0", "1"} - used
            if rest:
                res[t[3]] = frozenset(res.get(t[3], frozenset()) | rest)
            return res, cur
        if t[0] in ("goto", "falseedge", "falseunwind", "drop"):
            cur = body.succ[cur][0] if body.succ[cur] else None
            continue
        return None, None
    return None, None


# ----------------------------------------------------------------------------------------
# fate of Result values (error discipline)

_DROPPING = {"ok", "unwrap_or", "unwrap_or_default", "unwrap_or_else", "is_ok", "is_err", "err"}


def result_fate(body, call):
    """what happens to the Result returned by `call`:
    'propagated' (`?`, returned, passed on), 'handled' (matched / if let / map_err+?),
    'dropped:<how>' (`let _ =`, `.ok()`, `unwrap_or*`, never read), 'panics' (unwrap/expect)."""
    if not call.ret_ty.startswith("std::result::Result<") or len(call.dest) != 1:
        return None
    if call.target is None:
        return "diverges"
    holders = {call.dest[0]}
    if call.dest[0] == 0:
        return "propagated"
    fate = None
    changed = True
    while changed:
        changed = False
        for i, j, lhs, rv, _ in body.assigns():
            for pl in rvalue_places(rv):
                if pl[0] in holders:
                    if rv[0] == "discr":
                        return _discr_fate(body, call, i)
                    if lhs[0] == 0:
                        return "propagated"
                    if rv[0] in ("use", "ref", "cfd") and len(lhs) == 1 and lhs[0] not in holders:
                        holders.add(lhs[0])
                        changed = True
                    elif rv[0] == "agg":
                        return "propagated"
                    elif len(lhs) > 1:
                        return "propagated"
        for c in body.calls:
            if c is call:
                continue
            for a in c.args:
                if a[0] in ("c", "m") and a[1][0] in holders:
                    meth = c.primary.split("::")[-1]
                    if "Try>::branch" in c.primary or meth == "branch":
                        return "propagated"
                    if c.primary.startswith("std::result::Result::"):
                        if meth in ("unwrap", "expect", "unwrap_err", "expect_err"):
                            return "panics"
                        if meth in _DROPPING:
                            # `.ok()` keeps the value but discards the error: still a dropped error
                            if meth == "err" and len(c.dest) == 1 and _is_read(body, c.dest[0], c):
                                return "converted:err"
                            if meth in ("is_ok", "is_err"):
                                return "handled"
                            return "dropped:%s" % meth
                        if len(c.dest) == 1 and c.dest[0] not in holders and c.ret_ty.startswith("std::result::Result<"):
                            holders.add(c.dest[0])
                            changed = True
                            if c.dest[0] == 0:
                                return "propagated"
                            continue
                        return "handled"
                    if meth == "drop" and "mem::drop" in c.primary:
                        return "dropped:drop()"
                    return "propagated"
    return "dropped:unused"


def _discr_fate(body, call, discr_bb):
    """`match`/`if let` on the result: 'handled', or 'dropped:if-let-ok' when the Err arm does nothing"""
    t = body.blocks[discr_bb]["t"]
    if t[0] != "switch":
        return "handled"
    ok_t = [x for v, x in t[2] if v == "0"]
    err_t = [x for v, x in t[2] if v == "1"]
    if not err_t:
        err_t = [t[3]] if ok_t else []
    elif not ok_t:
        ok_t = [t[3]]
    if not err_t or not ok_t:
        return "handled"
    okr = body.reachable_from(ok_t, avoid={discr_bb})
    okr.discard(discr_bb)
    cur = err_t[0]
    seen = set()
    while cur is not None and cur not in seen and len(seen) < 12:
        seen.add(cur)
        if cur in okr:
            return "dropped:if-let-ok"
        bl = body.blocks[cur]
        for st in bl["s"]:
            if st[0] == "=":
                rv = st[2]
                # assigning unit / a constant to a temp is still "nothing"
                if rv[0] == "use" and rv[1][0] == "k" and st[1] != [0]:
                    continue
                return "handled"
        tt = bl["t"]
        if tt[0] in ("goto", "falseedge", "falseunwind", "drop"):
            cur = body.succ[cur][0] if body.succ[cur] else None
            continue
        return "handled"
    return "handled"


def _is_read(body, local, defining_call):
    for i, j, lhs, rv, _ in body.assigns():
        for pl in rvalue_places(rv):
            if pl[0] == local:
                return True
    for c in body.calls:
        if c is defining_call:
            continue
        for a in c.args:
            if a[0] in ("c", "m") and a[1][0] == local:
                return True
    return False


# ----------------------------------------------------------------------------------------
# tiny constant folder (named consts, literals, + - * & | << >> casts)


def const_eval(facts, body, op, depth=0):
    if depth > 12:
        return None
    if op[0] == "k":
        k = op[1]
        if "v" in k:
            return int(k["v"])
        if "cdef" in k and not k.get("promoted"):
            c = facts.consts.get(k["cdef"])
            if c and c["v"] is not None:
                return int(c["v"])
        return None
    pl = op[1]
    ds = body.defs().get(pl[0], [])
    if len(ds) != 1 or ds[0][0] != "assign":
        return None
    rv = ds[0][3]
    fields = [p for p in pl[1:] if isinstance(p, list) and p[0] == "f"]
    if rv[0] == "use":
        return const_eval(facts, body, rv[1], depth + 1)
    if rv[0] == "cast":
        return const_eval(facts, body, rv[2], depth + 1)
    if rv[0] == "bin":
        a = const_eval(facts, body, rv[2], depth + 1)
        b = const_eval(facts, body, rv[3], depth + 1)
        if a is None or b is None:
            return None
        o = rv[1].replace("WithOverflow", "").replace("Unchecked", "")
        try:
            return {"Add": a + b, "Sub": a - b, "Mul": a * b, "BitAnd": a & b, "BitOr": a | b,
                    "Shl": a << b, "Shr": a >> b}[o]
        except KeyError:
            return None
    return None


def split_generic_args(ty):
    """'std::result::Result<A<B, C>, D>' -> ['A<B, C>', 'D']"""
    i = ty.find("<")
    if i < 0 or not ty.endswith(">"):
        return []
    inner = ty[i + 1:-1]
    out, depth, cur = [], 0, []
    for k, ch in enumerate(inner):
        if ch in "<([":
            depth += 1
        elif ch in ")]":
            depth -= 1
        elif ch == ">" and inner[k - 1] != "-":
            depth -= 1
        if ch == "," and depth == 0:
            out.append("".join(cur).strip())
            cur = []
        else:
            cur.append(ch)
    if cur:
        out.append("".join(cur).strip())
    return out


def result_err_type(ty):
    if not ty.startswith("std::result::Result<"):
        return None
    a = split_generic_args(ty)
    return a[1] if len(a) == 2 else None


def feasible_reach(body, starts, avoid=(), out_states=None):
    """blocks reachable from `starts` (>= 0 steps), pruning switch edges that contradict a
    variant fact established on the way: after `x = Enum::Variant(..)` (aggregate) a later
    `switch discriminant(x)` follows only that variant's edge, as long as x is not
    re-assigned / mutably borrowed in between.  Sound over-approximation of feasible paths
    (facts are only used to prune edges that are certainly not taken)."""
    avoid = set(avoid)
    seen = set()
    out = set()
    dq = deque((s, frozenset()) for s in starts)
    n = 0
    while dq and n < 200000:
        n += 1
        b, facts = dq.popleft()
        if (b, facts) in seen:
            continue
        seen.add((b, facts))
        out.add(b)
        if b in avoid:
            continue
        fd = dict(facts)
        bl = body.blocks[b]
        discr = {}
        for st in bl["s"]:
            if st[0] != "=":
                if st[0] == "setdiscr":
                    fd.pop(st[1][0], None)
                continue
            lhs, rv = st[1], st[2]
            tgt = lhs[0]
            if rv[0] == "discr" and len(rv[1]) == 1 and len(lhs) == 1:
                discr[tgt] = rv[1][0]
                fd.pop(tgt, None)
                continue
            if len(lhs) == 1:
                if rv[0] == "agg" and rv[3] and "vi" in rv[3]:
                    fd[tgt] = rv[3]["vi"]
                elif rv[0] == "use" and rv[1][0] in ("c", "m") and len(rv[1][1]) == 1 and rv[1][1][0] in fd:
                    fd[tgt] = fd[rv[1][1][0]]
                elif rv[0] == "use" and rv[1][0] == "k" and "v" in rv[1][1] and rv[1][1].get("ty") == "bool":
                    fd[tgt] = ("b", int(rv[1][1]["v"]))
                elif rv[0] == "un" and rv[1] == "Not" and rv[2][0] in ("c", "m") and len(rv[2][1]) == 1 and \
                        isinstance(fd.get(rv[2][1][0]), tuple):
                    fd[tgt] = ("b", 1 - fd[rv[2][1][0]][1])
                else:
                    fd.pop(tgt, None)
            else:
                fd.pop(tgt, None)
            if rv[0] == "ref" and rv[1]:
                fd.pop(rv[2][0], None)
            if rv[0] == "ptr":
                fd.pop(rv[1][0], None)
        t = bl["t"]
        succ = body.succ[b]
        if t[0] == "switch" and t[1][0] in ("c", "m") and len(t[1][1]) == 1 and t[1][1][0] in discr:
            src = discr[t[1][1][0]]
            if src in fd and not isinstance(fd[src], tuple):
                v = str(fd[src])
                hit = [x for val, x in t[2] if val == v]
                succ = hit if hit else [t[3]]
        elif t[0] == "switch" and t[1][0] in ("c", "m") and len(t[1][1]) == 1 and isinstance(fd.get(t[1][1][0]), tuple):
            v = str(fd[t[1][1][0]][1])
            hit = [x for val, x in t[2] if val == v]
            succ = hit if hit else [t[3]]
        elif t[0] == "call":
            c = body.call_at.get(b)
            if c is not None and not c.inl:
                known = None
                if any(n.endswith("Try::branch") for n in c.names) and c.args and c.args[0][0] in ("c", "m") \
                        and len(c.args[0][1]) == 1 and not isinstance(fd.get(c.args[0][1][0], ()), tuple):
                    # `?` on a value whose variant is known: Ok/Some -> Continue(0), Err/None -> Break(1)
                    a0 = c.args[0][1][0]
                    ty = body.local_ty(a0)
                    if ty.startswith("std::result::Result<"):
                        known = fd[a0]
                    elif ty.startswith("std::option::Option<"):
                        known = 1 - fd[a0]
                if any(n.endswith("from_residual") for n in c.names):
                    # `?` re-wraps the residual: the produced value is always Err(..) / None
                    if c.ret_ty.startswith("std::result::Result<"):
                        known = 1
                    elif c.ret_ty.startswith("std::option::Option<"):
                        known = 0
                fd.pop(c.dest[0], None)
                if known is not None and len(c.dest) == 1:
                    fd[c.dest[0]] = known
        nf = frozenset(fd.items())
        if out_states is not None:
            out_states.setdefault(b, []).append(dict(fd))
        for x in succ:
            dq.append((x, nf))
    return out


def proven_err_exit(body, states, e):
    """every explored path that ends in exit block `e` leaves Err(..) in the return place of a Result-returning fn"""
    if not body.local_ty(0).startswith("std::result::Result<"):
        return False
    st = states.get(e)
    return bool(st) and all(x.get(0) == 1 for x in st)
